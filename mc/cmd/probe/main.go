package main

import (
	"fmt"
	"time"

	"github.com/uhn/ggql/pkg/ggql"

	"verif/mc/sgen"
)

type dummy struct{}

func (dummy) Resolve(field *ggql.Field, args map[string]interface{}) (interface{}, error) {
	return dummy{}, nil
}

func main() {
	for v := 0; v < 3; v++ {
		root := ggql.NewRoot(dummy{})
		_ = root.ParseString(sgen.Bases()[v].SDL())
		t := time.Now()
		for i := 0; i < 20; i++ {
			_ = root.SDL(true, true)
		}
		fmt.Println(v, "SDL", time.Since(t)/20)
		t = time.Now()
		for i := 0; i < 20; i++ {
			_, _ = sgen.FromRoot(root, []string{"tag"})
		}
		fmt.Println(v, "FromRoot", time.Since(t)/20)
		t = time.Now()
		for i := 0; i < 20; i++ {
			_ = root.ResolveString(`{__schema{types{kind name fields(includeDeprecated:true){name args{name defaultValue type{kind name ofType{kind name ofType{kind name}}}} type{kind name ofType{kind name ofType{kind name}}}}}}}`, "", nil)
		}
		fmt.Println(v, "intro", time.Since(t)/20)
	}
}
