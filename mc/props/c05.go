package props

import (
	"bytes"
	"encoding/json"
	"fmt"
	"math"
	"regexp"
	"strings"
	"time"

	"github.com/uhn/ggql/pkg/ggql"

	"verif/mc/core"
	"verif/mc/world"
)

// C05 — response data is well-typed with respect to the schema (DESIGN 5.5). Complete product.

func init() {
	Register(&Check{
		ID:  "C05",
		Run: runC05,
		Rule: "complete product: declared leaf {Int, Float, String, ID, Boolean, enum E, Time, Int64, Float64} x wrapper {L, L!, [L], [L!], [[L]]} x returned Go value " +
			"(every numeric kind at 0, +-1, min, max, +-2^31, 2^53+1; float32/64 0.5, 1e10, 1e40, NaN, +-Inf; strings \"\", \"12\", \"1.5\", \"abc\", \"true\", RFC 3339, invalid UTF-8; bool; typed nil pointer; *int; struct; map; Symbol; time.Time; " +
			"for list types every list carrier: []interface{}, typed slices, mixed and mistyped) x position {root field, nested object field, element of a list of objects} x {RS, AS, FS}; " +
			"oracle: response serialised by WriteJSONValue, decoded by encoding/json and walked in parallel with the schema (leaf shape of the declared type or null); a clearly unrepresentable value must give null plus an error with that path. " +
			"distinct = product cells; non-trivial = value is not the natural Go kind of the leaf",
		Technique:      "complete enumeration of a finite product on the real resolver; schema-directed walk of the decoded JSON",
		Assumptions:    []string{"encoding/json trusted", "non-null bubbling is not demanded", "numeric-looking strings for numeric leaves are accepted either way"},
		QuickBudget:    90 * time.Second,
		ThoroughBudget: 10 * time.Minute,
	})
}

var c05Leaves = []string{"Int", "Float", "String", "ID", "Boolean", "E", "Time", "Int64", "Float64"}

const c05NWrap = 5

func c05Wrap(base string, w int) *world.T {
	n := world.N(base)
	switch w {
	case 1:
		return world.NN(n)
	case 2:
		return world.L(n)
	case 3:
		return world.L(world.NN(n))
	case 4:
		return world.L(world.L(n))
	}
	return n
}

func c05SDL() string {
	var b strings.Builder
	b.WriteString("enum E { RED GREEN BLUE }\n")
	fields := ""
	for li, l := range c05Leaves {
		for w := 0; w < c05NWrap; w++ {
			fields += fmt.Sprintf("  r%d_%d: %s\n", li, w, c05Wrap(l, w))
		}
	}
	b.WriteString("type Query {\n" + fields + "  o: O\n  os: [O]\n}\n")
	b.WriteString("type O {\n" + fields + "  o: O\n}\n")
	return b.String()
}

type c05Struct struct{ A int }

type c05Val struct {
	Name string
	V    interface{}
}

func c05Scalars() []c05Val {
	one := 1
	var nilp *int
	tm := time.Date(2020, 4, 5, 6, 7, 8, 0, time.UTC)
	return []c05Val{
		{"nil", nil}, {"int(0)", int(0)}, {"int(1)", int(1)}, {"int(-1)", int(-1)}, {"int(2^31-1)", int(math.MaxInt32)}, {"int(2^31)", int(math.MaxInt32 + 1)}, {"int(-2^31-1)", int(math.MinInt32 - 1)},
		{"int8(-128)", int8(-128)}, {"int16(32767)", int16(32767)}, {"int32(min)", int32(math.MinInt32)}, {"int32(7)", int32(7)},
		{"int64(7)", int64(7)}, {"int64(2^53+1)", int64(1<<53 + 1)}, {"int64(max)", int64(math.MaxInt64)}, {"int64(min)", int64(math.MinInt64)},
		{"uint(7)", uint(7)}, {"uint8(255)", uint8(255)}, {"uint16(65535)", uint16(65535)}, {"uint32(max)", uint32(math.MaxUint32)}, {"uint64(max)", uint64(math.MaxUint64)}, {"uint64(7)", uint64(7)},
		{"float32(0.5)", float32(0.5)}, {"float32(1e10)", float32(1e10)}, {"float32(NaN)", float32(math.NaN())}, {"float32(+Inf)", float32(math.Inf(1))}, {"float32(3)", float32(3)},
		{"float64(0.5)", 0.5}, {"float64(1e10)", 1e10}, {"float64(1e40)", 1e40}, {"float64(NaN)", math.NaN()}, {"float64(+Inf)", math.Inf(1)}, {"float64(-Inf)", math.Inf(-1)}, {"float64(3)", 3.0}, {"float64(2^31)", 2147483648.0},
		{"string()", ""}, {"string(12)", "12"}, {"string(1.5)", "1.5"}, {"string(abc)", "abc"}, {"string(true)", "true"}, {"string(RED)", "RED"}, {"string(PURPLE)", "PURPLE"},
		{"string(NaN)", "NaN"}, {"string(Inf)", "Inf"}, {"string(-Infinity)", "-Infinity"}, {"string(1e39)", "1e39"}, {"string(1e400)", "1e400"}, {"string(99999999999)", "99999999999"},
		{"string(rfc3339)", "2020-04-05T06:07:08Z"}, {"string(time,comma)", "2021-03-04T05:06:07,125Z"}, {"string(time,short-hour)", "2021-03-04T5:06:07Z"}, {"string(time,offset+24)", "2021-03-04T05:06:07+24:00"}, {"string(time,offset)", "2021-03-04T05:06:07.5+01:00"}, {"string(invalid-utf8)", "a\xffb"}, {"string(quote)", "q\"\\\n"},
		{"bool(true)", true}, {"bool(false)", false},
		{"(*int)(nil)", nilp}, {"*int(1)", &one}, {"struct", c05Struct{1}}, {"*struct", &c05Struct{2}}, {"map", map[string]interface{}{"a": 1}},
		{"Symbol(RED)", ggql.Symbol("RED")}, {"Symbol(PURPLE)", ggql.Symbol("PURPLE")}, {"time.Time", tm}, {"[]byte", []byte("ab")},
	}
}

// c05Lists builds the list-shaped returns for a list-typed field.
func c05Lists(depth int) []c05Val {
	var out []c05Val
	tm := time.Date(2020, 4, 5, 6, 7, 8, 0, time.UTC)
	typed := []c05Val{
		{"[]string{a,12}", []string{"a", "12"}}, {"[]int{1,2^31}", []int{1, math.MaxInt32 + 1}}, {"[]int64{1,2^53+1}", []int64{1, 1<<53 + 1}}, {"[]bool{true}", []bool{true, false}},
		{"[]float32{0.5,NaN}", []float32{0.5, float32(math.NaN())}}, {"[]float64{0.5,1e40,Inf}", []float64{0.5, 1e40, math.Inf(1)}}, {"[]time.Time", []time.Time{tm}},
		{"[]string{}", []string{}}, {"[]int(nil)", []int(nil)}, {"[]int32{1}", []int32{1}}, {"[]uint8{1}", []uint8{1, 2}}, {"[2]int", [2]int{1, 2}}, {"[]*int{nil}", []*int{nil}},
		{"[]ggql.Symbol", []ggql.Symbol{"RED", "PURPLE"}},
	}
	if depth == 1 {
		out = append(out, c05Val{"nil", nil}, c05Val{"[]interface{}{}", []interface{}{}})
		for _, s := range c05Scalars() {
			out = append(out, c05Val{"[]interface{}{" + s.Name + "}", []interface{}{s.V}})
			// scalar where a list is declared
			out = append(out, c05Val{"scalar:" + s.Name, s.V})
		}
		out = append(out, c05Val{"[]interface{}{1,abc,nil}", []interface{}{1, "abc", nil}})
		out = append(out, typed...)
		return out
	}
	// [[L]]
	out = append(out, c05Val{"nil", nil}, c05Val{"[[]]", []interface{}{[]interface{}{}}}, c05Val{"[nil]", []interface{}{nil}})
	for _, s := range c05Scalars() {
		out = append(out, c05Val{"[[" + s.Name + "]]", []interface{}{[]interface{}{s.V}}})
	}
	out = append(out, c05Val{"[" + "1" + "] (depth 1 for depth 2)", []interface{}{1}})
	for _, t := range typed {
		out = append(out, c05Val{"[]interface{}{" + t.Name + "}", []interface{}{t.V}})
	}
	out = append(out, c05Val{"[][]int", [][]int{{1, math.MaxInt32 + 1}}}, c05Val{"[][]string", [][]string{{"a"}}})
	return out
}

// ---- back ends

type c05RSNode struct {
	v     interface{}
	depth int
	e     bool // leaf fields answer their value AND an error
}

func (n *c05RSNode) Resolve(field *ggql.Field, args map[string]interface{}) (interface{}, error) {
	switch field.Name {
	case "query":
		return &c05RSNode{n.v, 0, n.e}, nil
	case "o":
		return &c05RSNode{n.v, 1, n.e}, nil
	case "os":
		return []interface{}{&c05RSNode{n.v, 1, n.e}, &c05RSNode{n.v, 1, n.e}}, nil
	}
	if n.e {
		return n.v, fmt.Errorf("the resolver of %s gives a value and an error", field.Name)
	}
	return n.v, nil
}

type c05AnyNode struct {
	v interface{}
	e bool
}
type c05AnyRoot struct {
	v interface{}
	e bool
}
type c05Any struct{}

func (a *c05Any) Resolve(obj interface{}, field *ggql.Field, args map[string]interface{}) (interface{}, error) {
	switch to := obj.(type) {
	case *c05AnyRoot:
		return &c05AnyNode{to.v, to.e}, nil
	case *c05AnyNode:
		switch field.Name {
		case "o":
			return &c05AnyNode{to.v, to.e}, nil
		case "os":
			return []interface{}{&c05AnyNode{to.v, to.e}, &c05AnyNode{to.v, to.e}}, nil
		}
		if to.e {
			return to.v, fmt.Errorf("the resolver of %s gives a value and an error", field.Name)
		}
		return to.v, nil
	}
	return nil, fmt.Errorf("unexpected %T", obj)
}
func (a *c05Any) Len(list interface{}) int                         { return 0 }
func (a *c05Any) Nth(list interface{}, i int) (interface{}, error) { return nil, nil }

type C05Obj struct {
	V  interface{}
	O  *C05Obj
	Os []*C05Obj
}
type C05Root struct{ Query *C05Obj }

func c05Root(strat world.Strategy, sdl string, v interface{}) *ggql.Root {
	return c05RootE(strat, sdl, v, false)
}

// c05RootE: with withErr the leaf resolvers (Resolver and AnyResolver back ends) return their value together with an error.
func c05RootE(strat world.Strategy, sdl string, v interface{}, withErr bool) *ggql.Root {
	var root *ggql.Root
	switch strat {
	case world.RS:
		root = ggql.NewRoot(&c05RSNode{v, 0, withErr})
	case world.AS:
		root = ggql.NewRoot(&c05AnyRoot{v, withErr})
		root.AnyResolver = &c05Any{}
	case world.FS:
		leaf := &C05Obj{V: v}
		leaf.O = leaf // O.o: the object itself, so a request can nest as deep as it likes
		root = ggql.NewRoot(&C05Root{Query: &C05Obj{V: v, O: leaf, Os: []*C05Obj{leaf, leaf}}})
	}
	if err := root.ParseString(sdl); err != nil {
		panic(core.EngineError{Msg: "C05 schema rejected: " + err.Error()})
	}
	if strat == world.FS {
		for _, tn := range []string{"Query", "O"} {
			if err := root.RegisterType(&C05Obj{}, tn); err != nil {
				panic(core.EngineError{Msg: err.Error()})
			}
			for li := range c05Leaves {
				for w := 0; w < c05NWrap; w++ {
					if err := root.RegisterField(tn, fmt.Sprintf("r%d_%d", li, w), "V"); err != nil {
						panic(core.EngineError{Msg: err.Error()})
					}
				}
			}
		}
	}
	return root
}

// ---- oracle

// shapeOK: decoded JSON value d has the JSON shape of declared type t (or is null).
func shapeOK(t *world.T, d interface{}) string {
	if d == nil {
		return ""
	}
	switch t.K {
	case world.TNonNull:
		return shapeOK(t.Of, d)
	case world.TList:
		l, ok := d.([]interface{})
		if !ok {
			return fmt.Sprintf("list type, JSON has %T(%v)", d, d)
		}
		for i, e := range l {
			if s := shapeOK(t.Of, e); s != "" {
				return fmt.Sprintf("[%d]: %s", i, s)
			}
		}
		return ""
	}
	num := func() (float64, bool, string) {
		n, ok := d.(json.Number)
		if !ok {
			return 0, false, fmt.Sprintf("%s leaf, JSON has %T(%v)", t.Name, d, d)
		}
		f, err := n.Float64()
		if err != nil {
			return 0, false, err.Error()
		}
		return f, true, ""
	}
	switch t.Name {
	case "Int":
		f, ok, msg := num()
		if !ok {
			return msg
		}
		if f != math.Trunc(f) || f > math.MaxInt32 || f < math.MinInt32 || strings.ContainsAny(string(d.(json.Number)), ".eE") {
			return fmt.Sprintf("Int leaf is %v", d)
		}
	case "Int64":
		f, ok, msg := num()
		if !ok {
			return msg
		}
		if f != math.Trunc(f) {
			return fmt.Sprintf("Int64 leaf is %v", d)
		}
	case "Float", "Float64":
		if _, ok, msg := num(); !ok {
			return msg
		}
	case "String", "ID":
		if _, ok := d.(string); !ok {
			return fmt.Sprintf("%s leaf, JSON has %T(%v)", t.Name, d, d)
		}
	case "Boolean":
		if _, ok := d.(bool); !ok {
			return fmt.Sprintf("Boolean leaf, JSON has %T(%v)", d, d)
		}
	case "E":
		s, ok := d.(string)
		if !ok || (s != "RED" && s != "GREEN" && s != "BLUE") {
			return fmt.Sprintf("enum leaf is %v", d)
		}
	case "Time":
		s, ok := d.(string)
		if !ok {
			return fmt.Sprintf("Time leaf, JSON has %T", d)
		}
		if _, err := time.Parse(time.RFC3339Nano, s); err != nil {
			return "Time leaf does not parse as RFC 3339: " + s
		}
		// Go's parser is more lenient than RFC 3339 (a decimal comma, a one-digit hour, offsets beyond 23:59): the grammar itself
		if !c05RFC3339.MatchString(s) {
			return "Time leaf is not in the RFC 3339 grammar: " + s
		}
	}
	return ""
}

var c05RFC3339 = regexp.MustCompile(`^\d{4}-\d{2}-\d{2}[Tt]([01]\d|2[0-3]):[0-5]\d:([0-5]\d|60)(\.\d+)?([Zz]|[+-]([01]\d|2[0-3]):[0-5]\d)$`)

// unrepresentable: the Go value clearly cannot be represented in the named leaf type.
func unrepresentable(leaf string, v interface{}) bool {
	if v == nil || ggql.IsNil(v) {
		return false // a typed nil is a null value
	}
	if sv, ok := v.(string); ok {
		switch sv {
		case "NaN", "Inf", "-Infinity", "1e400":
			if leaf == "Int" || leaf == "Int64" || leaf == "Float" || leaf == "Float64" || leaf == "Boolean" || leaf == "E" || leaf == "Time" {
				return true
			}
		case "1e39":
			if leaf == "Int" || leaf == "Int64" || leaf == "Float" || leaf == "Boolean" || leaf == "E" || leaf == "Time" {
				return true
			}
		case "99999999999":
			if leaf == "Int" || leaf == "Boolean" || leaf == "E" || leaf == "Time" {
				return true
			}
		}
	}
	isWrongKind := func() bool {
		switch v.(type) {
		case c05Struct, *c05Struct, map[string]interface{}, []byte, []interface{}, []string, []int:
			return true
		}
		return false
	}
	asF := func() (float64, bool) {
		f, ok := world.Canon(v).(float64)
		return f, ok
	}
	switch leaf {
	case "Int":
		if isWrongKind() {
			return true
		}
		switch tv := v.(type) {
		case bool, time.Time:
			return true
		case string:
			return tv == "abc" || tv == "" || tv == "true" || tv == "PURPLE" || tv == "RED" || strings.Contains(tv, "\xff") || strings.Contains(tv, "T06") || tv == "1.5" || strings.Contains(tv, "\"")
		case ggql.Symbol:
			return true
		}
		if f, ok := asF(); ok {
			return math.IsNaN(f) || math.IsInf(f, 0) || f != math.Trunc(f) || f > math.MaxInt32 || f < math.MinInt32
		}
	case "Float", "Float64":
		if isWrongKind() {
			return true
		}
		switch tv := v.(type) {
		case bool, time.Time, ggql.Symbol:
			return true
		case string:
			return tv == "abc" || tv == "" || tv == "true" || tv == "PURPLE" || tv == "RED" || strings.Contains(tv, "\xff") || strings.Contains(tv, "T06") || strings.Contains(tv, "\"")
		}
		if f, ok := asF(); ok {
			return math.IsNaN(f) || math.IsInf(f, 0)
		}
	case "Boolean":
		if isWrongKind() {
			return true
		}
		switch tv := v.(type) {
		case string:
			return tv == "abc" || tv == "PURPLE" || tv == "RED" || tv == "1.5" || tv == "12" || tv == "" || strings.Contains(tv, "T06") || strings.Contains(tv, "\xff") || strings.Contains(tv, "\"")
		case time.Time:
			return true
		}
	case "E":
		if isWrongKind() {
			return true
		}
		switch tv := v.(type) {
		case string:
			return tv != "RED" && tv != "GREEN" && tv != "BLUE"
		case ggql.Symbol:
			return tv != "RED" && tv != "GREEN" && tv != "BLUE"
		default:
			return true
		}
	case "Time":
		if isWrongKind() {
			return true
		}
		switch tv := v.(type) {
		case string:
			_, err := time.Parse(time.RFC3339Nano, tv)
			return err != nil
		case bool, ggql.Symbol:
			return true
		}
	case "String", "ID":
		switch v.(type) {
		case c05Struct, *c05Struct, map[string]interface{}:
			return true
		}
	case "Int64":
		if isWrongKind() {
			return true
		}
		switch tv := v.(type) {
		case bool, time.Time, ggql.Symbol:
			return true
		case string:
			return tv == "abc" || tv == "" || tv == "true" || tv == "PURPLE" || tv == "RED" || strings.Contains(tv, "\xff") || strings.Contains(tv, "T06") || tv == "1.5" || strings.Contains(tv, "\"")
		}
		if f, ok := asF(); ok {
			return math.IsNaN(f) || math.IsInf(f, 0) || f != math.Trunc(f)
		}
	}
	return false
}

func goKindClass(v interface{}) string {
	switch tv := v.(type) {
	case nil:
		return "nil"
	case string:
		return "string"
	case bool:
		return "bool"
	case float32, float64:
		f, _ := world.Canon(v).(float64)
		if math.IsNaN(f) || math.IsInf(f, 0) {
			return "float-nonfinite"
		}
		return "float"
	case int, int8, int16, int32, int64, uint, uint8, uint16, uint32, uint64:
		return "integer"
	case ggql.Symbol:
		return "symbol"
	case time.Time:
		return "time"
	case []interface{}:
		if len(tv) == 1 {
			return "[]interface{}:" + goKindClass(tv[0])
		}
		return "[]interface{}"
	}
	return fmt.Sprintf("%T", v)
}

func runC05(c *core.Ctx) {
	ggql.Sort = true
	defer func() { ggql.Sort = false }()
	sdl := c05SDL()
	strats := []world.Strategy{world.RS, world.AS, world.FS}
	positions := []string{"root", "nested", "list-element"}
	var idx int64
	for li, leaf := range c05Leaves {
		for w := 0; w < c05NWrap; w++ {
			t := c05Wrap(leaf, w)
			field := fmt.Sprintf("r%d_%d", li, w)
			var vals []c05Val
			switch {
			case w <= 1:
				vals = append(c05Scalars(), c05Val{"[]interface{}{1}", []interface{}{1}}, c05Val{"[]string{a}", []string{"a"}}, c05Val{"[]int{1}", []int{1}})
			case w <= 3:
				vals = c05Lists(1)
			default:
				vals = c05Lists(2)
			}
			for _, val := range vals {
				for pi, pos := range positions {
					for _, st := range strats {
						idx++
						if !c.OwnsIdx(idx) {
							continue
						}
						q := "{ " + field + " }"
						path := []interface{}{field}
						switch pi {
						case 1:
							q = "{ o { " + field + " } }"
							path = []interface{}{"o", field}
						case 2:
							q = "{ os { " + field + " } }"
							path = []interface{}{"os", 1, field}
						}
						if goKindClass(val.V) != strings.ToLower(leaf) {
							c.Nontrivial()
						}
						c.Eval()
						c05One(c, c05Root(st, sdl, val.V), t, leaf, w, q, path, val, pos, st)
					}
				}
			}
		}
	}
	// ---- the enum leaf under ggql.Relaxed = true (the package switch that lets strings stand for enum values on the way IN):
	// on the way out a leaf is still the name of a declared value or null with an error - the scalar menu and Go values
	// that print themselves (fmt.Stringer: a weekday, a time, a value that prints a member name)
	for li, leaf := range c05Leaves {
		if leaf != "E" {
			continue
		}
		stringers := []c05Val{{"time.Saturday", time.Saturday}, {"time.Weekday(9)", time.Weekday(9)}, {"time.Time", time.Date(2021, 3, 4, 5, 6, 7, 0, time.UTC)},
			{"Stringer(RED)", c05Stringer("RED")}, {"Stringer(PURPLE)", c05Stringer("PURPLE")}, {"*Stringer(nil)", (*c05Stringer)(nil)},
			{"[]interface{}{RED, time.Saturday}", []interface{}{"RED", time.Saturday}}, {"[]interface{}{Stringer(PURPLE)}", []interface{}{c05Stringer("PURPLE")}}}
		for _, w := range []int{0, 1, 2, 3} {
			vals := append(append([]c05Val{}, c05Scalars()...), stringers...)
			for _, val := range vals {
				for pi, pos := range positions {
					for _, st := range strats {
						for _, relaxed := range []bool{true, false} {
							idx++
							if !c.OwnsIdx(idx) {
								continue
							}
							field := fmt.Sprintf("r%d_%d", li, w)
							q, path := "{ "+field+" }", []interface{}{field}
							switch pi {
							case 1:
								q, path = "{ o { "+field+" } }", []interface{}{"o", field}
							case 2:
								q, path = "{ os { "+field+" } }", []interface{}{"os", 1, field}
							}
							c.Nontrivial()
							c.Eval()
							func() {
								ggql.Relaxed = relaxed
								defer func() { ggql.Relaxed = false }()
								c05One(c, c05Root(st, sdl, val.V), c05Wrap(leaf, w), leaf, w, q, path, val, pos+map[bool]string{true: ", ggql.Relaxed = true", false: ""}[relaxed], st)
							}()
						}
					}
				}
			}
		}
	}
	// ---- two list fields of DIFFERENT leaf types answered from one Go slice (every back end hands out the same value for
	// every field): each list must be coerced into a list of its own, the two answers may not share anything
	shared := []c05Val{{"[]interface{}{1,2}", []interface{}{1, 2}}, {"[]interface{}{12,7 as strings}", []interface{}{"12", "7"}}, {"[]interface{}{true,false}", []interface{}{true, false}},
		{"[]interface{}{1.0,2.5}", []interface{}{1.0, 2.5}}, {"[]interface{}{RED}", []interface{}{"RED"}}, {"[]interface{}{rfc3339}", []interface{}{"2020-04-05T06:07:08Z"}}}
	for li, la := range c05Leaves {
		for lj, lb := range c05Leaves {
			if li == lj {
				continue
			}
			for _, w := range []int{2, 3} {
				for _, mk := range shared {
					for _, st := range strats {
						idx++
						if !c.OwnsIdx(idx) {
							continue
						}
						c.Nontrivial()
						// a fresh slice per case: the library may not change it, but if it does the next case must not inherit that
						val := c05Val{mk.Name, append([]interface{}{}, mk.V.([]interface{})...)}
						q := fmt.Sprintf("{ r%d_%d r%d_%d }", li, w, lj, w)
						root := c05Root(st, sdl, val.V)
						c.Eval()
						c05One(c, root, c05Wrap(la, w), la, w, q, []interface{}{fmt.Sprintf("r%d_%d", li, w)}, val, "root, beside a "+lb+" list of the same Go slice", st)
						root = c05Root(st, sdl, val.V)
						c.Eval()
						c05One(c, root, c05Wrap(lb, w), lb, w, q, []interface{}{fmt.Sprintf("r%d_%d", lj, w)}, val, "root, after a "+la+" list of the same Go slice", st)
					}
				}
			}
		}
	}
	// ---- leaf types met by a LATER load: the first load declares the extra scalars again ("scalar Time" in SDL is common), a
	// second load adds fields of every leaf type; the scalar menu at those fields
	late := "extend type Query {\n"
	for li, l := range c05Leaves {
		late += fmt.Sprintf("  late%d_0: %s\n  late%d_2: [%s]\n", li, l, li, l)
	}
	late += "}\n"
	for li, leaf := range c05Leaves {
		for _, w := range []int{0, 2} {
			vals := c05Scalars()
			if w == 2 {
				vals = c05Lists(1)
			}
			for _, val := range vals {
				for _, st := range strats {
					idx++
					if !c.OwnsIdx(idx) {
						continue
					}
					c.Nontrivial()
					c.Eval()
					root := c05Root(st, "scalar Time\nscalar Int64\nscalar Float64\n"+sdl, val.V)
					if err := root.ParseString(late); err != nil {
						panic(core.EngineError{Msg: "C05 later load refused: " + err.Error()})
					}
					field := fmt.Sprintf("late%d_%d", li, w)
					if st == world.FS {
						if err := root.RegisterField("Query", field, "V"); err != nil {
							panic(core.EngineError{Msg: err.Error()})
						}
					}
					c05One(c, root, c05Wrap(leaf, w), leaf, w, "{ "+field+" }", []interface{}{field}, val, "root, field of a later load", st)
				}
			}
		}
	}
	// ---- the resolver hands back its value TOGETHER with an error (Resolver and AnyResolver back ends): what the data holds at
	// that position is then not stated beyond this property - a value of the declared type, or null
	for li, leaf := range c05Leaves {
		for _, w := range []int{0, 2} {
			vals := c05Scalars()
			if w == 2 {
				vals = c05Lists(1)
			}
			for _, val := range vals {
				for _, st := range []world.Strategy{world.RS, world.AS} {
					idx++
					if !c.OwnsIdx(idx) {
						continue
					}
					c.Nontrivial()
					c.Eval()
					field := fmt.Sprintf("r%d_%d", li, w)
					c05One(c, c05RootE(st, sdl, val.V, true), c05Wrap(leaf, w), leaf, w, "{ o { "+field+" } }", []interface{}{"o", field}, val, "nested, beside an error of the same resolver", st)
				}
			}
		}
	}
	// ---- the position selected through a response key that an earlier selection has used already (the two selections merge): the
	// later one asks for the leaf, the earlier one for another field - under an object, and under the elements of a list
	for li, leaf := range c05Leaves {
		for _, val := range c05Scalars() {
			for pi, pos := range []string{"nested, key selected twice", "list-element, key selected twice"} {
				for _, st := range strats {
					idx++
					if !c.OwnsIdx(idx) {
						continue
					}
					c.Nontrivial()
					c.Eval()
					field := fmt.Sprintf("r%d_0", li)
					other := fmt.Sprintf("r%d_0", (li+2)%len(c05Leaves))
					q, path := "{ o { "+other+" } o { "+field+" } }", []interface{}{"o", field}
					if pi == 1 {
						q, path = "{ os { "+other+" } ... { os { "+field+" } } }", []interface{}{"os", 1, field}
					}
					c05One(c, c05Root(st, sdl, val.V), c05Wrap(leaf, 0), leaf, 0, q, path, val, pos, st)
				}
			}
		}
	}
	// ---- requests nested as deep as the library's depth limit (MaxResolveDepth) and beyond: whatever the library does there
	// (stop, complain), a value that is not of the declared type may not appear, and nothing disappears without an error
	for _, d := range []int{ggql.MaxResolveDepth - 4, ggql.MaxResolveDepth - 3, ggql.MaxResolveDepth - 2, ggql.MaxResolveDepth - 1, ggql.MaxResolveDepth, ggql.MaxResolveDepth + 1, ggql.MaxResolveDepth + 5} {
		for li, leaf := range c05Leaves {
			for _, w := range []int{0, 2} {
				for _, val := range []c05Val{{"string(abc)", "abc"}, {"struct", c05Struct{1}}, {"[]interface{}{abc}", []interface{}{"abc"}}, {"int(1)", 1}} {
					for _, st := range strats {
						idx++
						if !c.OwnsIdx(idx) {
							continue
						}
						c.Nontrivial()
						c.Eval()
						field := fmt.Sprintf("r%d_%d", li, w)
						q := "{ " + strings.Repeat("o { ", d) + field + strings.Repeat(" }", d) + " }"
						path := []interface{}{}
						for i := 0; i < d; i++ {
							path = append(path, "o")
						}
						path = append(path, field)
						c05One(c, c05Root(st, sdl, val.V), c05Wrap(leaf, w), leaf, w, q, path, val, fmt.Sprintf("nested %d deep (limit %d)", d, ggql.MaxResolveDepth), st)
					}
				}
			}
		}
	}
	c.R.Bound = "complete product (9 leaves x 5 wrappers x value menu x 3 positions x 3 strategies); all ordered pairs of leaf types x 2 list wrappers x 6 shared Go slices; 9 leaves x {T, [T]} x value menu on fields added by a later load after the extra scalars were declared again; 7 nesting depths around MaxResolveDepth x 9 leaves x {T, [T]} x 4 values"
}

// c05One resolves q on root and checks the value at path against the declared type t: JSON shape, and null + error for a
// value the type cannot represent.
func c05One(c *core.Ctx, root *ggql.Root, t *world.T, leaf string, w int, q string, path []interface{}, val c05Val, pos string, st world.Strategy) {
	var res map[string]interface{}
	pinfo := core.Safe(func() { res = root.ResolveString(q, "", nil) })
	detail := map[string]interface{}{"declared": t.String(), "go_value": val.Name, "position": pos, "strategy": st.String(), "query": q}
	attrs := map[string]string{"leaf": leaf, "wrapper": fmt.Sprint(w), "go": goKindClass(val.V), "strategy": st.String()}
	if pinfo != nil {
		detail["panic"] = pinfo.Value
		c.Outcome("panic")
		c.Violation("panic", map[string]string{"site": pinfo.Site, "class": pinfo.Class, "leaf": leaf}, detail)
		return
	}
	var buf bytes.Buffer
	if err := ggql.WriteJSONValue(&buf, res, -1); err != nil {
		detail["diff"] = err.Error()
		c.Violation("invalid-json", attrs, detail)
		return
	}
	detail["response_json"] = buf.String()
	dec := json.NewDecoder(bytes.NewReader(buf.Bytes()))
	dec.UseNumber()
	var dv interface{}
	if err := dec.Decode(&dv); err != nil {
		detail["diff"] = "response is not valid JSON: " + err.Error()
		c.Outcome("invalid-json")
		c.Violation("invalid-json", attrs, detail)
		return
	}
	// walk to the position
	cur := dv.(map[string]interface{})["data"]
	okWalk := true
	for _, seg := range path {
		switch ts := seg.(type) {
		case string:
			m, ok := cur.(map[string]interface{})
			if !ok {
				okWalk = false
			} else {
				cur = m[ts]
			}
		case int:
			l, ok := cur.([]interface{})
			if !ok || ts >= len(l) {
				okWalk = false
			} else {
				cur = l[ts]
			}
		}
		if !okWalk {
			break
		}
	}
	if !okWalk {
		// data missing altogether (e.g. whole request failed): nothing leaked
		c.Outcome("no-data-at-position")
		return
	}
	if s := shapeOK(t, cur); s != "" {
		if strings.Contains(s, "enum leaf is") {
			attrs["what"] = "enum-non-member-string"
		}
		detail["diff"] = s
		c.Outcome("leaf-shape")
		c.Violation("leaf-shape", attrs, detail)
		return
	}
	// clearly unrepresentable => null + error with that path (scalars in scalar positions, elements of one-element lists)
	target, tv := cur, val.V
	tt := t
	mustNullPath := world.PathString(path)
	applicable := true
	for tt.K != world.TNamed {
		if tt.K == world.TNonNull {
			tt = tt.Of
			return
		}
		l, isL := tv.([]interface{})
		if !isL || len(l) != 1 {
			applicable = false
			break
		}
		tv = l[0]
		tt = tt.Of
		if dl, ok := target.([]interface{}); ok && len(dl) == 1 {
			target = dl[0]
		} else if target != nil {
			applicable = false
			break
		}
	}
	if applicable && unrepresentable(leaf, tv) {
		c.Count("expect_unrepresentable")
		if target != nil {
			if f, isF := world.Canon(tv).(float64); isF && (leaf == "Int" || leaf == "Int64") && !math.IsNaN(f) && !math.IsInf(f, 0) {
				if n, isN := target.(json.Number); isN && n.String() == fmt.Sprintf("%d", int64(f)) {
					attrs["what"] = "fraction-truncated"
				}
			}
			detail["diff"] = fmt.Sprintf("unrepresentable value leaked as %v", target)
			c.Outcome("leaked")
			c.Violation("leaf-shape", attrs, detail)
			return
		}
		found := false
		if es, ok := res["errors"].([]interface{}); ok {
			for _, e := range es {
				if em, ok := e.(map[string]interface{}); ok {
					p, _ := em["path"].([]interface{})
					if strings.HasPrefix(world.PathString(p), mustNullPath) {
						found = true
					}
				}
			}
		}
		if !found {
			detail["diff"] = "unrepresentable value became null without an error for " + mustNullPath
			c.Outcome("missing-error")
			c.Violation("missing-error", attrs, detail)
			return
		}
		c.Outcome("null+error")
		return
	}
	c.Outcome("well-typed")
	c.Sample(func() interface{} { return detail })
}

// c05Stringer prints itself: a Go value of an application's own enum type.
type c05Stringer string

func (x c05Stringer) String() string { return string(x) }
