//go:build vsched

package props

import (
	"github.com/uhn/ggql/pkg/ggql"

	"fmt"
	"strings"
	"time"

	"verif/mc/core"
	"verif/mc/sched"
	"verif/mc/world"
)

// C12 — concurrent requests on one root are mutually isolated (DESIGN 5.12): every interleaving, up to a
// preemption bound, of 2-3 real goroutines resolving requests against ONE cold root, under the controlled
// scheduler. The data-race conjunct is decided by the separate free-running -race pass (racePass).

func init() {
	Register(&Check{
		ID:  "C12",
		Run: runC12,
		Rule: "threads = all unordered pairs (with repetition) and selected triples of requests from a menu {introspection __schema, __type with fields, reflected struct fields, reflected methods with arguments, interface-typed field with __typename, " +
			"union list with fragments, named fragment, variables, @skip/@include, mutation} against one cold root built fresh per execution, for reflection (by-name binding, @go directive, RegisterType), Resolver objects and an installed root resolver; " +
			"every schedule with <= P preemptions (choice point = every Lock of Object.mu / FieldDef.mu / subLock, before acquisition). Oracle: each thread's canonical response equals the response of the same request alone on a fresh cold root; no deadlock; " +
			"every instrumented field / package-variable access of pkg/ggql is checked on every schedule for a happens-before order (vector clocks over the mutex edges): an unordered conflicting pair is a data race; " +
			"plus (same command) a free-running pass of the same bodies under the Go race detector. distinct = schedules executed; non-trivial = schedules with a preemption or a contended acquisition",
		Technique:      "stateless model checking of the real implementation (preemption-bounded exhaustive interleaving enumeration under a cooperative scheduler over a sync shim, vector-clock happens-before race checking of every instrumented memory access on every schedule) + free-running race-detector pass as a complement",
		Assumptions:    []string{"Lock-only choice points are sufficient given data-race freedom, which is checked on every explored schedule (instrumented accesses) and by the free-running race pass (sampling, labelled as such)", "2 and 3 goroutines; larger N only in the race pass"},
		QuickBudget:    150 * time.Second,
		ThoroughBudget: 25 * time.Minute,
	})
}

type c12Req struct {
	Name     string
	Text     string
	Op       string
	Vars     map[string]interface{}
	Abstract bool // needs type binding (reflection only)
}

func c12Menu() []c12Req {
	return []c12Req{
		{Name: "introspect-schema", Text: `{__schema{types{name kind} queryType{name}}}`},
		{Name: "introspect-type", Text: `{__type(name:"A"){name fields{name type{name}} interfaces{name}}}`},
		{Name: "struct-fields", Text: `{a{id i kid{id s} peers{id}} i s}`},
		{Name: "methods", Text: `{echo(s:"x", b:true) a{mi mkid{id} echo(b:false, s:"y")} mkids{id}}`},
		{Name: "interface-field", Text: `{named{name i} nameds{name kid{id}}}`},
		{Name: "interface-typename", Text: `{named{__typename name ... on B{s}} a{named{__typename}}}`, Abstract: true},
		{Name: "union-list", Text: `{us{__typename ... on A{id} ... on B{s}} u{... on A{id}}}`, Abstract: true},
		{Name: "named-fragment", Text: "{a{...FA} kids{...FA}}\nfragment FA on A{id kid{id}}"},
		{Name: "variables", Text: `query V($s: String = "d", $b: Boolean = true){echo(s:$s, b:$b) a @include(if:$b){id}}`, Op: "V", Vars: map[string]interface{}{"s": "w"}},
		{Name: "skip-include", Text: `{a @skip(if:false){id kid @include(if:true){id}} i @include(if:true) s @skip(if:true)}`},
		{Name: "mutation", Text: `mutation M{set(s:"v") a{id}}`, Op: "M"},
		// a field the reflection structs have nothing for: the lazy binding fails (and must fail again, not block, the next time)
		{Name: "input-arguments", Text: `{pick(i: 1, e: RED, in: {min: 1, sub: {min: 2}}, ids: ["a"], m: [[1]]) a{pick(in: {min: 3})}}`},
		// the resolvers of two requests wait for each other: nothing the library holds while it calls a resolver may keep the other out
		{Name: "rendezvous", Text: `{meet a{id}}`},
		{Name: "unbound-field", Text: `{a{ghost id} b{ghost}}`, Abstract: true},
		{Name: "unbound-field-in-list", Text: `{as{id ghost} ghost}`, Abstract: true},
		// default values are printed on the request path (introspection)
		{Name: "introspect-members", Text: `{__type(name:"AB"){possibleTypes{name}} n: __type(name:"Named"){possibleTypes{name}} a: __type(name:"A"){interfaces{name}}}`},
		{Name: "introspect-defaults", Text: `{__type(name:"Filter"){inputFields{name defaultValue}} q: __type(name:"Query"){fields{name args{name defaultValue}}} __schema{directives{name args{defaultValue}}}}`},
	}
}

type c12Cfg struct {
	Name string
	Cfg  func(s *world.Schema) world.Config
	God  int
	Post func(root *ggql.Root) // applied to every freshly built root before any request
}

// c12AddSubscription adds an operation root type through the Go API after the SDL load (the implied schema was made up
// without it): anything that completes the schema lazily would do so on the request path, for the first requests at once.
func c12AddSubscription(root *ggql.Root) {
	o := &ggql.Object{Base: ggql.Base{N: "Subscription"}}
	_ = o.AddField(&ggql.FieldDef{Base: ggql.Base{N: "ev"}, Type: &ggql.Ref{Base: ggql.Base{N: "Int"}}})
	if err := root.AddTypes(o); err != nil {
		panic(core.EngineError{Msg: "C12: AddTypes(Subscription) refused: " + err.Error()})
	}
}

// c12RefusedLoad: the last thing the root did before the requests was to refuse a load at validation (an object that does not
// satisfy the interface it claims): whatever mode loading puts the root in must be over when it returns.
func c12RefusedLoad(root *ggql.Root) {
	if err := root.ParseString("type Bad7 implements Named { zz: Int }\ndirective @bad7(n: Int = 1) on OBJECT\n"); err == nil {
		panic(core.EngineError{Msg: "C12: the load meant to be refused was accepted"})
	}
}

func c12Cfgs() []c12Cfg {
	return []c12Cfg{
		{"FS/byname-cold", func(s *world.Schema) world.Config { return world.Config{Strat: world.FS, Bind: world.BindByName, Schema: s} }, 0, nil},
		{"FS/go-directive", func(s *world.Schema) world.Config { return world.Config{Strat: world.FS, Bind: world.BindGoDir, Schema: s} }, 2, nil},
		{"FS/registered", func(s *world.Schema) world.Config { return world.Config{Strat: world.FS, Bind: world.BindRegister, Schema: s} }, 0, nil},
		// B.name is served by a registered METHOD, A.name by the struct field: two implementers of Named bound differently
		{"FS/registered-fields", func(s *world.Schema) world.Config { return world.Config{Strat: world.FS, Bind: world.BindRegisterFields, Schema: s} }, 0, nil},
		{"RS", func(s *world.Schema) world.Config { return world.Config{Strat: world.RS, Schema: s} }, 0, nil},
		{"AS", func(s *world.Schema) world.Config { return world.Config{Strat: world.AS, Schema: s} }, 0, nil},
		// the union's members written in reverse alphabetical order (whoever sorts them must sort a copy)
		{"FS/registered/reversed-union", func(s *world.Schema) world.Config { return world.Config{Strat: world.FS, Bind: world.BindRegister, Schema: s} }, 0, nil},
		{"RS/root-type-added-by-AddTypes", func(s *world.Schema) world.Config { return world.Config{Strat: world.RS, Schema: s} }, 0, c12AddSubscription},
		{"RS/after-a-refused-load", func(s *world.Schema) world.Config { return world.Config{Strat: world.RS, Schema: s} }, 0, c12RefusedLoad},
	}
}

func runC12(c *core.Ctx) {
	bound := 2
	if c.Thorough() {
		bound = 3
	}
	menu := c12Menu()
	g0 := world.BaseGraph(0)
	// one implementer of Named at a time, the field selected on the interface itself: a path from the root to a "named" value
	// of type A, and one to a value of type B (whatever the base graph offers)
	for _, want := range []string{"A", "B"} {
	search:
		for _, f1 := range []string{"a", "b", "c"} {
			n1, _ := g0.Root.F[f1].(*world.Node)
			if n1 == nil {
				continue
			}
			for _, f2 := range []string{"named", "mnamed", "buddy"} {
				if f2 == "buddy" && n1.Type != "C" {
					continue
				}
				if n2, _ := n1.F[f2].(*world.Node); n2 != nil && n2.Type == want {
					menu = append(menu, c12Req{Name: "interface-field-on-" + want, Text: "{" + f1 + "{" + f2 + "{nick name}}}"})
					break search
				}
			}
		}
	}
	type scenario struct {
		cfg  c12Cfg
		reqs []c12Req
	}
	var scenarios []scenario
	for _, cf := range c12Cfgs() {
		fs := strings.HasPrefix(cf.Name, "FS")
		var usable []c12Req
		for _, r := range menu {
			if r.Abstract && !fs {
				continue
			}
			usable = append(usable, r)
		}
		for i := range usable {
			for j := i; j < len(usable); j++ {
				scenarios = append(scenarios, scenario{cf, []c12Req{usable[i], usable[j]}})
			}
		}
		// triples: the first-use windows involve the binding of A, B and the methods: combine the three most binding-heavy requests with each other
		heavy := []int{2, 3, 4}
		if fs {
			heavy = []int{2, 3, 5, 6}
		}
		for a := 0; a < len(heavy); a++ {
			for b := a; b < len(heavy); b++ {
				for d := b; d < len(heavy); d++ {
					pick := func(i int) c12Req { return menu[heavy[i]] }
					scenarios = append(scenarios, scenario{cf, []c12Req{pick(a), pick(b), pick(d)}})
				}
			}
		}
	}
	completed := true
	mem := memTrackOn(c)
	for si, sc := range scenarios {
		if !c.OwnsIdx(int64(si)) {
			continue
		}
		c.R.Distinct--
		if c.Expired() {
			completed = false
			break
		}
		s := world.Universe(world.UniverseOpts{GoDir: sc.cfg.God, ReverseMembers: strings.Contains(sc.cfg.Name, "reversed-union")})
		g := g0
		cfg := sc.cfg.Cfg(s)
		if cfg.Strat == world.FS {
			g = g0.FSView(s)
		}
		// baseline: each request alone on a fresh cold root - as the only thread of the scheduler, so that a request
		// that blocks itself (a mutex left locked on some path) is a deadlock observation and not a hung worker
		alone := make([]string, len(sc.reqs))
		selfBlocked := false
		for i, rq := range sc.reqs {
			root, run, err := world.BuildRoot(cfg, g)
			if err != nil {
				panic(core.EngineError{Msg: err.Error()})
			}
			if sc.cfg.Post != nil {
				sc.cfg.Post(root)
			}
			var o *world.Obs
			rq := rq
			run.OnMeet = nil // alone: nobody to wait for
			res := sched.Run(&core.Chooser{}, false, func(*sched.Sched) { o = world.Observe(root, run, rq.Text, rq.Op, rq.Vars) })
			if res.Deadlock {
				c.Outcome("deadlock")
				c.Violation("deadlock", map[string]string{"config": sc.cfg.Name, "alone": "true"}, map[string]interface{}{"scenario": sc.cfg.Name + " | " + rq.Name + " alone", "request": rq.Text, "diff": "the request blocks itself: it waits for a mutex that nobody will release"})
				selfBlocked = true
				break
			}
			alone[i] = obsKey(o)
		}
		if selfBlocked {
			continue
		}
		names := make([]string, len(sc.reqs))
		for i, r := range sc.reqs {
			names[i] = r.Name
		}
		scName := sc.cfg.Name + " | " + strings.Join(names, " || ")
		b := bound
		if len(sc.reqs) == 3 && !c.Thorough() {
			b = 1
		}
		ex := &core.Explorer{Bound: b, MaxRun: 300000, Stop: c.Expired}
		var nsched int64
		outcomes := map[string]bool{}
		ex.Explore(func(ch *core.Chooser) {
			nsched++
			c.Eval()
			c.R.Distinct++
			core.Announce("C12 scenario " + scName)
			root, run, err := world.BuildRoot(cfg, g)
			if err != nil {
				panic(core.EngineError{Msg: err.Error()})
			}
			if sc.cfg.Post != nil {
				sc.cfg.Post(root)
			}
			got := make([]*world.Obs, len(sc.reqs))
			expected, arrived := 0, 0
			for _, rq := range sc.reqs {
				if strings.Contains(rq.Text, "meet") {
					expected++
				}
			}
			var theSched *sched.Sched
			run.OnMeet = func() {
				arrived++
				if theSched != nil {
					theSched.Await(func() bool { return arrived >= expected })
				}
			}
			bodies := make([]func(*sched.Sched), len(sc.reqs))
			for ti := range sc.reqs {
				ti := ti
				bodies[ti] = func(s *sched.Sched) {
					theSched = s
					rq := sc.reqs[ti]
					got[ti] = world.Observe(root, run, rq.Text, rq.Op, rq.Vars)
				}
			}
			res := sched.Run(ch, false, bodies...)
			if res.Contended > 0 || res.Preemptions > 0 {
				c.Nontrivial()
			}
			c.CountN("contended_acquisitions", int64(res.Contended))
			detail := func(msg string, ti int) map[string]interface{} {
				d := map[string]interface{}{"scenario": scName, "schedule": res.Schedule, "choices": ch.Trace, "diff": msg, "preemptions": res.Preemptions}
				if ti >= 0 {
					d["request"] = sc.reqs[ti].Text
					d["alone"] = alone[ti]
					d["concurrent"] = obsKey(got[ti])
				}
				return d
			}
			if mem {
				reportRaces(c, res, map[string]string{"config": sc.cfg.Name}, func() map[string]interface{} { return detail("data race", -1) })
			}
			if len(res.Panics) > 0 {
				for _, p := range res.Panics {
					if strings.HasPrefix(p, "ENGINE: ") {
						panic(core.EngineError{Msg: p})
					}
					c.Violation("panic", map[string]string{"class": classifyPanic(p), "config": sc.cfg.Name}, detail(p, -1))
				}
				return
			}
			if res.Deadlock {
				c.Outcome("deadlock")
				c.Violation("deadlock", map[string]string{"config": sc.cfg.Name}, detail(fmt.Sprintf("threads %v blocked forever", res.Blocked), -1))
				return
			}
			if res.Horizon {
				c.Cap("step horizon reached in " + scName)
				return
			}
			key := ""
			for ti := range sc.reqs {
				k := obsKey(got[ti])
				key += k + "#"
				if k != alone[ti] {
					c.Outcome("schedule-diff")
					c.Violation("schedule-diff", map[string]string{"config": sc.cfg.Name, "request": sc.reqs[ti].Name}, detail("response differs from the response of the same request alone on a cold root", ti))
					return
				}
			}
			outcomes[key] = true
			c.Outcome("isolated")
		})
		if ex.Capped {
			c.Cap(fmt.Sprintf("scenario %q capped at %d schedules (bound %d)", scName, nsched, b))
		}
		c.Sample(func() interface{} { return map[string]interface{}{"scenario": scName, "schedules": nsched, "preemption_bound": b} })
	}
	nB := c12InputDefaults(c, mem, bound)
	if c.Shard == 0 {
		racePass(c, "c12")
	}
	c.R.Bound = fmt.Sprintf("%d scenarios + %d input-default scenarios (pairs at preemption bound %d, triples at %d); Lock-only choice points; happens-before race check on every schedule; + free-running race pass", len(scenarios), nB, bound, map[bool]int{true: bound, false: 1}[c.Thorough()])
	if !completed {
		c.Cap("deadline reached")
	}
}

// ---- Part B: input objects whose defaults are objects themselves. The default literals belong to the loaded schema and are
// shared by every request; coercion fills defaults in place. All pairs (with repetition) of requests that leave such fields
// out - as a literal, through a variable value, through a variable default, inside a list - and of introspection requests that
// print the defaults, on one root. Oracle as above (response alone == response concurrently, no race on any schedule), and the
// printed schema after the schedule equals the printed schema before it.

type c12Echo struct{}

func (c12Echo) Resolve(f *ggql.Field, args map[string]interface{}) (interface{}, error) {
	if f.Name == "query" {
		return c12Echo{}, nil
	}
	return string(toJSON(world.Canon(map[string]interface{}(args)))), nil
}

const c12InputSDL = "input Size { w: Int = 3 h: Int = 1 }\n" +
	"input Box { name: String size: Size = {w: 5} sizes: [Size] = [{w: 1}, {}] inner: Box }\n" +
	"directive @boxed(b: Box = {name: \"d\"}) on FIELD\n" +
	"type Query { put(box: Box, boxes: [Box], plain: Size = {w: 9}): String }\n"

func c12InputDefaults(c *core.Ctx, mem bool, bound int) int {
	menu := []c12Req{
		{Name: "literal-omits-nested", Text: `{ put(box: {name: "a"}) }`},
		{Name: "literal-nested-omits-nested", Text: `{ put(box: {name: "a", inner: {name: "b"}}, boxes: [{name: "c"}]) }`},
		{Name: "variable-value", Text: `query Q($b: Box) { put(box: $b) }`, Op: "Q", Vars: map[string]interface{}{"b": map[string]interface{}{"name": "v"}}},
		{Name: "variable-default", Text: `query Q($b: Box = {name: "d"}, $l: [Box] = [{}]) { put(box: $b, boxes: $l) }`, Op: "Q"},
		{Name: "argument-default", Text: `{ put }`},
		{Name: "directive-default", Text: `{ put(box: {}) @boxed }`},
		{Name: "introspect-defaults", Text: `{ __type(name: "Box") { inputFields { name defaultValue } } q: __type(name: "Query") { fields { args { name defaultValue } } } }`},
	}
	n := 0
	for i := range menu {
		for j := i; j < len(menu); j++ {
			n++
			if !c.OwnsIdx(int64(1000 + n)) {
				continue
			}
			if c.Expired() {
				c.Cap("deadline reached")
				return n
			}
			reqs := []c12Req{menu[i], menu[j]}
			scName := "input-defaults | " + reqs[0].Name + " || " + reqs[1].Name
			build := func() *ggql.Root {
				root := ggql.NewRoot(c12Echo{})
				if err := root.ParseString(c12InputSDL); err != nil {
					panic(core.EngineError{Msg: "C12 input-default schema refused: " + err.Error()})
				}
				return root
			}
			key := func(res map[string]interface{}) string { return string(toJSON(world.Canon(res))) }
			alone := make([]string, 2)
			for ti, rq := range reqs {
				alone[ti] = key(build().ResolveString(rq.Text, rq.Op, rq.Vars))
			}
			printed := func(root *ggql.Root) string { // object literals in key order
				ggql.Sort = true
				defer func() { ggql.Sort = false }()
				return root.SDL(false, true)
			}
			sdl0 := printed(build())
			ex := &core.Explorer{Bound: bound, MaxRun: 300000, Stop: c.Expired}
			ex.Explore(func(ch *core.Chooser) {
				c.Eval()
				c.R.Distinct++
				core.Announce("C12 scenario " + scName)
				root := build()
				got := make([]string, 2)
				bodies := make([]func(*sched.Sched), 2)
				for ti := range reqs {
					ti := ti
					bodies[ti] = func(*sched.Sched) {
						rq := reqs[ti]
						got[ti] = key(root.ResolveString(rq.Text, rq.Op, deepCopyVars(rq.Vars)))
					}
				}
				res := sched.Run(ch, false, bodies...)
				detail := func(msg string, ti int) map[string]interface{} {
					d := map[string]interface{}{"scenario": scName, "sdl": c12InputSDL, "schedule": res.Schedule, "choices": ch.Trace, "diff": msg}
					if ti >= 0 {
						d["request"], d["alone"], d["concurrent"] = reqs[ti].Text, alone[ti], got[ti]
					}
					return d
				}
				if mem {
					reportRaces(c, res, map[string]string{"config": "input-defaults"}, func() map[string]interface{} { return detail("data race", -1) })
				}
				for _, p := range res.Panics {
					if strings.HasPrefix(p, "ENGINE: ") {
						panic(core.EngineError{Msg: p})
					}
					c.Violation("panic", map[string]string{"class": classifyPanic(p), "config": "input-defaults"}, detail(p, -1))
				}
				if len(res.Panics) > 0 {
					return
				}
				if res.Deadlock {
					c.Violation("deadlock", map[string]string{"config": "input-defaults"}, detail(fmt.Sprintf("threads %v blocked forever", res.Blocked), -1))
					return
				}
				for ti := range reqs {
					if got[ti] != alone[ti] {
						c.Outcome("schedule-diff")
						c.Violation("schedule-diff", map[string]string{"config": "input-defaults", "request": reqs[ti].Name}, detail("response differs from the response of the same request alone on a cold root", ti))
						return
					}
				}
				if sdl1 := printed(root); sdl1 != sdl0 {
					c.Outcome("schema-changed-by-requests")
					c.Violation("schema-changed", map[string]string{"config": "input-defaults"}, detail("requests changed the printed schema: "+firstLineDiff(sdl0, sdl1), -1))
					return
				}
				c.Outcome("isolated")
			})
		}
	}
	return n
}
