package props

import (
	"fmt"
	"sort"
	"strings"
	"time"

	"github.com/uhn/ggql/pkg/ggql"

	"verif/mc/core"
	"verif/mc/world"
)

// C10 — undefined fields, arguments, directives or types are rejected, never resolved (DESIGN 5.10).

func init() {
	Register(&Check{
		ID:  "C10",
		Run: runC10,
		Rule: "valid documents (bases, thorough: + 1 mutation) x exactly one injected defect {undefined field; undeclared argument alone / beside declared ones / replacing a declared one; omitted required argument; " +
			"unknown directive; misplaced directive; undefined type condition inline / named} at every selection-set site (object, interface-typed, union-member, query and mutation root containers) x strategy configurations; " +
			"oracle: an error is reported (naming the undefined field/argument), the defective selection's resolver is not invoked with it, and unless the document is rejected every sibling equals the defect-free reference. " +
			"distinct = (document, site, defect); non-trivial = site below the root or inside a fragment",
		Technique:      "exhaustive single-defect injection at every site of bounded valid requests, executed on the real resolver against a reference executor",
		Assumptions:    []string{"defective selections carry the alias dfx so their response key is unambiguous"},
		QuickBudget:    200 * time.Second,
		ThoroughBudget: 20 * time.Minute,
	})
}

type c10Defect struct {
	Name  string
	Needs string // "" any container with fields; "echo" container must have echo; "frag" fragment-level
	Make  func(container *world.TypeDef) *world.Sel
	Names string // text the error must mention ("" = any error will do)
	// how the resolver must not have been invoked: "field:<name>" no call of that field; "arg:<field>:<arg>" no call of field with that arg
	NoCall string
	// NoValue: the response must not carry a non-null value under the alias dfx (the selection was not resolved)
	NoValue bool
	// Vars: variable definitions (no default, no value supplied) the defect needs on every operation
	Vars []world.VarDef
	// Cond: with Needs "frag", the type condition of the fragment FZq that is added (default: the undefined name Zq7)
	Cond string
}

// dfxValues collects the non-null values found under the response key dfx.
func dfxValues(v interface{}, out *[]interface{}) {
	switch tv := v.(type) {
	case map[string]interface{}:
		for k, e := range tv {
			if k == "dfx" && e != nil {
				*out = append(*out, e)
			}
			dfxValues(e, out)
		}
	case []interface{}:
		for _, e := range tv {
			dfxValues(e, out)
		}
	}
}

func c10Defects() []c10Defect {
	al := func(s *world.Sel) *world.Sel { return world.Al("dfx", s) }
	echo := func(args ...world.Arg) *world.Sel { return al(world.F("echo").WithArgs(args...)) }
	return []c10Defect{
		{Name: "undefined-field", Make: func(*world.TypeDef) *world.Sel { return al(world.F("zq7")) }, Names: "zq7", NoCall: "field:zq7"},
		// a field the OBJECT defines, selected inside a fragment on an interface it implements / a union it belongs to that does
		// not define it (under an object-typed parent): the fragment's condition is the container of what it holds
		{Name: "object-field-inside-interface-fragment", Needs: "in-named", Make: func(*world.TypeDef) *world.Sel { return world.In("Named", al(world.F("id"))) }, Names: "id", NoValue: true},
		{Name: "object-field-inside-union-fragment", Needs: "in-ab", Make: func(*world.TypeDef) *world.Sel { return world.In("AB", al(world.F("id"))) }, Names: "id", NoValue: true},
		// undefined fields whose names start like the meta-fields
		{Name: "undefined-field-reserved-prefix", Make: func(*world.TypeDef) *world.Sel { return al(world.F("__zq7")) }, Names: "__zq7", NoCall: "field:__zq7"},
		{Name: "undefined-field-like-a-meta-field", Make: func(*world.TypeDef) *world.Sel { return al(world.F("__typeName")) }, Names: "__typeName", NoCall: "field:__typeName"},
		{Name: "undefined-field-with-selection", Make: func(*world.TypeDef) *world.Sel { return al(world.F("zq7", world.F("id"))) }, Names: "zq7", NoCall: "field:zq7"},
		{Name: "undeclared-arg-alone", Needs: "i", Make: func(*world.TypeDef) *world.Sel { return al(world.F("i").WithArgs(world.Arg{Name: "zz", Value: 1})) }, Names: "zz", NoCall: "arg:i:zz"},
		{Name: "undeclared-arg-beside", Needs: "echo", Make: func(*world.TypeDef) *world.Sel {
			return echo(world.Arg{Name: "s", Value: "x"}, world.Arg{Name: "b", Value: true}, world.Arg{Name: "zz", Value: true})
		}, Names: "zz", NoCall: "arg:echo:zz"},
		{Name: "undeclared-arg-replacing", Needs: "echo", Make: func(*world.TypeDef) *world.Sel {
			return echo(world.Arg{Name: "s", Value: "x"}, world.Arg{Name: "zz", Value: true})
		}, Names: "zz", NoCall: "arg:echo:zz"},
		{Name: "omitted-required-arg", Needs: "echo", Make: func(*world.TypeDef) *world.Sel {
			return echo(world.Arg{Name: "b", Value: true})
		}, Names: "", NoCall: "field:echo"},
		{Name: "omitted-required-arg-no-args-at-all", Needs: "echo", Make: func(*world.TypeDef) *world.Sel { return echo() }, Names: "", NoCall: "field:echo"},
		// a field that the CONCRETE type behind the container defines but the container type itself does not
		{Name: "field-of-implementation-only", Needs: "interface", Make: func(*world.TypeDef) *world.Sel { return al(world.F("id")) }, Names: "id", NoValue: true},
		{Name: "field-directly-under-union", Needs: "union", Make: func(*world.TypeDef) *world.Sel { return al(world.F("name")) }, Names: "name", NoValue: true},
		// the required argument is written, but as a variable that has no value and no default
		{Name: "required-arg-through-unset-variable", Needs: "echo", Make: func(*world.TypeDef) *world.Sel {
			return echo(world.Arg{Name: "s", Value: world.VarRef("zq7v")}, world.Arg{Name: "b", Value: true})
		}, Names: "", NoCall: "field:echo", Vars: []world.VarDef{{Name: "zq7v", Type: "String"}}},
		// the defect hides behind a response key that a valid selection of the same set has already used
		{Name: "undefined-field-under-used-key", Needs: "i", Make: func(*world.TypeDef) *world.Sel {
			return world.In("", world.Al("dfx", world.F("i")), world.Al("dfx", world.F("zq7")))
		}, Names: "zq7"},
		{Name: "omitted-required-arg-under-used-key", Needs: "echo", Make: func(*world.TypeDef) *world.Sel {
			return world.In("", echo(world.Arg{Name: "s", Value: "x"}, world.Arg{Name: "b", Value: true}), echo())
		}, Names: ""},
		// @include / @skip written without their required argument
		{Name: "include-without-if-directive", Needs: "i", Make: func(*world.TypeDef) *world.Sel { return al(world.F("i")).With(world.Dir{Name: "include"}) }},
		{Name: "skip-without-if-directive", Needs: "i", Make: func(*world.TypeDef) *world.Sel { return al(world.F("i")).With(world.Dir{Name: "skip"}) }},
		{Name: "unknown-directive", Needs: "i", Make: func(*world.TypeDef) *world.Sel { return al(world.F("i")).With(world.Dir{Name: "zq7"}) }},
		{Name: "misplaced-directive", Needs: "i", Make: func(*world.TypeDef) *world.Sel { return al(world.F("i")).With(world.Dir{Name: "deprecated"}) }},
		{Name: "undefined-type-condition-inline", Make: func(td *world.TypeDef) *world.Sel { return world.In("Zq7", world.F("__typename")) }},
		{Name: "undefined-type-condition-named", Needs: "frag", Make: func(td *world.TypeDef) *world.Sel { return world.Sp("FZq") }},
		// names that are something, but not a type: a directive (built in, of the schema), a list of / a non-null undefined name
		{Name: "undefined-type-condition-inline-directive-name", Make: func(td *world.TypeDef) *world.Sel { return world.In("skip", world.F("__typename")) }},
		{Name: "undefined-type-condition-inline-list", Make: func(td *world.TypeDef) *world.Sel { return world.In("[Zq7]", world.F("__typename")) }},
		{Name: "undefined-type-condition-inline-non-null", Make: func(td *world.TypeDef) *world.Sel { return world.In("Zq7!", world.F("__typename")) }},
		{Name: "undefined-type-condition-named-directive-name", Needs: "frag", Cond: "deprecated", Make: func(td *world.TypeDef) *world.Sel { return world.Sp("FZq") }},
		{Name: "undefined-type-condition-named-list", Needs: "frag", Cond: "[Zq7]", Make: func(td *world.TypeDef) *world.Sel { return world.Sp("FZq") }},
		{Name: "undefined-type-condition-named-non-null", Needs: "frag", Cond: "Zq7!", Make: func(td *world.TypeDef) *world.Sel { return world.Sp("FZq") }},
	}
}

func containerKind(s *world.Schema, name string, viaUnion bool) string {
	switch {
	case viaUnion:
		return "union-member"
	case name == s.Query:
		return "query-root"
	case name == s.Mutation:
		return "mutation-root"
	}
	if td := s.Type(name); td != nil && td.Kind == world.KInterface {
		return "interface"
	}
	return "object"
}

func stripKey(v interface{}, key string) interface{} {
	switch tv := v.(type) {
	case map[string]interface{}:
		out := make(map[string]interface{}, len(tv))
		for k, e := range tv {
			if k == key {
				continue
			}
			out[k] = stripKey(e, key)
		}
		return out
	case []interface{}:
		out := make([]interface{}, len(tv))
		for i, e := range tv {
			out[i] = stripKey(e, key)
		}
		return out
	}
	return v
}

func runC10(c *core.Ctx) {
	s := world.Universe(world.UniverseOpts{})
	k := 1
	if c.Thorough() {
		k = 2
	}
	g0 := world.BaseGraph(0)
	gfs := g0.FSView(s)
	defects := c10Defects()
	completed := true
	docsWithin(c, s, world.BaseDocs(), k, 0, func(d *world.Doc, dist int) bool {
		if c.Expired() {
			completed = false
			return false
		}
		baseText := d.Render(world.LOneLine)
		// enumerate sites
		type site struct {
			idx       int
			container string
			union     bool
		}
		var sites []site
		i := 0
		d.TypedWalk(s, func(set *[]*world.Sel, container string) {
			sites = append(sites, site{idx: i, container: container})
			i++
		})
		for _, st := range sites {
			td := s.Type(st.container)
			if td == nil {
				continue
			}
			for di, df := range defects {
				// quick: documents one mutation away from a base get every third defect kind (the bases get all of them)
				if !c.Thorough() && dist > 0 && di%4 != 0 && df.Needs != "interface" && df.Needs != "union" {
					continue
				}
				// a union container only holds fragments (its member fragments are visited as object sites): only the
				// defect made for it applies
				if (td.Kind == world.KUnion) != (df.Needs == "union") {
					continue
				}
				if df.Needs == "interface" && td.Kind != world.KInterface {
					continue
				}
				if df.Needs == "echo" && td.Field("echo") == nil {
					continue
				}
				if df.Needs == "i" && td.Field("i") == nil {
					continue
				}
				if (df.Needs == "in-named" && !(td.Kind == world.KObject && s.Applies("Named", td.Name))) || (df.Needs == "in-ab" && !(td.Kind == world.KObject && s.Applies("AB", td.Name))) {
					continue
				}
				key := fmt.Sprintf("%s|%d|%s", baseText, st.idx, df.Name)
				if !c.Owns(key) {
					continue
				}
				nd := d.Clone()
				j := 0
				nd.TypedWalk(s, func(set *[]*world.Sel, container string) {
					if j == st.idx {
						*set = append(*set, df.Make(td))
					}
					j++
				})
				if df.Needs == "frag" {
					cond := df.Cond
					if cond == "" {
						cond = "Zq7"
					}
					nd.Frags = append(nd.Frags, &world.Frag{Name: "FZq", Cond: cond, Sels: []*world.Sel{world.F("__typename")}})
				}
				if len(df.Vars) > 0 {
					for _, o := range nd.Ops {
						if o.Anon {
							o.Anon = false // "query ($zq7v: String) {...}": an operation needs its keyword to declare variables
						}
						o.Vars = append(o.Vars, df.Vars...)
					}
				}
				text := nd.Render(world.LOneLine)
				ft := d.Features(s)
				ck := containerKind(s, st.container, false)
				if st.idx > 0 {
					c.Nontrivial()
				}
				for _, op := range world.OpNames(d) {
					if op == "Nope" {
						continue
					}
					for _, nc := range configsFor(s, ft, false) {
						if nc.Cfg.Car != world.CarSlice || nc.Cfg.Bind == world.BindRegisterFields {
							continue
						}
						g := g0
						if nc.Cfg.Strat == world.FS {
							g = gfs
						}
						exClean := world.RefExec(s, g, d, op, nil, nil, world.RefOpts{})
						if exClean.Invalid || exClean.Rejected {
							continue
						}
						c.Eval()
						root, run, err := world.BuildRoot(nc.Cfg, g)
						if err != nil {
							panic(core.EngineError{Msg: err.Error()})
						}
						o := world.Observe(root, run, text, op, nil)
						// is the defective site reachable in this operation? (a site inside another operation or an
						// unreferenced fragment need not produce an error at resolve time, unless it is a parse-level defect)
						exDef := world.RefExec(s, g, nd, op, nil, nil, world.RefOpts{})
						reached := exDef.Features["dfx-reached"] > 0
						attrs := map[string]string{"defect": df.Name, "container": ck, "strategy": nc.Cfg.Strat.String()}
						mk := func(msg string) worldCase {
							return worldCase{Config: nc.Name, Query: text, Op: op, Expected: map[string]interface{}{"data_without_dfx": exClean.Data}, Observed: o, Diff: msg}
						}
						if o.Panic != nil {
							c.Outcome("panic")
							c.Violation("panic", map[string]string{"site": o.Panic.Site, "class": o.Panic.Class, "defect": df.Name, "strategy": nc.Cfg.Strat.String()}, mk(o.Panic.Value))
							continue
						}
						bad := false
						if reached || strings.HasPrefix(df.Name, "undefined-type-condition") || strings.HasSuffix(df.Name, "directive") {
							// an error is required
							if len(o.Errors) == 0 {
								c.Outcome("missing-error")
								c.Violation("missing-error", attrs, mk("no error reported for the defective selection"))
								bad = true
							} else if df.Names != "" {
								named := false
								for _, e := range o.Errors {
									if m, _ := e["message"].(string); strings.Contains(m, df.Names) {
										named = true
									}
								}
								if !named {
									c.Outcome("offender-not-named")
									c.Violation("offender-not-named", attrs, mk("no error message names "+df.Names))
									bad = true
								}
							}
						}
						// the resolver must not have been invoked with the defect
						if df.NoCall != "" {
							parts := strings.Split(df.NoCall, ":")
							for _, ar := range run.Args {
								if ar.Key.Field != parts[1] {
									continue
								}
								if parts[0] == "field" && !strings.HasPrefix(df.Name, "omitted-required-arg") && df.Name != "required-arg-through-unset-variable" {
									c.Outcome("resolver-invoked")
									c.Violation("resolver-invoked", attrs, mk("resolver invoked for undefined field "+parts[1]))
									bad = true
									break
								}
								if parts[0] == "field" && (strings.HasPrefix(df.Name, "omitted-required-arg") || df.Name == "required-arg-through-unset-variable") {
									if v, has := ar.Args["s"]; !has || (v == nil && df.Name == "required-arg-through-unset-variable") {
										c.Outcome("resolver-invoked")
										c.Violation("resolver-invoked", attrs, mk("resolver invoked without the required argument s"))
										bad = true
										break
									}
								}
								if parts[0] == "arg" {
									if _, has := ar.Args[parts[2]]; has {
										c.Outcome("resolver-invoked")
										c.Violation("resolver-invoked", attrs, mk("resolver invoked with the undeclared argument "+parts[2]))
										bad = true
										break
									}
								}
							}
						}
						if df.NoValue && o.HasData {
							var vals []interface{}
							dfxValues(o.Data, &vals)
							if len(vals) > 0 {
								c.Outcome("defect-resolved")
								c.Violation("defect-resolved", attrs, mk(fmt.Sprintf("the defective selection was resolved to %v", vals[0])))
								bad = true
							}
						}
						// siblings intact unless the whole document was rejected
						if o.HasData {
							got := stripKey(o.Data, "dfx")
							var want interface{} = map[string]interface{}(exClean.Data)
							if dd := world.Diff(want, got, ""); dd != "" {
								c.Outcome("sibling-diff")
								c.Violation("sibling-diff", attrs, mk(dd))
								bad = true
							}
						}
						if !bad {
							if o.HasData {
								c.Outcome("ok-partial-data")
							} else {
								c.Outcome("ok-rejected")
							}
						}
					}
				}
				sample(c, func() interface{} { return map[string]interface{}{"query": text, "defect": df.Name, "container": ck} })
			}
		}
		c10DefinitionDirectives(c, s, d, dist, g0, gfs)
		return true
	})
	c10InterfaceArguments(c)
	c10MetaArguments(c)
	c10StructFieldArguments(c)
	c10MetaFieldsOffRoot(c)
	c.R.Bound = fmt.Sprintf("base documents + %d mutations; one defect at every selection-set site (quick: every fourth defect kind on the mutated documents); 4 bad directives on every fragment definition and operation, fragments after and before the operations (quick: base documents); arguments only an implementer declares, given through the interface (6 request shapes)", k)
	if !completed {
		c.Cap("deadline reached")
	}
}

// c10DefinitionDirectives: an unknown or misplaced directive written on a DEFINITION - every fragment definition and every
// keyword operation of the document, with the fragment definitions after the operations (each spread is read before its
// definition) and before them. An error is required when the defective definition is the operation being executed or a fragment
// reachable from it, and then nothing of the document is resolved (the document is not valid).
func c10DefinitionDirectives(c *core.Ctx, s *world.Schema, d *world.Doc, dist int, g0, gfs *world.Graph) {
	if dist > 0 && !c.Thorough() {
		return
	}
	baseText := d.Render(world.LOneLine)
	bads := []struct {
		name string
		dir  world.Dir
	}{
		{"unknown-directive-on-definition", world.Dir{Name: "zq7"}},
		{"misplaced-directive-on-definition", world.Dir{Name: "deprecated"}},
		{"misplaced-skip-on-definition", world.Dir{Name: "skip", If: true}},
		{"misplaced-include-on-definition", world.Dir{Name: "include", If: false}},
	}
	reach := func(nd *world.Doc, op *world.Op) map[string]bool {
		seen := map[string]bool{}
		var walk func(sels []*world.Sel)
		walk = func(sels []*world.Sel) {
			for _, x := range sels {
				if x.Kind == world.SSpread && !seen[x.Name] {
					seen[x.Name] = true
					if f := nd.Frag(x.Name); f != nil {
						walk(f.Sels)
					}
				}
				walk(x.Sels)
			}
		}
		walk(op.Sels)
		return seen
	}
	ntargets := len(d.Frags) + len(d.Ops)
	for ti := 0; ti < ntargets; ti++ {
		for _, bd := range bads {
			for _, first := range []bool{false, true} {
				if first && len(d.Frags) == 0 {
					continue
				}
				key := fmt.Sprintf("%s|def%d|%s|%v", baseText, ti, bd.name, first)
				if !c.Owns(key) {
					continue
				}
				nd := d.Clone()
				nd.FragsFirst = first
				target := ""
				if ti < len(nd.Frags) {
					nd.Frags[ti].Dirs = append(nd.Frags[ti].Dirs, bd.dir)
					target = "fragment:" + nd.Frags[ti].Name
				} else {
					o := nd.Ops[ti-len(nd.Frags)]
					if o.Anon {
						if len(nd.Ops) > 1 {
							continue
						}
						o.Anon = false // "query @zq7 {...}"
					}
					o.Dirs = append(o.Dirs, bd.dir)
					target = "operation:" + o.Name
				}
				text := nd.Render(world.LOneLine)
				ft := d.Features(s)
				c.Nontrivial()
				for _, op := range world.OpNames(d) {
					if op == "Nope" {
						continue
					}
					var exeOp *world.Op
					for _, o := range nd.Ops {
						if o.Name == op {
							exeOp = o
						}
					}
					if exeOp == nil || (op == "" && len(nd.Ops) > 1) {
						continue
					}
					required := target == "operation:"+exeOp.Name || (strings.HasPrefix(target, "fragment:") && reach(nd, exeOp)[strings.TrimPrefix(target, "fragment:")])
					for _, nc := range configsFor(s, ft, false) {
						if nc.Cfg.Car != world.CarSlice || nc.Cfg.Bind == world.BindRegisterFields {
							continue
						}
						g := g0
						if nc.Cfg.Strat == world.FS {
							g = gfs
						}
						c.Eval()
						root, run, err := world.BuildRoot(nc.Cfg, g)
						if err != nil {
							panic(core.EngineError{Msg: err.Error()})
						}
						o := world.Observe(root, run, text, op, nil)
						attrs := map[string]string{"defect": bd.name, "container": strings.SplitN(target, ":", 2)[0], "strategy": nc.Cfg.Strat.String(), "fragments-first": fmt.Sprint(first)}
						mk := func(msg string) worldCase {
							return worldCase{Config: nc.Name, Query: text, Op: op, Observed: o, Diff: msg}
						}
						switch {
						case o.Panic != nil:
							c.Outcome("panic")
							c.Violation("panic", map[string]string{"site": o.Panic.Site, "class": o.Panic.Class, "defect": bd.name, "strategy": nc.Cfg.Strat.String()}, mk(o.Panic.Value))
						case required && len(o.Errors) == 0:
							c.Outcome("missing-error")
							c.Violation("missing-error", attrs, mk("no error reported for the directive on the "+target))
						case required && len(run.Args) > 0:
							c.Outcome("resolver-invoked")
							c.Violation("resolver-invoked", attrs, mk(fmt.Sprintf("the document is not valid, yet %d resolver calls were made", len(run.Args))))
						case len(o.Errors) > 0:
							c.Outcome("ok-rejected")
						default:
							c.Outcome("ok-defect-elsewhere")
						}
					}
				}
			}
		}
	}
}

// ---- arguments through an interface container: an implementer may declare more (optional) arguments on an interface field than
// the interface does. Through the interface only the interface's declaration counts: an argument that only some implementer
// declares is an undeclared argument there (error naming it, resolver not invoked with it); on the object itself it is valid.

type c10Pet struct {
	kind string
	log  *[]string
}

func (p *c10Pet) Resolve(f *ggql.Field, args map[string]interface{}) (interface{}, error) {
	switch f.Name {
	case "query":
		return p, nil
	case "pet", "dog":
		return &c10Pet{"Dog", p.log}, nil
	case "cat":
		return &c10Pet{"Cat", p.log}, nil
	case "pets":
		return []interface{}{&c10Pet{"Dog", p.log}, &c10Pet{"Cat", p.log}}, nil
	}
	keys := make([]string, 0, len(args))
	for k := range args {
		keys = append(keys, k)
	}
	sort.Strings(keys)
	*p.log = append(*p.log, p.kind+"."+f.Name+"("+strings.Join(keys, ",")+")")
	return p.kind, nil
}

const c10PetSDL = "interface Pet { name(short: Boolean): String }\n" +
	"type Dog implements Pet { name(short: Boolean, style: String): String }\n" +
	"type Cat implements Pet { name(short: Boolean): String }\n" +
	"type Query { pet: Pet pets: [Pet] dog: Dog cat: Cat }\n"

func c10PetRoot() *ggql.Root {
	var log []string
	root := ggql.NewRoot(&c10Pet{"Query", &log})
	if err := root.ParseString(c10PetSDL); err != nil {
		panic(core.EngineError{Msg: "C10 interface-argument schema refused: " + err.Error()})
	}
	return root
}

func c10InterfaceArguments(c *core.Ctx) {
	const sdl = c10PetSDL
	cases := []struct {
		q     string
		valid bool
	}{
		{`{ pet { name(style: "x") } }`, false}, {`{ pets { name(style: "x") } }`, false}, {`{ pet { ... on Pet { name(style: "x") } } }`, false},
		{`{ pet { name(short: true, style: "x") } }`, false}, {`{ pets { ...F } } fragment F on Pet { name(style: "x") }`, false}, {`{ cat { name(style: "x") } }`, false},
		{`{ dog { name(style: "x") } }`, true}, {`{ dog { name(short: true, style: "x") } pet { name(short: false) } }`, true},
	}
	for i, cs := range cases {
		if !c.OwnsIdx(1<<43 + int64(i)) {
			continue
		}
		c.Eval()
		c.R.Distinct++
		c.Nontrivial()
		var log []string
		root := ggql.NewRoot(&c10Pet{"Query", &log})
		if err := root.ParseString(sdl); err != nil {
			panic(core.EngineError{Msg: "C10 interface-argument schema refused: " + err.Error()})
		}
		var res map[string]interface{}
		pi := core.Safe(func() { res = root.ResolveString(cs.q, "", nil) })
		detail := map[string]interface{}{"sdl": sdl, "query": cs.q, "response": res, "resolver_calls": log}
		attrs := map[string]string{"defect": "argument-of-an-implementer-through-the-interface", "container": "interface", "strategy": "RS"}
		if pi != nil {
			c.Violation("panic", map[string]string{"site": pi.Site, "class": pi.Class, "defect": attrs["defect"], "strategy": "RS"}, detail)
			continue
		}
		withStyle := false
		for _, l := range log {
			if strings.Contains(l, "style") {
				withStyle = true
			}
		}
		named := false
		if es, ok := res["errors"].([]interface{}); ok {
			for _, e := range es {
				if em, ok := e.(map[string]interface{}); ok && strings.Contains(fmt.Sprint(em["message"]), "style") {
					named = true
				}
			}
		}
		switch {
		case cs.valid && res["errors"] != nil:
			detail["diff"] = "a valid request (the argument is declared by the object type it is given to) was answered with an error"
			c.Outcome("valid-refused")
			c.Violation("valid-refused", attrs, detail)
		case cs.valid:
			c.Outcome("ok-valid")
		case res["errors"] == nil:
			detail["diff"] = "no error for an argument the interface field does not declare"
			c.Outcome("missing-error")
			c.Violation("missing-error", attrs, detail)
		case !named:
			detail["diff"] = "no error names the argument style"
			c.Violation("offender-not-named", attrs, detail)
		case withStyle:
			detail["diff"] = "a resolver was invoked with the undeclared argument style"
			c.Outcome("resolver-invoked")
			c.Violation("resolver-invoked", attrs, detail)
		default:
			c.Outcome("ok-rejected")
		}
	}
}

// ---- arguments the META-fields do not define: __typename and __schema take none, __type takes name. On the query root, below
// objects, and for the fields of the introspection types themselves. An error naming the argument, nothing under the key.
func c10MetaArguments(c *core.Ctx) {
	const sdl = c10PetSDL
	cases := []struct {
		q     string
		key   string // where no value may appear: "a.b" path of response keys
		valid bool
	}{
		{`{ dfx: __typename(zz: 1) }`, "dfx", false}, {`{ dog { dfx: __typename(zz: true) } }`, "dog.dfx", false}, {`{ pet { dfx: __typename(zz: "s") } }`, "pet.dfx", false},
		{`{ dfx: __schema(zz: 1) { queryType { name } } }`, "dfx", false},
		{`{ dfx: __type(zz: "Dog") { name } }`, "dfx", false}, {`{ dfx: __type(name: "Dog", zz: 1) { name } }`, "dfx", false}, {`{ dfx: __type(zz: 1, name: "Dog") { name } }`, "dfx", false},
		{`{ __schema { dfx: types(zz: 1) { name } } }`, "__schema.dfx", false}, {`{ __type(name: "Dog") { dfx: name(zz: 1) } }`, "__type.dfx", false},
		{`{ __type(name: "Dog") { dfx: fields(zz: true) { name } } }`, "__type.dfx", false}, {`{ __type(name: "Dog") { fields { dfx: name(zz: 1) } } }`, "", false},
		{`{ __type(name: "Dog") { name fields(includeDeprecated: true) { name } } t: __typename __schema { queryType { name } } }`, "", true},
	}
	for i, cs := range cases {
		if !c.OwnsIdx(1<<42 + int64(i)) {
			continue
		}
		c.Eval()
		c.R.Distinct++
		c.Nontrivial()
		var log []string
		root := ggql.NewRoot(&c10Pet{"Query", &log})
		if err := root.ParseString(sdl); err != nil {
			panic(core.EngineError{Msg: "C10 meta-argument schema refused: " + err.Error()})
		}
		var res map[string]interface{}
		pi := core.Safe(func() { res = root.ResolveString(cs.q, "", nil) })
		detail := map[string]interface{}{"sdl": sdl, "query": cs.q, "response": res}
		attrs := map[string]string{"defect": "undeclared-argument-on-a-meta-field", "container": "meta", "strategy": "RS"}
		if pi != nil {
			c.Violation("panic", map[string]string{"site": pi.Site, "class": pi.Class, "defect": attrs["defect"], "strategy": "RS"}, detail)
			continue
		}
		named := false
		if es, ok := res["errors"].([]interface{}); ok {
			for _, e := range es {
				if em, ok := e.(map[string]interface{}); ok && strings.Contains(fmt.Sprint(em["message"]), "zz") {
					named = true
				}
			}
		}
		var at interface{} = res["data"]
		if cs.key != "" {
			for _, k := range strings.Split(cs.key, ".") {
				m, _ := at.(map[string]interface{})
				at = m[k]
			}
		}
		switch {
		case cs.valid && res["errors"] != nil:
			detail["diff"] = "a valid request was answered with an error"
			c.Violation("valid-refused", attrs, detail)
		case cs.valid:
			c.Outcome("ok-valid")
		case res["errors"] == nil:
			detail["diff"] = "no error for an argument the meta-field does not define"
			c.Outcome("missing-error")
			c.Violation("missing-error", attrs, detail)
		case !named:
			detail["diff"] = "no error names the argument zz"
			c.Violation("offender-not-named", attrs, detail)
		case cs.key != "" && at != nil:
			detail["diff"] = "a value appears under the key of the refused selection"
			c.Violation("data-under-refused-key", attrs, detail)
		default:
			c.Outcome("rejected-as-required")
		}
	}
}

// ---- fields that declare arguments and are bound, by reflection, to plain STRUCT FIELDS of the Go type (the arguments cannot be
// handed to anything, they are declared all the same): a required argument left out, null or of another kind is an error and no
// value appears; undeclared arguments are refused; the valid request is answered.
type C10SFQuery struct {
	Plain string
	Need  string
	Opt   string
	Kids  []*C10SFQuery
}
type c10SFRoot struct{ Query *C10SFQuery }

func c10StructFieldArguments(c *core.Ctx) {
	const sdl = "type Query { plain: String need(x: Int!): String opt(y: Int, e: Boolean = true): String kids: [Query] }\n"
	cases := []struct {
		q, key, names string
		valid         bool
	}{
		{`{ dfx: need }`, "dfx", "x", false}, {`{ dfx: need(x: null) }`, "dfx", "x", false}, {`{ dfx: need(x: "a") }`, "dfx", "", false}, {`{ dfx: need(x: 1.5) }`, "dfx", "", false},
		{`{ dfx: opt(y: "s") }`, "dfx", "", false}, {`{ dfx: opt(e: 3) }`, "dfx", "", false}, {`{ dfx: need(x: 1, zz: 2) }`, "dfx", "zz", false}, {`{ dfx: plain(zz: 2) }`, "dfx", "zz", false},
		{`{ kids { dfx: need } }`, "", "x", false}, {`query Q($v: Int) { dfx: need(x: $v) }`, "dfx", "", false},
		{`{ need(x: 1) opt opt2: opt(y: 2, e: false) plain kids { need(x: 2) } }`, "", "", true},
	}
	for i, cs := range cases {
		if !c.OwnsIdx(1<<41 + int64(i)) {
			continue
		}
		c.Eval()
		c.R.Distinct++
		c.Nontrivial()
		root := ggql.NewRoot(&c10SFRoot{Query: &C10SFQuery{Plain: "p", Need: "n", Opt: "o", Kids: []*C10SFQuery{{Plain: "kp", Need: "kn", Opt: "ko"}}}})
		if err := root.ParseString(sdl); err != nil {
			panic(core.EngineError{Msg: "C10 struct-field schema refused: " + err.Error()})
		}
		var res map[string]interface{}
		pi := core.Safe(func() { res = root.ResolveString(cs.q, "", nil) })
		detail := map[string]interface{}{"sdl": sdl, "query": cs.q, "response": res}
		attrs := map[string]string{"defect": "argument-of-a-field-bound-to-a-struct-field", "container": "object", "strategy": "FS"}
		if pi != nil {
			c.Violation("panic", map[string]string{"site": pi.Site, "class": pi.Class, "defect": attrs["defect"], "strategy": "FS"}, detail)
			continue
		}
		named := cs.names == ""
		if es, ok := res["errors"].([]interface{}); ok {
			for _, e := range es {
				if em, ok := e.(map[string]interface{}); ok && strings.Contains(fmt.Sprint(em["message"]), cs.names) {
					named = true
				}
			}
		}
		var at interface{}
		if cs.key != "" {
			m, _ := res["data"].(map[string]interface{})
			at = m[cs.key]
		}
		switch {
		case cs.valid && res["errors"] != nil:
			detail["diff"] = "a valid request was answered with an error"
			c.Violation("valid-refused", attrs, detail)
		case cs.valid:
			want := map[string]interface{}{"need": "n", "opt": "o", "opt2": "o", "plain": "p", "kids": []interface{}{map[string]interface{}{"need": "kn"}}}
			if dd := world.Diff(world.Canon(want), world.Canon(res["data"]), ""); dd != "" {
				detail["diff"] = dd
				c.Violation("siblings-diff", attrs, detail)
			} else {
				c.Outcome("ok-valid")
			}
		case res["errors"] == nil:
			detail["diff"] = "no error for a required argument left out / an argument of another kind / an undeclared argument"
			c.Outcome("missing-error")
			c.Violation("missing-error", attrs, detail)
		case !named:
			detail["diff"] = "no error names " + cs.names
			c.Violation("offender-not-named", attrs, detail)
		case at != nil:
			detail["diff"] = "a value appears under the key of the refused selection"
			c.Violation("data-under-refused-key", attrs, detail)
		default:
			c.Outcome("rejected-as-required")
		}
	}
}

// ---- __schema and __type belong to the query root only - whatever the types are called: with "schema { query: Root }" an
// ordinary object type may be called Query (and the root is not); selected on it, or on any other object, the meta-fields are
// fields the container does not define.
type c10Off struct{}

func (c10Off) Resolve(f *ggql.Field, args map[string]interface{}) (interface{}, error) {
	switch f.Name {
	case "n", "a", "m":
		return 7, nil
	}
	return c10Off{}, nil
}

func c10MetaFieldsOffRoot(c *core.Ctx) {
	sdls := []string{
		"schema { query: Root }\ntype Root { n: Int legacy: Query other: Other }\ntype Query { a: Int }\ntype Other { a: Int }\n",
		"schema { query: Root mutation: Query }\ntype Root { n: Int legacy: Query other: Other }\ntype Query { a: Int m: Int }\ntype Other { a: Int }\n",
		"type Query { n: Int legacy: Legacy other: Other }\ntype Legacy { a: Int }\ntype Other { a: Int }\n",
	}
	cases := []struct {
		q, key string
		valid  bool
	}{
		{`{ n legacy { a dfx: __schema { queryType { name } } } }`, "legacy.dfx", false}, {`{ n legacy { a dfx: __type(name: "Other") { name } } }`, "legacy.dfx", false},
		{`{ other { dfx: __schema { queryType { name } } } }`, "other.dfx", false}, {`{ other { a dfx: __type(name: "Other") { name } } }`, "other.dfx", false},
		{`{ n legacy { a __typename } __schema { queryType { name } } __type(name: "Other") { name } }`, "", true},
	}
	for si, sdl := range sdls {
		for i, cs := range cases {
			if !c.OwnsIdx(1<<40 + int64(si*10+i)) {
				continue
			}
			c.Eval()
			c.R.Distinct++
			c.Nontrivial()
			root := ggql.NewRoot(c10Off{})
			if err := root.ParseString(sdl); err != nil {
				panic(core.EngineError{Msg: "C10 off-root schema refused: " + err.Error()})
			}
			var res map[string]interface{}
			pi := core.Safe(func() { res = root.ResolveString(cs.q, "", nil) })
			detail := map[string]interface{}{"sdl": sdl, "query": cs.q, "response": res}
			attrs := map[string]string{"defect": "meta-field-on-an-object-that-is-not-the-query-root", "container": "object", "strategy": "RS"}
			if pi != nil {
				c.Violation("panic", map[string]string{"site": pi.Site, "class": pi.Class, "defect": attrs["defect"], "strategy": "RS"}, detail)
				continue
			}
			var at interface{} = res["data"]
			if cs.key != "" {
				for _, k := range strings.Split(cs.key, ".") {
					m, _ := at.(map[string]interface{})
					at = m[k]
				}
			}
			switch {
			case cs.valid && res["errors"] != nil:
				detail["diff"] = "a valid request was answered with an error"
				c.Violation("valid-refused", attrs, detail)
			case cs.valid:
				c.Outcome("ok-valid")
			case res["errors"] == nil:
				detail["diff"] = "no error for a meta-field selected on an object that is not the query root"
				c.Outcome("missing-error")
				c.Violation("missing-error", attrs, detail)
			case at != nil:
				detail["diff"] = "a value appears under the key of the refused selection"
				c.Violation("data-under-refused-key", attrs, detail)
			default:
				c.Outcome("rejected-as-required")
			}
		}
	}
}
