package main

import (
	"fmt"

	"github.com/uhn/ggql/pkg/ggql"

	"verif/mc/sgen"
)

func main() {
	for i, s := range sgen.Bases() {
		fmt.Println("=== base", i, "wellformed violations:", s.WellFormed())
		root := ggql.NewRoot(nil)
		err := root.ParseString(s.SDL())
		fmt.Println("load err:", err)
		if err != nil {
			fmt.Println(s.SDL())
			continue
		}
		var dn []string
		for _, d := range s.Defs {
			if d.Kind == sgen.KDirective {
				dn = append(dn, d.Name)
			}
		}
		back, err := sgen.FromRoot(root, dn)
		if err != nil {
			fmt.Println("fromroot err:", err)
			continue
		}
		a, b := s.Canonical(sgen.CanonOpts{}), back.Canonical(sgen.CanonOpts{})
		if a != b {
			fmt.Println("CANON DIFF\n--- abstract\n" + a + "\n--- from root\n" + b)
		} else {
			fmt.Println("canonical equal,", len(a), "bytes")
		}
	}
}
