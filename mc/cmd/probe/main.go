package main

import (
	"fmt"
	"time"

	"github.com/uhn/ggql/pkg/ggql"
)

func try(s string) {
	done := make(chan error, 1)
	go func() {
		root := ggql.NewRoot(nil)
		done <- root.ParseString(s)
	}()
	select {
	case err := <-done:
		fmt.Printf("%q -> %v\n", s, err)
	case <-time.After(2 * time.Second):
		fmt.Printf("%q -> HANG\n", s)
	}
}

func main() {
	for _, s := range []string{"\"a\"\ntype Query { i: Int }", "\x01", "type Query { i: Int }\n\x01", "#", "\"\"\"\n\\\n\"\"\"\ntype Query {i: Int}", "\"", "\\", "\"\"\"", "é", "type Query {i: Int} é", "1", "{", "}", "type", "(", "@", "!", "$", "=", "&", "|", ":", "[", ","} {
		try(s)
	}
}
