//go:build vsched

// Package sched is the controlled cooperative scheduler: real goroutines, one runnable at a time; every
// Mutex.Lock in pkg/ggql (routed here by the sync shim) is a choice point taken BEFORE acquisition, and a
// thread is enabled only while the mutex it wants is free. The explorer enumerates the choices.
package sched

import (
	"fmt"
	"runtime"
	"runtime/debug"
	"unsafe"

	"github.com/uhn/ggql/pkg/vsync"

	"verif/mc/core"
)

const maxThreads = 4

type vclock [maxThreads]int32

func (a *vclock) join(b *vclock) {
	for i := range a {
		if b[i] > a[i] {
			a[i] = b[i]
		}
	}
}

// shadow is the access history of one instrumented address within one execution (DJIT+ style: last write epoch,
// last read clock per thread).
type shadow struct {
	p     unsafe.Pointer // keeps the object reachable, so its address cannot be reused within the execution
	wT    int8
	wClk  int32
	wSite int32
	rClk  [maxThreads]int32
	rSite [maxThreads]int32
}

type mutexClock struct{ w, r vclock }

// Race is one pair of conflicting accesses not ordered by happens-before (mutex release -> acquire edges).
type Race struct {
	PrevSite, Site     int  // indexes into build/sites.json
	PrevThread, Thread int  // thread ids
	PrevWrite, Write   bool // kinds of the two accesses
}

type thread struct {
	vc    vclock
	id    int
	wake  chan struct{}
	want  interface{} // mutex the thread is about to acquire (nil = none)
	cond  func() bool // Await: the thread is enabled only while this holds (nil = not waiting)
	done  bool
	fn    func()
	panic string
}

// Result describes one complete execution.
type Result struct {
	Deadlock    bool
	Blocked     []int // thread ids blocked at deadlock
	Steps       int
	Horizon     bool
	Panics      map[int]string
	Contended   int   // Lock points reached while the mutex was held by another thread
	Preemptions int   // choices that switched away from a thread that could have continued
	Schedule    []int // thread ids in the order they were given the CPU
	Races       []Race // first race per (previous site, site) pair, memory-access overlay only
	Accesses    int    // instrumented shared-memory accesses observed
	Addresses   int    // distinct instrumented addresses touched by managed threads
	SharedAddrs int    // ... of which touched by more than one thread
}

type Sched struct {
	ch       *core.Chooser
	threads  []*thread
	cur      *thread
	held     map[interface{}]int
	yield    chan struct{}
	clock    int
	res      Result
	FineMode bool // Unlock is a choice point too (cross-check of the Lock-only reduction)
	MaxSteps int
	mem      map[uintptr]*shadow
	mclk     map[interface{}]*mutexClock
	raceSeen map[[2]int]bool
}

// MemTrack turns on happens-before race checking of instrumented accesses (needs the memory-access overlay; without it
// no access is ever reported and the tracking is vacuous - HasMemOverlay tells).
var MemTrack = false

var runsSinceGC = 0

func (s *Sched) mc(m interface{}) *mutexClock {
	c := s.mclk[m]
	if c == nil {
		c = &mutexClock{}
		s.mclk[m] = c
	}
	return c
}

func (s *Sched) access(p unsafe.Pointer, site int, write bool) {
	t := s.cur
	if t == nil {
		return
	}
	s.res.Accesses++
	a := uintptr(p)
	sh := s.mem[a]
	if sh == nil {
		sh = &shadow{p: p, wT: -1}
		s.mem[a] = sh
	}
	report := func(pt int, psite int32, pw bool) {
		k := [2]int{int(psite), site}
		if s.raceSeen[k] {
			return
		}
		s.raceSeen[k] = true
		s.res.Races = append(s.res.Races, Race{PrevSite: int(psite), Site: site, PrevThread: pt, Thread: t.id, PrevWrite: pw, Write: write})
	}
	if sh.wT >= 0 && int(sh.wT) != t.id && sh.wClk > t.vc[sh.wT] {
		report(int(sh.wT), sh.wSite, true)
	}
	if write {
		for u := 0; u < maxThreads; u++ {
			if u != t.id && sh.rClk[u] > t.vc[u] {
				report(u, sh.rSite[u], false)
			}
		}
		sh.wT, sh.wClk, sh.wSite = int8(t.id), t.vc[t.id], int32(site)
	} else {
		sh.rClk[t.id], sh.rSite[t.id] = t.vc[t.id], int32(site)
	}
}

// Now returns the logical clock and advances it; harness logs use it to order events exactly.
func (s *Sched) Now() int { s.clock++; return s.clock }

// Await blocks the calling thread until cond holds (evaluated by the scheduler whenever it picks the next thread): the
// way harness code waits for another thread - a visible, schedulable wait, so "everybody waits" is a deadlock observation
// and not a hung process.
func (s *Sched) Await(cond func() bool) {
	t := s.cur
	if t == nil {
		return
	}
	t.cond = cond
	s.yield <- struct{}{}
	<-t.wake
	t.cond = nil
}

// Cur returns the id of the thread that is running.
func (s *Sched) Cur() int {
	if s.cur == nil {
		return -1
	}
	return s.cur.id
}

func (s *Sched) hook(op int, m interface{}) {
	t := s.cur
	switch op {
	case vsync.OpLock, vsync.OpRLock:
		if owner, isHeld := s.held[m]; isHeld && owner != t.id {
			s.res.Contended++
		}
		t.want = m
		s.yield <- struct{}{} // hand control to the scheduler: who runs next is a choice
		<-t.wake              // resumed only when the mutex is free
		t.want = nil
		s.held[m] = t.id
		if s.mem != nil {
			c := s.mc(m)
			t.vc.join(&c.w)
			if op == vsync.OpLock {
				t.vc.join(&c.r)
			}
		}
	case vsync.OpUnlock, vsync.OpRUnlock:
		if _, ok := s.held[m]; !ok {
			panic("sched: unlock of a mutex that is not held")
		}
		delete(s.held, m)
		if s.mem != nil {
			c := s.mc(m)
			if op == vsync.OpUnlock {
				c.w = t.vc
			} else {
				c.r.join(&t.vc)
			}
			t.vc[t.id]++
		}
		if s.FineMode {
			s.yield <- struct{}{}
			<-t.wake
		}
	}
}

// tryHook answers Mutex.TryLock: a choice point like Lock (who runs next is decided before the attempt), never blocking - the
// mutex is taken if nobody holds it when the thread is resumed.
func (s *Sched) tryHook(m interface{}) bool {
	t := s.cur
	s.yield <- struct{}{}
	<-t.wake
	if _, isHeld := s.held[m]; isHeld {
		s.res.Contended++
		return false
	}
	s.held[m] = t.id
	if s.mem != nil {
		c := s.mc(m)
		t.vc.join(&c.w)
		t.vc.join(&c.r)
	}
	return true
}

// Run executes the thread bodies under the schedule dictated by ch and returns what happened.
// It must be called with no other goroutine touching pkg/ggql.
func Run(ch *core.Chooser, fine bool, fns ...func(s *Sched)) *Result {
	s := &Sched{ch: ch, held: map[interface{}]int{}, yield: make(chan struct{}), FineMode: fine, MaxSteps: 10000}
	s.res.Panics = map[int]string{}
	if len(fns) > maxThreads {
		panic(core.EngineError{Msg: "sched: too many threads"})
	}
	if MemTrack {
		s.mem = map[uintptr]*shadow{}
		s.mclk = map[interface{}]*mutexClock{}
		s.raceSeen = map[[2]int]bool{}
		// no collection while threads run: an address observed in this execution is never reused in it
		debug.SetGCPercent(-1)
		vsync.Mem = s.access
		defer func() {
			vsync.Mem = nil
			if runsSinceGC++; runsSinceGC >= 32 {
				runsSinceGC = 0
				runtime.GC()
			}
		}()
	}
	for i, fn := range fns {
		t := &thread{id: i, wake: make(chan struct{})}
		t.vc[i] = 1
		fn := fn
		t.fn = func() { fn(s) }
		s.threads = append(s.threads, t)
	}
	if vsync.Hook != nil {
		panic(core.EngineError{Msg: "sched: a scheduler is already installed"})
	}
	vsync.Hook = s.hook
	vsync.HookTry = s.tryHook
	defer func() { vsync.Hook, vsync.HookTry = nil, nil }()
	for _, t := range s.threads {
		t := t
		go func() {
			<-t.wake
			defer func() {
				if r := recover(); r != nil {
					if ee, ok := r.(core.EngineError); ok {
						t.panic = "ENGINE: " + ee.Msg
					} else {
						t.panic = fmt.Sprintf("%v\n%s", r, debug.Stack())
					}
				}
				t.done = true
				s.yield <- struct{}{}
			}()
			t.fn()
		}()
	}
	var last *thread
	for {
		var enabled []*thread
		allDone := true
		for _, t := range s.threads {
			if t.done {
				continue
			}
			allDone = false
			if t.want != nil {
				if _, isHeld := s.held[t.want]; isHeld {
					continue
				}
			}
			if t.cond != nil && !t.cond() {
				continue
			}
			enabled = append(enabled, t)
		}
		if allDone {
			break
		}
		if len(enabled) == 0 {
			s.res.Deadlock = true
			for _, t := range s.threads {
				if !t.done {
					s.res.Blocked = append(s.res.Blocked, t.id)
				}
			}
			// the blocked goroutines are abandoned (they stay parked on their wake channel)
			break
		}
		if s.res.Steps >= s.MaxSteps {
			s.res.Horizon = true
			break
		}
		// canonical order: the thread that just ran first if still enabled, then ascending ids
		cost := 0
		if last != nil && !last.done {
			for i, t := range enabled {
				if t == last {
					enabled[0], enabled[i] = enabled[i], enabled[0]
					// keep the rest in ascending id order
					for a := 1; a < len(enabled); a++ {
						for b := a + 1; b < len(enabled); b++ {
							if enabled[b].id < enabled[a].id {
								enabled[a], enabled[b] = enabled[b], enabled[a]
							}
						}
					}
					cost = 1
					break
				}
			}
		}
		idx := 0
		if len(enabled) > 1 {
			idx = s.ch.Costed(len(enabled), cost, "sched")
		}
		next := enabled[idx]
		if cost == 1 && idx != 0 {
			s.res.Preemptions++
		}
		s.res.Steps++
		s.res.Schedule = append(s.res.Schedule, next.id)
		s.cur = next
		last = next
		next.wake <- struct{}{}
		<-s.yield
	}
	for _, t := range s.threads {
		if t.panic != "" {
			s.res.Panics[t.id] = t.panic
		}
	}
	s.cur = nil
	if s.mem != nil {
		s.res.Addresses = len(s.mem)
		for _, sh := range s.mem {
			n := 0
			for u := 0; u < maxThreads; u++ {
				if sh.rClk[u] > 0 || int(sh.wT) == u {
					n++
				}
			}
			if n > 1 {
				s.res.SharedAddrs++
			}
		}
	}
	return &s.res
}
