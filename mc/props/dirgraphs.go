package props

import (
	"fmt"
	"strings"
)

// Directive definition graphs (C13 rule "no definition cycles", C03 crash freedom): n directives dq0..dq<n-1>, each
// with argument x (and y when two), bit (i*n+j) of mask = argument x of dq<i> carries a use of @dq<j>; the second
// n*n bits do the same for y. Both locations a directive argument may be reported at are declared, so the uses are
// valid under either reading (finding C13-F1).
func dirGraphSDL(n int, mask uint64, two bool) string {
	var b strings.Builder
	for i := 0; i < n; i++ {
		fmt.Fprintf(&b, "directive @dq%d(x: Int", i)
		for j := 0; j < n; j++ {
			if mask&(1<<uint(i*n+j)) != 0 {
				fmt.Fprintf(&b, " @dq%d", j)
			}
		}
		if two {
			b.WriteString(", y: Int")
			for j := 0; j < n; j++ {
				if mask&(1<<uint(n*n+i*n+j)) != 0 {
					fmt.Fprintf(&b, " @dq%d", j)
				}
			}
		}
		b.WriteString(") on ARGUMENT_DEFINITION | INPUT_FIELD_DEFINITION\n")
	}
	b.WriteString("type Query { i: Int }\n")
	return b.String()
}

// dirGraphCycle reports which directives lie on a cycle of the use graph (self loops included).
func dirGraphCycle(n int, mask uint64, two bool) (onCycle []bool, cyclic bool) {
	adj := make([][]bool, n)
	for i := range adj {
		adj[i] = make([]bool, n)
		for j := 0; j < n; j++ {
			adj[i][j] = mask&(1<<uint(i*n+j)) != 0 || (two && mask&(1<<uint(n*n+i*n+j)) != 0)
		}
	}
	// reach[i][j]: a path of length >= 1 from i to j
	reach := make([][]bool, n)
	for i := range reach {
		reach[i] = append([]bool{}, adj[i]...)
	}
	for k := 0; k < n; k++ {
		for i := 0; i < n; i++ {
			for j := 0; j < n; j++ {
				if reach[i][k] && reach[k][j] {
					reach[i][j] = true
				}
			}
		}
	}
	onCycle = make([]bool, n)
	for i := 0; i < n; i++ {
		if reach[i][i] {
			onCycle[i] = true
			cyclic = true
		}
	}
	return
}
