package props

import (
	"fmt"
	"strings"
	"time"

	"github.com/uhn/ggql/pkg/ggql"

	"verif/mc/core"
	"verif/mc/world"
)

// C09 — @skip / @include follow GraphQL inclusion logic. The whole table is enumerated (DESIGN 5.9).

func init() {
	Register(&Check{
		ID:  "C09",
		Run: runC09,
		Rule: "complete product: skip source x include source in {absent, literal true/false, variable true/false, variable defaulted true/false} (49) x written order (2) " +
			"x selection kind {field, inline fragment, fragment spread} x depth {1,2,3} x strategy configurations; plus every ordered pair of variable assignments resolved on ONE parsed executable; oracle = inclusion formula via the reference executor incl. resolver call set; " +
			"distinct = table cells; non-trivial = at least one directive present",
		Technique:      "complete enumeration of a finite table on the real resolver against the inclusion formula",
		Assumptions:    []string{"reference executor implements: included iff not(skip true) and not(include false)"},
		QuickBudget:    60 * time.Second,
		ThoroughBudget: 5 * time.Minute,
	})
}

var c09Sources = []string{"absent", "lit-true", "lit-false", "var-true", "var-false", "vardef-true", "vardef-false"}

func runC09(c *core.Ctx) {
	s := world.Universe(world.UniverseOpts{})
	g0 := world.BaseGraph(0)
	gfs := g0.FSView(s)
	var idx int64
	// beside @skip / @include the selection may carry @trace(if: ...), a directive of the schema's own whose "if" is no inclusion
	// condition: absent, or one of four sources in front of / behind the other two - it must change nothing
	traces := []struct {
		src   string
		front bool
	}{{"absent", false}, {"lit-false", false}, {"lit-false", true}, {"var-false", false}, {"var-false", true}, {"vardef-false", true}, {"lit-true", false}}
	for si, ssrc := range c09Sources {
		for ii, isrc := range c09Sources {
			for order := 0; order < 2; order++ {
				for kind := 0; kind < 3; kind++ {
					for depth0 := 3; depth0 < 3+3*len(traces); depth0++ {
						depth, trace := depth0%3+1, traces[depth0/3-1]
						idx++
						if !c.OwnsIdx(idx) {
							continue
						}
						// build the directives
						var dirs []world.Dir
						var vdefs []world.VarDef
						vars := map[string]interface{}{}
						mk := func(name, src, vname string) {
							switch src {
							case "absent":
								return
							case "lit-true":
								dirs = append(dirs, world.Dir{Name: name, If: true})
							case "lit-false":
								dirs = append(dirs, world.Dir{Name: name, If: false})
							case "var-true", "var-false":
								vdefs = append(vdefs, world.VarDef{Name: vname, Type: "Boolean"})
								vars[vname] = src == "var-true"
								dirs = append(dirs, world.Dir{Name: name, If: world.VarRef(vname)})
							case "vardef-true", "vardef-false":
								vdefs = append(vdefs, world.VarDef{Name: vname, Type: "Boolean", HasDefault: true, Default: src == "vardef-true"})
								dirs = append(dirs, world.Dir{Name: name, If: world.VarRef(vname)})
							}
						}
						if trace.front {
							mk("trace", trace.src, "tr")
						}
						if order == 0 {
							mk("skip", ssrc, "sk")
							mk("include", isrc, "inc")
						} else {
							mk("include", isrc, "inc")
							mk("skip", ssrc, "sk")
						}
						if !trace.front {
							mk("trace", trace.src, "tr")
						}
						inner := world.F("mkid", world.F("id"), world.F("mi"))
						var target *world.Sel
						d := &world.Doc{}
						cont := "Query"
						if depth > 1 {
							cont = "A"
						}
						switch kind {
						case 0:
							target = inner.With(dirs...)
						case 1:
							target = world.In("", inner).With(dirs...)
						case 2:
							target = world.Sp("FX").With(dirs...)
							d.Frags = []*world.Frag{{Name: "FX", Cond: cont, Sels: []*world.Sel{inner}}}
						}
						sels := []*world.Sel{target, world.F("i")}
						for dd := depth; dd > 1; dd-- {
							name := "kid"
							if dd == 2 {
								name = "a"
							}
							sels = []*world.Sel{world.F(name, sels...), world.F("s")}
						}
						d.Ops = []*world.Op{{Type: "query", Name: "Q", Vars: vdefs, Sels: sels}}
						text := d.Render(world.LOneLine)
						if len(dirs) > 0 {
							c.Nontrivial()
						}
						ft := d.Features(s)
						for _, nc := range configsFor(s, ft, false) {
							g := g0
							if nc.Cfg.Strat == world.FS {
								g = gfs
							}
							ex := world.RefExec(s, g, d, "Q", vars, nil, world.RefOpts{})
							if ex.Features["excluded"] > 0 {
								c.Count("expect_excluded")
							} else {
								c.Count("expect_included")
							}
							c.Eval()
							root, run, err := world.BuildRoot(nc.Cfg, g)
							if err != nil {
								panic(core.EngineError{Msg: err.Error()})
							}
							o := world.Observe(root, run, text, "Q", vars)
							k, msg := compareExpect(s, g, ex, o, nc.Cfg.Strat, true)
							if k == "" {
								c.Outcome(fmt.Sprintf("agree-excluded=%v", ex.Features["excluded"] > 0))
								continue
							}
							c.Outcome(k)
							attrs := map[string]string{"skip": c09Sources[si], "include": c09Sources[ii], "order": []string{"skip-first", "include-first"}[order],
								"selection": []string{"field", "inline", "spread"}[kind], "trace": trace.src}
							if k == "panic" {
								attrs = map[string]string{"site": o.Panic.Site, "class": o.Panic.Class}
							}
							c.Violation(k, attrs, worldCase{Config: nc.Name, Query: text, Op: "Q", Vars: vars,
								Expected: map[string]interface{}{"data": ex.Data, "calls": expectedCalls(s, g, ex, nc.Cfg.Strat)}, Observed: o, Diff: msg})
						}
						sample(c, func() interface{} { return map[string]interface{}{"query": text, "vars": vars} })
					}
				}
			}
		}
	}
	// ---- the same table for selections made directly on an ABSTRACT container (a union list, an interface list) and for the
	// __typename meta field: inline fragment on a member, spread of a fragment on a member, __typename - x 49 x 2 orders
	for si, ssrc := range c09Sources {
		for ii, isrc := range c09Sources {
			for order := 0; order < 2; order++ {
				for kind := 0; kind < 3; kind++ {
					for cont := 0; cont < 3; cont++ {
						idx++
						if !c.OwnsIdx(idx) {
							continue
						}
						var dirs []world.Dir
						var vdefs []world.VarDef
						vars := map[string]interface{}{}
						mk := func(name, src, vname string) {
							switch src {
							case "absent":
								return
							case "lit-true":
								dirs = append(dirs, world.Dir{Name: name, If: true})
							case "lit-false":
								dirs = append(dirs, world.Dir{Name: name, If: false})
							case "var-true", "var-false":
								vdefs = append(vdefs, world.VarDef{Name: vname, Type: "Boolean"})
								vars[vname] = src == "var-true"
								dirs = append(dirs, world.Dir{Name: name, If: world.VarRef(vname)})
							case "vardef-true", "vardef-false":
								vdefs = append(vdefs, world.VarDef{Name: vname, Type: "Boolean", HasDefault: true, Default: src == "vardef-true"})
								dirs = append(dirs, world.Dir{Name: name, If: world.VarRef(vname)})
							}
						}
						if order == 0 {
							mk("skip", ssrc, "sk")
							mk("include", isrc, "inc")
						} else {
							mk("include", isrc, "inc")
							mk("skip", ssrc, "sk")
						}
						d := &world.Doc{}
						var target *world.Sel
						switch kind {
						case 0:
							target = world.In("A", world.F("id"), world.F("mi")).With(dirs...)
						case 1:
							target = world.Sp("FXA").With(dirs...)
							d.Frags = []*world.Frag{{Name: "FXA", Cond: "A", Sels: []*world.Sel{world.F("id"), world.F("mi")}}}
						case 2:
							target = world.F("__typename").With(dirs...)
						}
						var sels []*world.Sel
						switch cont {
						case 0:
							sels = []*world.Sel{world.F("us", target, world.In("B", world.F("s"))), world.F("i")}
						case 1:
							sels = []*world.Sel{world.F("nameds", target, world.F("name")), world.F("i")}
						case 2:
							if kind != 2 {
								continue
							}
							sels = []*world.Sel{target, world.F("a", target, world.F("id")), world.F("i")} // __typename at the root and under an object
						}
						d.Ops = []*world.Op{{Type: "query", Name: "Q", Vars: vdefs, Sels: sels}}
						text := d.Render(world.LOneLine)
						c.Nontrivial()
						for _, nc := range configsFor(s, d.Features(s), true) {
							g := g0
							if nc.Cfg.Strat == world.FS {
								g = gfs
							}
							ex := world.RefExec(s, g, d, "Q", vars, nil, world.RefOpts{})
							if ex.Invalid {
								continue
							}
							c.Eval()
							root, run, err := world.BuildRoot(nc.Cfg, g)
							if err != nil {
								panic(core.EngineError{Msg: err.Error()})
							}
							o := world.Observe(root, run, text, "Q", vars)
							k, msg := compareExpect(s, g, ex, o, nc.Cfg.Strat, true)
							if k == "" {
								c.Outcome("abstract-agree")
								continue
							}
							c.Outcome("abstract-" + k)
							attrs := map[string]string{"skip": c09Sources[si], "include": c09Sources[ii], "order": []string{"skip-first", "include-first"}[order],
								"selection": []string{"inline-on-member", "spread-on-member", "__typename"}[kind], "container": []string{"union", "interface", "object"}[cont]}
							if k == "panic" {
								attrs = map[string]string{"site": o.Panic.Site, "class": o.Panic.Class}
							}
							c.Violation(k, attrs, worldCase{Config: nc.Name, Query: text, Op: "Q", Vars: vars,
								Expected: map[string]interface{}{"data": ex.Data, "calls": expectedCalls(s, g, ex, nc.Cfg.Strat)}, Observed: o, Diff: msg})
						}
					}
				}
			}
		}
	}
	// ---- the selection written TWICE in one selection set, each occurrence with its own directive (9 x 9 states), adjacent or
	// with another field in between: the selection appears iff at least one occurrence is included (a spread, inline
	// fragment or field excluded at its first occurrence says nothing about the second)
	states := []string{"none", "skip-lit-true", "skip-lit-false", "include-lit-true", "include-lit-false", "skip-var-true", "skip-var-false", "include-var-true", "include-var-false"}
	for kind := 0; kind < 3; kind++ {
		for a := range states {
			for b := range states {
				for gap := 0; gap < 2; gap++ {
					idx++
					if !c.OwnsIdx(idx) {
						continue
					}
					c.Nontrivial()
					var vdefs []world.VarDef
					vars := map[string]interface{}{}
					dirOf := func(state, vname string) []world.Dir {
						parts := strings.SplitN(state, "-", 3)
						if len(parts) < 3 {
							return nil
						}
						val := parts[2] == "true"
						if parts[1] == "lit" {
							return []world.Dir{{Name: parts[0], If: val}}
						}
						vdefs = append(vdefs, world.VarDef{Name: vname, Type: "Boolean"})
						vars[vname] = val
						return []world.Dir{{Name: parts[0], If: world.VarRef(vname)}}
					}
					d := &world.Doc{}
					mkSel := func(dirs []world.Dir) *world.Sel {
						inner := world.F("mkid", world.F("id"), world.F("mi"))
						switch kind {
						case 0:
							return inner.With(dirs...)
						case 1:
							return world.In("", inner).With(dirs...)
						}
						return world.Sp("FX").With(dirs...)
					}
					if kind == 2 {
						d.Frags = []*world.Frag{{Name: "FX", Cond: "Query", Sels: []*world.Sel{world.F("mkid", world.F("id"), world.F("mi"))}}}
					}
					sels := []*world.Sel{mkSel(dirOf(states[a], "v1"))}
					if gap == 1 {
						sels = append(sels, world.F("i"))
					}
					sels = append(sels, mkSel(dirOf(states[b], "v2")), world.F("s"))
					d.Ops = []*world.Op{{Type: "query", Name: "Q", Vars: vdefs, Sels: sels}}
					text := d.Render(world.LOneLine)
					for _, nc := range configsFor(s, d.Features(s), false) {
						g := g0
						if nc.Cfg.Strat == world.FS {
							g = gfs
						}
						ex := world.RefExec(s, g, d, "Q", vars, nil, world.RefOpts{})
						if ex.Invalid {
							continue
						}
						c.Eval()
						root, run, err := world.BuildRoot(nc.Cfg, g)
						if err != nil {
							panic(core.EngineError{Msg: err.Error()})
						}
						o := world.Observe(root, run, text, "Q", vars)
						k, msg := compareExpect(s, g, ex, o, nc.Cfg.Strat, true)
						if k == "" {
							c.Outcome("twice-agree")
							continue
						}
						c.Outcome("twice-" + k)
						attrs := map[string]string{"twice": states[a] + "+" + states[b], "selection": []string{"field", "inline", "spread"}[kind]}
						if k == "panic" {
							attrs = map[string]string{"site": o.Panic.Site, "class": o.Panic.Class}
						}
						c.Violation(k, attrs, worldCase{Config: nc.Name, Query: text, Op: "Q", Vars: vars,
							Expected: map[string]interface{}{"data": ex.Data, "calls": expectedCalls(s, g, ex, nc.Cfg.Strat)}, Observed: o, Diff: msg})
					}
				}
			}
		}
	}
	// ---- reuse: ONE parsed executable resolved under every assignment of the two variables in every order of two calls
	// (the verdict of a variable condition must not stick to the parsed request)
	for kind := 0; kind < 3; kind++ {
		for order := 0; order < 2; order++ {
			// per call: both variables supplied (4 assignments), none supplied (the defaults decide), only one supplied (2 + 2)
			for first := 0; first < 9; first++ {
				for second := 0; second < 9; second++ {
					idx++
					if !c.OwnsIdx(idx) {
						continue
					}
					c.Nontrivial()
					dirs := []world.Dir{{Name: "skip", If: world.VarRef("sk")}, {Name: "include", If: world.VarRef("inc")}}
					if order == 1 {
						dirs[0], dirs[1] = dirs[1], dirs[0]
					}
					inner := world.F("mkid", world.F("id"), world.F("mi"))
					d := &world.Doc{}
					var target *world.Sel
					switch kind {
					case 0:
						target = inner.With(dirs...)
					case 1:
						target = world.In("", inner).With(dirs...)
					case 2:
						target = world.Sp("FX").With(dirs...)
						d.Frags = []*world.Frag{{Name: "FX", Cond: "Query", Sels: []*world.Sel{inner}}}
					}
					d.Ops = []*world.Op{{Type: "query", Name: "Q", Vars: []world.VarDef{{Name: "sk", Type: "Boolean", HasDefault: true, Default: false}, {Name: "inc", Type: "Boolean", HasDefault: true, Default: true}},
						Sels: []*world.Sel{target, world.F("i")}}}
					text := d.Render(world.LOneLine)
					for _, nc := range configsFor(s, d.Features(s), false) {
						g := g0
						if nc.Cfg.Strat == world.FS {
							g = gfs
						}
						root, run, err := world.BuildRoot(nc.Cfg, g)
						if err != nil {
							panic(core.EngineError{Msg: err.Error()})
						}
						exe, perr := root.ParseExecutableString(text)
						if perr != nil {
							panic(core.EngineError{Msg: "C09 reuse document refused: " + perr.Error()})
						}
						for step, code := range []int{first, second} {
							vars := map[string]interface{}{}
							switch {
							case code < 4:
								vars["sk"], vars["inc"] = code&1 == 1, code&2 == 0
							case code == 4:
								// nothing supplied
							case code < 7:
								vars["sk"] = code == 5
							default:
								vars["inc"] = code == 7
							}
							ex := world.RefExec(s, g, d, "Q", vars, nil, world.RefOpts{})
							c.Eval()
							run.Log = nil
							var res map[string]interface{}
							var rerr error
							if pi := core.Safe(func() { res, rerr = root.ResolveExecutable(exe, "Q", vars) }); pi != nil {
								c.Violation("panic", map[string]string{"site": pi.Site, "class": pi.Class}, map[string]interface{}{"query": text, "vars": vars})
								break
							}
							o := &world.Obs{}
							if res == nil {
								res = map[string]interface{}{}
							}
							if rerr != nil {
								res["errors"] = []interface{}{map[string]interface{}{"message": rerr.Error()}}
							}
							o.FillFrom(res, run)
							if k, msg := compareExpect(s, g, ex, o, nc.Cfg.Strat, true); k != "" {
								c.Outcome("reuse-" + k)
								c.Violation(k, map[string]string{"reuse": "same-parsed-executable", "selection": []string{"field", "inline", "spread"}[kind], "step": fmt.Sprint(step)},
									worldCase{Config: nc.Name, Query: text, Op: "Q", Vars: vars, Expected: map[string]interface{}{"data": ex.Data}, Observed: o, Diff: fmt.Sprintf("call %d on one parsed executable: %s", step+1, msg)})
								break
							}
							c.Outcome("reuse-agree")
						}
					}
				}
			}
		}
	}
	// ---- conditions below the meta-fields (__schema, __type, __typename), ONE parsed executable resolved under every ordered pair
	// of variable assignments: what introspection answers is schema data, the selection on it follows the variables of each call
	{
		const text = `query Q($sk: Boolean = false, $inc: Boolean = true) { __schema { queryType { name kind @skip(if: $sk) } q2: queryType @include(if: $inc) { name } ... @skip(if: $sk) { mutationType { name } } } __type(name: "A") { name kind @include(if: $inc) } t: __typename @skip(if: $sk) }`
		var midx int64
		for first := 0; first < 5; first++ {
			for second := 0; second < 5; second++ {
				midx++
				if !c.OwnsIdx(1<<45 + midx) {
					continue
				}
				c.R.Distinct++
				c.Nontrivial()
				root, _, err := world.BuildRoot(world.Config{Strat: world.RS, Schema: s}, g0)
				if err != nil {
					panic(core.EngineError{Msg: err.Error()})
				}
				exe, perr := root.ParseExecutableString(text)
				if perr != nil {
					panic(core.EngineError{Msg: "C09 meta-field document refused: " + perr.Error()})
				}
				for step, code := range []int{first, second} {
					vars := map[string]interface{}{}
					sk, inc := false, true
					if code < 4 {
						sk, inc = code&1 == 1, code&2 == 0
						vars["sk"], vars["inc"] = sk, inc
					}
					c.Eval()
					var res map[string]interface{}
					var rerr error
					if pi := core.Safe(func() { res, rerr = root.ResolveExecutable(exe, "Q", vars) }); pi != nil {
						c.Violation("panic", map[string]string{"site": pi.Site, "class": pi.Class}, map[string]interface{}{"query": text, "vars": vars})
						break
					}
					var bad []string
					has := func(path ...string) bool {
						var cur interface{} = res["data"]
						if cur == nil {
							cur = map[string]interface{}(res)
						}
						for _, k := range path {
							m, _ := cur.(map[string]interface{})
							v, ok := m[k]
							if !ok {
								return false
							}
							cur = v
						}
						return true
					}
					expect := func(want bool, path ...string) {
						if has(path...) != want {
							bad = append(bad, fmt.Sprintf("%v present=%v, want %v", path, !want, want))
						}
					}
					expect(true, "__schema", "queryType", "name")
					expect(!sk, "__schema", "queryType", "kind")
					expect(inc, "__schema", "q2")
					expect(!sk, "__schema", "mutationType")
					expect(true, "__type", "name")
					expect(inc, "__type", "kind")
					expect(!sk, "t")
					if rerr != nil || len(bad) > 0 {
						c.Outcome("reuse-meta-diff")
						c.Violation("data-diff", map[string]string{"reuse": "same-parsed-executable", "selection": "meta-fields", "step": fmt.Sprint(step)},
							map[string]interface{}{"query": text, "vars": vars, "step": step, "diff": bad, "error": fmt.Sprint(rerr), "response": res})
						break
					}
					c.Outcome("reuse-meta-agree")
				}
			}
		}
	}
	// ---- conditions on the payload of subscription events: the request is resolved once, its selection is evaluated again for
	// every event with the variables of the request as they were then (given, or left to their defaults). Complete table:
	// directive x {literal, variable given, variable left to its default} x value, on a field and on an inline fragment, for
	// two variables at once; one event published; the payload holds exactly the selections the formula keeps.
	{
		type src struct {
			name string
			text string // the condition as written
			decl string // variable declaration ("" = none)
			vars map[string]interface{}
			val  bool
		}
		srcs := func(vn string) []src {
			return []src{
				{"literal-true", "true", "", nil, true}, {"literal-false", "false", "", nil, false},
				{"variable-given-true", "$" + vn, "$" + vn + ": Boolean", map[string]interface{}{vn: true}, true},
				{"variable-given-false", "$" + vn, "$" + vn + ": Boolean", map[string]interface{}{vn: false}, false},
				{"variable-default-true", "$" + vn, "$" + vn + ": Boolean = true", nil, true},
				{"variable-default-false", "$" + vn, "$" + vn + ": Boolean = false", nil, false},
				{"variable-given-over-default", "$" + vn, "$" + vn + ": Boolean = true", map[string]interface{}{vn: false}, false},
			}
		}
		var sidx int64
		for _, d1 := range []string{"skip", "include"} {
			for _, s1 := range srcs("p") {
				for _, d2 := range []string{"skip", "include"} {
					for _, s2 := range srcs("q") {
						for _, prepared := range []bool{false, true} {
							sidx++
							if !c.OwnsIdx(1<<42 + sidx) {
								continue
							}
							c.Eval()
							c.R.Distinct++
							c.Nontrivial()
							var decls []string
							vars := map[string]interface{}{}
							for _, sx := range []src{s1, s2} {
								if sx.decl != "" {
									decls = append(decls, sx.decl)
								}
								for k, v := range sx.vars {
									vars[k] = v
								}
							}
							head := "subscription S"
							if len(decls) > 0 {
								head += "(" + strings.Join(decls, ", ") + ")"
							}
							q := fmt.Sprintf("%s { ev(id: \"x\") { name @%s(if: %s) ... @%s(if: %s) { n } } }", head, d1, s1.text, d2, s2.text)
							keep := func(d string, v bool) bool { return (d == "skip") != v }
							want := map[string]interface{}{}
							if keep(d1, s1.val) {
								want["name"] = "one"
							}
							if keep(d2, s2.val) {
								want["n"] = 1
							}
							h := newC19H(false)
							h.labels = 1 // the one subscription request made below
							var res map[string]interface{}
							var cnt int
							var perr error
							pi := core.Safe(func() {
								if prepared {
									exe, err := h.root.ParseExecutableString(q)
									if err != nil {
										panic(core.EngineError{Msg: "C09 subscription request refused: " + err.Error()})
									}
									var rerr error
									if res, rerr = h.root.ResolveExecutable(exe, "", vars); rerr != nil {
										res = map[string]interface{}{"errors": ggql.FormErrorsResult(rerr)}
									}
								} else {
									res = h.root.ResolveString(q, "", vars)
								}
								// between the subscribe request and the event: another request that declares variables of the same names
								// with the opposite values (on the same root and on another one) - the subscription keeps its own
								_ = h.root.ResolveString("query X($p: Boolean, $q: Boolean, $z: Int = 3) { i }", "", map[string]interface{}{"p": !s1.val, "q": !s2.val})
								_ = newC19H(false).root.ResolveString("query X($p: Boolean = true, $q: Boolean = true) { i }", "", map[string]interface{}{"q": !s2.val})
								cnt, perr = h.root.AddEvent("x", &c19EvRes{map[string]interface{}{"name": "one", "n": 1}})
							})
							detail := map[string]interface{}{"request": q, "vars": vars, "prepared": prepared, "subscribe_response": res, "log": h.log, "want_payload": want}
							attrs := map[string]string{"part": "subscription-event", "d1": d1 + ":" + s1.name, "d2": d2 + ":" + s2.name}
							switch {
							case pi != nil:
								c.Violation("panic", map[string]string{"site": pi.Site, "class": pi.Class}, detail)
							case res["errors"] != nil:
								detail["diff"] = "the subscription request was refused"
								c.Violation("subscription-refused", attrs, detail)
							case cnt != 1 || perr != nil:
								detail["diff"] = fmt.Sprintf("publish: matched %d, error %v", cnt, perr)
								c.Outcome("event-error")
								c.Violation("event-diff", attrs, detail)
							default:
								wantLine := "send:1:" + string(toJSON(world.Canon(map[string]interface{}{"ev": want})))
								got := ""
								for _, l := range h.log {
									if strings.HasPrefix(l, "send:") {
										got = l
									}
								}
								// the payload may or may not be wrapped in the field name: compare the innermost object
								if got != wantLine && got != "send:1:"+string(toJSON(world.Canon(want))) && got != "send:1:"+string(toJSON(world.Canon(map[string]interface{}{"data": map[string]interface{}{"ev": want}}))) {
									detail["diff"] = "payload " + got + ", want " + wantLine
									c.Outcome("event-diff")
									c.Violation("event-diff", attrs, detail)
								} else {
									c.Outcome("event-agree")
								}
							}
						}
					}
				}
			}
		}
	}
	c.R.Bound = "complete table 49 x 2 x 3 x 3 x 7 (a directive of the schema with an if argument beside them) x configurations; the same for selections directly on a union / interface container and for __typename; the selection written twice (9 x 9 directive states x 3 kinds x 2 spacings); + all ordered pairs of 9 variable maps (supplied / omitted) on one parsed executable; + conditions below __schema / __type / __typename under all ordered pairs of 5 variable assignments on one parsed executable; + the payload of a subscription event: 2 directives x 7 condition sources, squared, parsed afresh and prepared"
}
