// Package core holds the pieces every check shares: the per-worker context
// (sharding, de-duplication, counters, samples, violations), the merged result
// and the evidence / known-findings plumbing used by the driver.
package core

import (
	"encoding/json"
	"fmt"
	"hash/fnv"
	"os"
	"sort"
	"strings"
	"time"
)

// Violation is one case on which the oracle of a property failed.
type Violation struct {
	Property string            `json:"property"`
	Kind     string            `json:"kind"`            // mechanism class, e.g. "data-diff"
	Attrs    map[string]string `json:"attrs,omitempty"` // narrow mechanism descriptors the findings file matches on
	Detail   interface{}       `json:"detail"`          // replayable case: rendered inputs + expected/observed
	Finding  string            `json:"finding,omitempty"`
}

func (v *Violation) Key() string {
	keys := make([]string, 0, len(v.Attrs))
	for k := range v.Attrs {
		keys = append(keys, k)
	}
	sort.Strings(keys)
	var b strings.Builder
	b.WriteString(v.Kind)
	for _, k := range keys {
		b.WriteString("|" + k + "=" + v.Attrs[k])
	}
	return b.String()
}

// Result is what one worker reports and what the driver merges.
type Result struct {
	Evaluations int64            `json:"evaluations"`
	Distinct    int64            `json:"distinct"`
	Nontrivial  int64            `json:"nontrivial"`
	Transitions int64            `json:"transitions"`
	Counters    map[string]int64 `json:"counters"`
	Outcomes    map[string]int64 `json:"outcomes"`
	Samples     []interface{}    `json:"samples"`
	Violations  []Violation      `json:"violations"`
	ViolCount   map[string]int64 `json:"viol_count"` // per key, all occurrences (Violations keeps a few per key)
	Caps        []string         `json:"caps"`
	Bound       string           `json:"bound"`
	Exhaustive  bool             `json:"exhaustive"`
	Notes       []string         `json:"notes"`
	EngineErr   string           `json:"engine_err,omitempty"`
}

// Ctx is handed to a check's Run function inside one worker.
type Ctx struct {
	Prop     string
	Tier     string // quick | thorough
	Shard    int
	NShards  int
	Deadline time.Time
	R        Result
	seen     map[uint64]struct{}
	nsample  int64

	// resumable checks: cases are numbered; a restarted worker skips those up to Resume
	Resume  int64
	caseCtr int64
}

// NextCase numbers a case, publishes it (so that a crash or hang in it is attributable) and reports whether it
// must be executed: false while catching up after a restart.
func (c *Ctx) NextCase(describe string) bool {
	c.caseCtr++
	if c.caseCtr <= c.Resume {
		return false
	}
	AnnounceCase(c.caseCtr, describe)
	return true
}

func NewCtx(prop, tier string, shard, n int, deadline time.Time) *Ctx {
	return &Ctx{Prop: prop, Tier: tier, Shard: shard, NShards: n, Deadline: deadline,
		R:    Result{Counters: map[string]int64{}, Outcomes: map[string]int64{}, ViolCount: map[string]int64{}, Exhaustive: true},
		seen: map[uint64]struct{}{}}
}

func (c *Ctx) Thorough() bool { return c.Tier == "thorough" }

func Hash(s string) uint64 {
	h := fnv.New64a()
	_, _ = h.Write([]byte(s))
	return h.Sum64()
}

// Owns reports whether this worker should execute the case with the given
// canonical key: the case hashes to this shard and has not been seen before.
// It also maintains the distinct-case counter (shards are disjoint by hash, so
// the merged count is a plain sum).
func (c *Ctx) Owns(key string) bool {
	h := Hash(key)
	if int(h%uint64(c.NShards)) != c.Shard {
		return false
	}
	if _, ok := c.seen[h]; ok {
		return false
	}
	c.seen[h] = struct{}{}
	c.R.Distinct++
	return true
}

// OwnsIdx shards by a plain index (for enumerations that are duplicate-free by construction).
func (c *Ctx) OwnsIdx(i int64) bool {
	if int(i%int64(c.NShards)) != c.Shard {
		return false
	}
	c.R.Distinct++
	return true
}

func (c *Ctx) Eval()                   { c.R.Evaluations++; c.R.Transitions++ }
func (c *Ctx) Nontrivial()             { c.R.Nontrivial++ }
func (c *Ctx) Count(name string)       { c.R.Counters[name]++ }
func (c *Ctx) CountN(n string, k int64) { c.R.Counters[n] += k }
func (c *Ctx) Outcome(name string)     { c.R.Outcomes[name]++ }
func (c *Ctx) Note(s string)           { c.R.Notes = append(c.R.Notes, s) }
func (c *Ctx) Cap(s string)            { c.R.Caps = append(c.R.Caps, s); c.R.Exhaustive = false }
func (c *Ctx) Expired() bool           { return time.Now().After(c.Deadline) }

// Sample keeps the 1st, 2nd, 4th, 8th ... case seen by shard 0..N (at most ~24 per worker).
func (c *Ctx) Sample(f func() interface{}) {
	c.nsample++
	if c.nsample&(c.nsample-1) == 0 && len(c.R.Samples) < 24 {
		c.R.Samples = append(c.R.Samples, f())
	}
}

// Violation records a violation; at most 3 full details per key are kept.
func (c *Ctx) Violation(kind string, attrs map[string]string, detail interface{}) {
	v := Violation{Property: c.Prop, Kind: kind, Attrs: attrs, Detail: detail}
	k := v.Key()
	c.R.ViolCount[k]++
	if c.R.ViolCount[k] <= 3 {
		c.R.Violations = append(c.R.Violations, v)
	}
}

// Merge adds o into r.
func (r *Result) Merge(o *Result) {
	r.Evaluations += o.Evaluations
	r.Distinct += o.Distinct
	r.Nontrivial += o.Nontrivial
	r.Transitions += o.Transitions
	for k, v := range o.Counters {
		r.Counters[k] += v
	}
	for k, v := range o.Outcomes {
		r.Outcomes[k] += v
	}
	for k, v := range o.ViolCount {
		r.ViolCount[k] += v
	}
	r.Samples = append(r.Samples, o.Samples...)
	r.Violations = append(r.Violations, o.Violations...)
	for _, c := range o.Caps {
		dup := false
		for _, x := range r.Caps {
			if x == c {
				dup = true
			}
		}
		if !dup {
			r.Caps = append(r.Caps, c)
		}
	}
	for _, n := range o.Notes {
		dup := false
		for _, x := range r.Notes {
			if x == n {
				dup = true
			}
		}
		if !dup {
			r.Notes = append(r.Notes, n)
		}
	}
	if o.Bound != "" {
		r.Bound = o.Bound
	}
	if !o.Exhaustive {
		r.Exhaustive = false
	}
	if o.EngineErr != "" {
		r.EngineErr = o.EngineErr
	}
}

// ---------------------------------------------------------------- findings

// Finding is one line of /verif/known_findings.jsonl.
type Finding struct {
	Property string            `json:"property"`
	ID       string            `json:"id"`
	Status   string            `json:"status"` // open | fixed
	Kind     string            `json:"kind"`
	Match    map[string]string `json:"match"` // every key must equal the violation's attr ("*" suffix = prefix match)
	What     string            `json:"what"`
	Example  interface{}       `json:"example,omitempty"`
	Commit   string            `json:"commit,omitempty"`
}

func LoadFindings(path string) ([]Finding, error) {
	b, err := os.ReadFile(path)
	if err != nil {
		if os.IsNotExist(err) {
			return nil, nil
		}
		return nil, err
	}
	var out []Finding
	for i, line := range strings.Split(string(b), "\n") {
		line = strings.TrimSpace(line)
		if line == "" || strings.HasPrefix(line, "#") || strings.HasPrefix(line, "fixed:") {
			continue
		}
		var f Finding
		if err := json.Unmarshal([]byte(line), &f); err != nil {
			return nil, fmt.Errorf("known_findings line %d: %w", i+1, err)
		}
		out = append(out, f)
	}
	return out, nil
}

// MatchFinding returns the id of the first open finding that matches v, or "".
func MatchFinding(fs []Finding, v *Violation) string {
	for _, f := range fs {
		if f.Status != "open" || f.Property != v.Property || (f.Kind != "" && f.Kind != v.Kind) {
			continue
		}
		ok := true
		for k, want := range f.Match {
			got, has := v.Attrs[k]
			if !has {
				ok = false
				break
			}
			if strings.HasSuffix(want, "*") {
				if !strings.HasPrefix(got, strings.TrimSuffix(want, "*")) {
					ok = false
					break
				}
			} else if got != want {
				ok = false
				break
			}
		}
		if ok {
			return f.ID
		}
	}
	return ""
}
