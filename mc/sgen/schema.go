// Package sgen is the abstract schema used by the schema-family checks (C13-C17): definitions of all
// six kinds plus directives and the schema block, descriptions, defaults, directive uses and extend
// blocks, a renderer to SDL with arrangements, a conversion to ggql types for the AddTypes route, a
// reader that rebuilds the abstract form from a loaded root through the public API, an independent
// rule checker (refschema) and a canonical order-insensitive description.
package sgen

import (
	"fmt"
	"sort"
	"strings"

	"verif/mc/world"
)

type T = world.T

var (
	N  = world.N
	L  = world.L
	NN = world.NN
)

type Kind string

const (
	KObject    Kind = "OBJECT"
	KInterface Kind = "INTERFACE"
	KUnion     Kind = "UNION"
	KEnum      Kind = "ENUM"
	KInput     Kind = "INPUT_OBJECT"
	KScalar    Kind = "SCALAR"
	KDirective Kind = "DIRECTIVE"
)

// Val is a constant value: nil, bool, int, float64, string, world.EnumLit, []interface{}, map[string]interface{}.
type Val = interface{}

type KV struct {
	Name  string
	Value Val
}

type DirUse struct {
	Name string
	Args []KV
}

type Arg struct {
	Name    string
	Desc    string
	Type    *T
	Default Val
	HasDef  bool
	Dirs    []DirUse
}

// Field is an object/interface field (Args) or an input field (Default).
type Field struct {
	Name    string
	Desc    string
	Type    *T
	Args    []*Arg
	Default Val
	HasDef  bool
	Dirs    []DirUse
}

type EnumVal struct {
	Name string
	Desc string
	Dirs []DirUse
}

type Def struct {
	Kind       Kind
	Name       string
	Desc       string
	Fields     []*Field
	Implements []string
	Members    []string
	Values     []*EnumVal
	Dirs       []DirUse
	// directives
	Args      []*Arg
	Locations []string
	// an "extend" block (contributes members to the definition of the same name)
	Extend bool
}

type SchemaBlock struct {
	Query, Mutation, Subscription string
	Dirs                          []DirUse
	Extend                        bool
}

type Schema struct {
	Defs   []*Def
	Blocks []*SchemaBlock // schema {...} and extend schema {...} blocks, in order
}

func (s *Schema) Def(name string) *Def {
	for _, d := range s.Defs {
		if d.Name == name && !d.Extend && d.Kind != KDirective {
			return d
		}
	}
	return nil
}

func (s *Schema) Directive(name string) *Def {
	for _, d := range s.Defs {
		if d.Name == name && d.Kind == KDirective {
			return d
		}
	}
	return nil
}

func (d *Def) Field(name string) *Field {
	for _, f := range d.Fields {
		if f.Name == name {
			return f
		}
	}
	return nil
}

// ---------------------------------------------------------------- deep copy

func (s *Schema) Clone() *Schema {
	ns := &Schema{}
	for _, d := range s.Defs {
		ns.Defs = append(ns.Defs, d.Clone())
	}
	for _, b := range s.Blocks {
		nb := *b
		nb.Dirs = cloneDirs(b.Dirs)
		ns.Blocks = append(ns.Blocks, &nb)
	}
	return ns
}

func cloneT(t *T) *T {
	if t == nil {
		return nil
	}
	return &T{K: t.K, Name: t.Name, Of: cloneT(t.Of)}
}

func cloneVal(v Val) Val {
	switch tv := v.(type) {
	case []interface{}:
		out := make([]interface{}, len(tv))
		for i, e := range tv {
			out[i] = cloneVal(e)
		}
		return out
	case map[string]interface{}:
		out := map[string]interface{}{}
		for k, e := range tv {
			out[k] = cloneVal(e)
		}
		return out
	}
	return v
}

func cloneDirs(ds []DirUse) []DirUse {
	if ds == nil {
		return nil
	}
	out := make([]DirUse, len(ds))
	for i, d := range ds {
		out[i] = DirUse{Name: d.Name}
		for _, a := range d.Args {
			out[i].Args = append(out[i].Args, KV{a.Name, cloneVal(a.Value)})
		}
	}
	return out
}

func cloneArgs(as []*Arg) []*Arg {
	var out []*Arg
	for _, a := range as {
		na := *a
		na.Type = cloneT(a.Type)
		na.Default = cloneVal(a.Default)
		na.Dirs = cloneDirs(a.Dirs)
		out = append(out, &na)
	}
	return out
}

func (d *Def) Clone() *Def {
	nd := *d
	nd.Fields = nil
	for _, f := range d.Fields {
		nf := *f
		nf.Type = cloneT(f.Type)
		nf.Args = cloneArgs(f.Args)
		nf.Default = cloneVal(f.Default)
		nf.Dirs = cloneDirs(f.Dirs)
		nd.Fields = append(nd.Fields, &nf)
	}
	nd.Implements = append([]string{}, d.Implements...)
	nd.Members = append([]string{}, d.Members...)
	nd.Values = nil
	for _, v := range d.Values {
		nv := *v
		nv.Dirs = cloneDirs(v.Dirs)
		nd.Values = append(nd.Values, &nv)
	}
	nd.Dirs = cloneDirs(d.Dirs)
	nd.Args = cloneArgs(d.Args)
	nd.Locations = append([]string{}, d.Locations...)
	return &nd
}

// ---------------------------------------------------------------- rendering

func ValText(v Val) string { return world.ValueText(v) }

// DescText renders a description as a single-line GraphQL string literal (escapes for quotes, backslashes,
// newlines and control characters), so that what the loader must read is unambiguous.
func DescText(desc, indent string) string {
	if desc == "" {
		return ""
	}
	return indent + world.GQLQuote(desc) + "\n"
}

func dirsText(ds []DirUse) string {
	var b strings.Builder
	for _, d := range ds {
		b.WriteString(" @" + d.Name)
		if len(d.Args) > 0 {
			parts := make([]string, len(d.Args))
			for i, a := range d.Args {
				parts[i] = a.Name + ": " + ValText(a.Value)
			}
			b.WriteString("(" + strings.Join(parts, ", ") + ")")
		}
	}
	return b.String()
}

func argsText(as []*Arg) string {
	if len(as) == 0 {
		return ""
	}
	parts := make([]string, len(as))
	for i, a := range as {
		p := ""
		if a.Desc != "" {
			p = strings.TrimRight(DescText(a.Desc, ""), "\n") + " "
		}
		p += a.Name + ": " + a.Type.String()
		if a.HasDef {
			p += " = " + ValText(a.Default)
		}
		p += dirsText(a.Dirs)
		parts[i] = p
	}
	return "(" + strings.Join(parts, ", ") + ")"
}

// Text renders one definition.
func (d *Def) Text() string {
	var b strings.Builder
	b.WriteString(DescText(d.Desc, ""))
	ext := ""
	if d.Extend {
		ext = "extend "
	}
	switch d.Kind {
	case KObject, KInterface, KInput:
		kw := map[Kind]string{KObject: "type", KInterface: "interface", KInput: "input"}[d.Kind]
		b.WriteString(ext + kw + " " + d.Name)
		if len(d.Implements) > 0 {
			b.WriteString(" implements " + strings.Join(d.Implements, " & "))
		}
		b.WriteString(dirsText(d.Dirs))
		if len(d.Fields) > 0 || !d.Extend {
			b.WriteString(" {\n")
			for _, f := range d.Fields {
				b.WriteString(DescText(f.Desc, "  "))
				b.WriteString("  " + f.Name + argsText(f.Args) + ": " + f.Type.String())
				if f.HasDef {
					b.WriteString(" = " + ValText(f.Default))
				}
				b.WriteString(dirsText(f.Dirs) + "\n")
			}
			b.WriteString("}")
		}
		b.WriteString("\n")
	case KUnion:
		b.WriteString(ext + "union " + d.Name + dirsText(d.Dirs))
		if len(d.Members) > 0 {
			b.WriteString(" = " + strings.Join(d.Members, " | "))
		}
		b.WriteString("\n")
	case KEnum:
		b.WriteString(ext + "enum " + d.Name + dirsText(d.Dirs))
		if len(d.Values) > 0 || !d.Extend {
			b.WriteString(" {\n")
			for _, v := range d.Values {
				b.WriteString(DescText(v.Desc, "  "))
				b.WriteString("  " + v.Name + dirsText(v.Dirs) + "\n")
			}
			b.WriteString("}")
		}
		b.WriteString("\n")
	case KScalar:
		b.WriteString(ext + "scalar " + d.Name + dirsText(d.Dirs) + "\n")
	case KDirective:
		b.WriteString("directive @" + d.Name + argsText(d.Args) + " on " + strings.Join(d.Locations, " | ") + "\n")
	}
	return b.String()
}

func (sb *SchemaBlock) Text() string {
	var b strings.Builder
	if sb.Extend {
		b.WriteString("extend ")
	}
	b.WriteString("schema" + dirsText(sb.Dirs))
	if sb.Query != "" || sb.Mutation != "" || sb.Subscription != "" {
		b.WriteString(" {\n")
		if sb.Query != "" {
			b.WriteString("  query: " + sb.Query + "\n")
		}
		if sb.Mutation != "" {
			b.WriteString("  mutation: " + sb.Mutation + "\n")
		}
		if sb.Subscription != "" {
			b.WriteString("  subscription: " + sb.Subscription + "\n")
		}
		b.WriteString("}")
	}
	b.WriteString("\n")
	return b.String()
}

// Unit is one renderable top-level item.
type Unit struct {
	Def   *Def
	Block *SchemaBlock
}

func (u Unit) Text() string {
	if u.Def != nil {
		return u.Def.Text()
	}
	return u.Block.Text()
}

func (u Unit) Label() string {
	if u.Def != nil {
		p := ""
		if u.Def.Extend {
			p = "extend "
		}
		return p + string(u.Def.Kind) + " " + u.Def.Name
	}
	if u.Block.Extend {
		return "extend schema"
	}
	return "schema"
}

// Units lists the top-level items in their canonical order: schema blocks first, then definitions.
func (s *Schema) Units() []Unit {
	var out []Unit
	for _, b := range s.Blocks {
		out = append(out, Unit{Block: b})
	}
	for _, d := range s.Defs {
		out = append(out, Unit{Def: d})
	}
	return out
}

// SDL renders the whole schema as one document in canonical unit order.
func (s *Schema) SDL() string {
	var parts []string
	for _, u := range s.Units() {
		parts = append(parts, u.Text())
	}
	return strings.Join(parts, "\n")
}

// RootTypes returns the effective operation root type names.
func (s *Schema) RootTypes() (q, m, sub string) {
	explicit := false
	for _, b := range s.Blocks {
		if b.Extend {
			continue // an extension of the implicit schema does not make it explicit: handled below
		}
		if b.Query != "" || b.Mutation != "" || b.Subscription != "" {
			explicit = true
		}
		if b.Query != "" {
			q = b.Query
		}
		if b.Mutation != "" {
			m = b.Mutation
		}
		if b.Subscription != "" {
			sub = b.Subscription
		}
	}
	if !explicit {
		if s.Def("Query") != nil {
			q = "Query"
		}
		if s.Def("Mutation") != nil {
			m = "Mutation"
		}
		if s.Def("Subscription") != nil {
			sub = "Subscription"
		}
	}
	for _, b := range s.Blocks {
		if !b.Extend {
			continue
		}
		if b.Query != "" {
			q = b.Query
		}
		if b.Mutation != "" {
			m = b.Mutation
		}
		if b.Subscription != "" {
			sub = b.Subscription
		}
	}
	return
}

// Merged returns the schema with every extend block folded into its target (members appended in order).
func (s *Schema) Merged() *Schema {
	ns := &Schema{}
	for _, d := range s.Defs {
		if !d.Extend {
			ns.Defs = append(ns.Defs, d.Clone())
		}
	}
	for _, d := range s.Defs {
		if !d.Extend {
			continue
		}
		var t *Def
		for _, x := range ns.Defs {
			if x.Name == d.Name && x.Kind == d.Kind {
				t = x
			}
		}
		if t == nil {
			continue
		}
		c := d.Clone()
		t.Fields = append(t.Fields, c.Fields...)
		t.Implements = append(t.Implements, c.Implements...)
		t.Members = append(t.Members, c.Members...)
		t.Values = append(t.Values, c.Values...)
		t.Dirs = append(t.Dirs, c.Dirs...)
	}
	var blk *SchemaBlock
	declared := false // a schema block proper exists; extensions alone extend the implicit schema and stay extensions
	for _, b := range s.Blocks {
		if !b.Extend {
			declared = true
		}
	}
	for _, b := range s.Blocks {
		if blk == nil {
			nb := *b
			nb.Dirs = cloneDirs(b.Dirs)
			nb.Extend = !declared
			blk = &nb
			continue
		}
		if b.Query != "" {
			blk.Query = b.Query
		}
		if b.Mutation != "" {
			blk.Mutation = b.Mutation
		}
		if b.Subscription != "" {
			blk.Subscription = b.Subscription
		}
		blk.Dirs = append(blk.Dirs, cloneDirs(b.Dirs)...)
	}
	if blk != nil {
		ns.Blocks = []*SchemaBlock{blk}
	}
	return ns
}

// ---------------------------------------------------------------- canonical description

func canonVal(v Val) string {
	switch tv := v.(type) {
	case map[string]interface{}:
		keys := make([]string, 0, len(tv))
		for k := range tv {
			keys = append(keys, k)
		}
		sort.Strings(keys)
		parts := make([]string, len(keys))
		for i, k := range keys {
			parts[i] = k + ":" + canonVal(tv[k])
		}
		return "{" + strings.Join(parts, ",") + "}"
	case []interface{}:
		parts := make([]string, len(tv))
		for i, e := range tv {
			parts[i] = canonVal(e)
		}
		return "[" + strings.Join(parts, ",") + "]"
	case int:
		return fmt.Sprint(tv)
	case int32:
		return fmt.Sprint(tv)
	case int64:
		return fmt.Sprint(tv)
	case float32:
		return fmt.Sprintf("%g", float64(tv))
	case float64:
		if tv == float64(int64(tv)) && tv < 1e15 && tv > -1e15 {
			return fmt.Sprintf("%d", int64(tv))
		}
		return fmt.Sprintf("%g", tv)
	case string:
		return fmt.Sprintf("%q", tv)
	case world.EnumLit:
		return string(tv)
	case nil:
		return "null"
	case bool:
		return fmt.Sprint(tv)
	}
	if st, ok := v.(fmt.Stringer); ok {
		return st.String()
	}
	return fmt.Sprintf("%v", v)
}

// CanonOpts controls the canonical description.
type CanonOpts struct {
	FillDirDefaults bool // directive uses are compared after filling the directive's argument defaults (C16)
	// FillInputs: input-object constants of directives (definition defaults, use arguments) get the defaults of their input
	// types filled in, as the loader's coercion does - for the REFERENCE side only (what is read back from a root is compared as it is)
	FillInputs bool
	NoDesc          bool
}

func (s *Schema) canonDirs(ds []DirUse, o CanonOpts) string {
	parts := make([]string, 0, len(ds))
	for _, d := range ds {
		args := map[string]string{}
		for _, a := range d.Args {
			args[a.Name] = canonVal(a.Value)
		}
		if o.FillDirDefaults {
			if dd := s.Directive(d.Name); dd != nil {
				for _, a := range dd.Args {
					if _, has := args[a.Name]; !has && a.HasDef {
						if o.FillInputs {
							args[a.Name] = canonVal(s.fillVal(a.Type, a.Default))
						} else {
							args[a.Name] = canonVal(a.Default)
						}
					}
				}
				// input objects given to the use get the defaults of their type as well (the loader coerces them)
				for _, ua := range d.Args {
					for _, a := range dd.Args {
						if a.Name == ua.Name && o.FillInputs {
							args[ua.Name] = canonVal(s.fillVal(a.Type, ua.Value))
						}
					}
				}
			}
		}
		if d.Name == "deprecated" {
			// the built-in default reason is filled in at load time
			if _, has := args["reason"]; !has {
				args["reason"] = canonVal("\"No longer supported\"")
			}
		}
		keys := make([]string, 0, len(args))
		for k := range args {
			keys = append(keys, k)
		}
		sort.Strings(keys)
		as := make([]string, len(keys))
		for i, k := range keys {
			as[i] = k + "=" + args[k]
		}
		parts = append(parts, "@"+d.Name+"("+strings.Join(as, ",")+")")
	}
	sort.Strings(parts)
	return strings.Join(parts, "")
}

// fillVal fills the defaults of input object types into a constant of type t (what coercion does to it).
func (s *Schema) fillVal(t *T, v Val) Val {
	if t == nil || v == nil {
		return v
	}
	switch t.K {
	case world.TNonNull:
		return s.fillVal(t.Of, v)
	case world.TList:
		if l, ok := v.([]interface{}); ok {
			out := make([]interface{}, len(l))
			for i, e := range l {
				out[i] = s.fillVal(t.Of, e)
			}
			return out
		}
		return v
	}
	m, ok := v.(map[string]interface{})
	var def *Def
	for _, d := range s.Defs {
		if d.Kind == KInput && d.Name == t.Name && !d.Extend {
			def = d
		}
	}
	if !ok || def == nil {
		return v
	}
	out := map[string]interface{}{}
	for k, e := range m {
		out[k] = e
	}
	for _, d := range s.Defs {
		if d.Kind != KInput || d.Name != t.Name {
			continue
		}
		for _, f := range d.Fields {
			if e, has := out[f.Name]; has {
				out[f.Name] = s.fillVal(f.Type, e)
			} else if f.HasDef {
				out[f.Name] = s.fillVal(f.Type, f.Default)
			}
		}
	}
	return out
}

func (s *Schema) canonArgs(as []*Arg, o CanonOpts) string {
	return s.canonArgsOf(as, o, false)
}

func (s *Schema) canonArgsOf(as []*Arg, o CanonOpts, directiveDef bool) string {
	parts := make([]string, len(as))
	for i, a := range as {
		p := a.Name + ":" + a.Type.String()
		if a.HasDef {
			if directiveDef && o.FillInputs {
				p += "=" + canonVal(s.fillVal(a.Type, a.Default)) // the defaults of a directive definition are coerced when it is validated
			} else {
				p += "=" + canonVal(a.Default)
			}
		}
		if !o.NoDesc && a.Desc != "" {
			p += fmt.Sprintf(" desc=%q", a.Desc)
		}
		parts[i] = p + s.canonDirs(a.Dirs, o)
	}
	sort.Strings(parts)
	return "(" + strings.Join(parts, ";") + ")"
}

// Canonical returns an order-insensitive description of the merged schema: one line per definition, sorted;
// members (fields, values, union members, interfaces, arguments, directive uses) are compared as sets.
func (s *Schema) Canonical(o CanonOpts) string {
	m := s.Merged()
	var lines []string
	q, mu, su := m.RootTypes()
	bd := ""
	if len(m.Blocks) > 0 {
		bd = m.canonDirs(m.Blocks[0].Dirs, o)
	}
	lines = append(lines, fmt.Sprintf("roots query=%s mutation=%s subscription=%s%s", q, mu, su, bd))
	for _, d := range m.Defs {
		if d.Kind == KScalar && builtinScalars[d.Name] {
			continue // a built-in scalar declared again: the root keeps its own, nothing is defined
		}
		var b strings.Builder
		fmt.Fprintf(&b, "%s %s", d.Kind, d.Name)
		if !o.NoDesc && d.Desc != "" {
			fmt.Fprintf(&b, " desc=%q", d.Desc)
		}
		b.WriteString(m.canonDirs(d.Dirs, o))
		switch d.Kind {
		case KObject, KInterface, KInput:
			imp := append([]string{}, d.Implements...)
			sort.Strings(imp)
			if len(imp) > 0 {
				b.WriteString(" implements " + strings.Join(imp, "&"))
			}
			fs := make([]string, len(d.Fields))
			for i, f := range d.Fields {
				p := f.Name
				if d.Kind != KInput {
					p += m.canonArgs(f.Args, o)
				}
				p += ":" + f.Type.String()
				if f.HasDef {
					p += "=" + canonVal(f.Default)
				}
				if !o.NoDesc && f.Desc != "" {
					p += fmt.Sprintf(" desc=%q", f.Desc)
				}
				fs[i] = p + m.canonDirs(f.Dirs, o)
			}
			sort.Strings(fs)
			b.WriteString(" {" + strings.Join(fs, " | ") + "}")
		case KUnion:
			ms := append([]string{}, d.Members...)
			sort.Strings(ms)
			b.WriteString(" = " + strings.Join(ms, "|"))
		case KEnum:
			vs := make([]string, len(d.Values))
			for i, v := range d.Values {
				p := v.Name
				if !o.NoDesc && v.Desc != "" {
					p += fmt.Sprintf(" desc=%q", v.Desc)
				}
				vs[i] = p + m.canonDirs(v.Dirs, o)
			}
			sort.Strings(vs)
			b.WriteString(" {" + strings.Join(vs, " | ") + "}")
		case KDirective:
			ls := append([]string{}, d.Locations...)
			sort.Strings(ls)
			b.WriteString(m.canonArgsOf(d.Args, o, true) + " on " + strings.Join(ls, "|"))
		}
		lines = append(lines, b.String())
	}
	sort.Strings(lines)
	return strings.Join(lines, "\n")
}
