package core

import (
	"fmt"
	"runtime"
	"strings"
)

// PanicInfo describes a recovered panic: the value and the innermost frame that lies inside pkg/ggql.
type PanicInfo struct {
	Value string `json:"value"`
	Site  string `json:"site"`  // function name of the top ggql frame, e.g. "(*Root).formReflectArgs"
	Class string `json:"class"` // nil-deref | index | reflect | engine | other
}

// Safe runs f and converts a panic into a PanicInfo. Engine errors are re-panicked.
func Safe(f func()) (pi *PanicInfo) {
	defer func() {
		if r := recover(); r != nil {
			if ee, ok := r.(EngineError); ok {
				panic(ee)
			}
			pi = &PanicInfo{Value: fmt.Sprint(r), Site: ggqlSite(), Class: classify(fmt.Sprint(r))}
		}
	}()
	f()
	return nil
}

func classify(s string) string {
	switch {
	case strings.Contains(s, "nil pointer dereference"), strings.Contains(s, "nil map"):
		return "nil-deref"
	case strings.Contains(s, "index out of range"), strings.Contains(s, "slice bounds"):
		return "index"
	case strings.Contains(s, "reflect"):
		return "reflect"
	case strings.Contains(s, "interface conversion"):
		return "type-assert"
	}
	return "other"
}

func ggqlSite() string {
	pcs := make([]uintptr, 64)
	n := runtime.Callers(3, pcs)
	frames := runtime.CallersFrames(pcs[:n])
	for {
		fr, more := frames.Next()
		if strings.Contains(fr.Function, "github.com/uhn/ggql/pkg/ggql.") {
			return strings.TrimPrefix(fr.Function, "github.com/uhn/ggql/pkg/ggql.")
		}
		if !more {
			break
		}
	}
	return "?"
}
