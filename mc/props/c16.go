package props

import (
	"fmt"
	"sort"
	"strings"
	"time"

	"github.com/uhn/ggql/pkg/ggql"

	"verif/mc/core"
	"verif/mc/sgen"
	"verif/mc/world"
)

// C16 — a schema means the same however its definitions are ordered or split (DESIGN 5.16).

func init() {
	Register(&Check{
		ID:  "C16",
		Run: runC16,
		Rule: "4 definition sets of 5-6 units (schema block with custom roots and a directive; interfaces/unions; inputs/enums/directive with defaulted arguments; extend blocks) + the C13 bases: " +
			"ALL permutations of the units in one document; ALL assignments of the units to <= 3 successive loads whose prefixes are reference-closed; every member (field, enum value, union member, interface, type-level directive use) moved into an extend block placed before or after its target, one and two at a time. " +
			"Oracle: every arrangement is accepted like the canonical one and reads back to the same canonical description (directive-argument defaults filled), same root types, same introspection answer. " +
			"distinct = (set, arrangement); non-trivial = arrangement differs from the canonical order",
		Technique:      "exhaustive enumeration of arrangements (permutations, load partitions, extend moves) of bounded definition sets on the real loader with an all-agree differential oracle",
		Assumptions:    []string{"only partitions whose every prefix is reference-closed are in the claim", "introspection is compared where the query root is available to __schema"},
		QuickBudget:    90 * time.Second,
		ThoroughBudget: 20 * time.Minute,
	})
}

func c16Sets() []*sgen.Schema {
	N, L, NN := sgen.N, sgen.L, sgen.NN
	f := func(name string, t *sgen.T, args ...*sgen.Arg) *sgen.Field {
		return &sgen.Field{Name: name, Type: t, Args: args}
	}
	bases := sgen.Bases()
	return []*sgen.Schema{
		bases[2],
		{Defs: []*sgen.Def{
			{Kind: sgen.KObject, Name: "Query", Desc: "the root", Fields: []*sgen.Field{f("n", N("Named")), f("u", N("AB")), f("all", L(NN(N("Named"))))}},
			// described definitions: whatever stands in front of them (a body-less extension, say) must end before the quote
			{Kind: sgen.KInterface, Name: "Named", Desc: "has a name", Fields: []*sgen.Field{f("name", N("String"))}},
			{Kind: sgen.KObject, Name: "A", Desc: "an A", Implements: []string{"Named"}, Fields: []*sgen.Field{f("name", N("String")), f("peer", N("B"))}},
			{Kind: sgen.KObject, Name: "B", Desc: "a B", Implements: []string{"Named"}, Fields: []*sgen.Field{f("name", NN(N("String")))}},
			{Kind: sgen.KUnion, Name: "AB", Desc: "either", Members: []string{"A", "B"}},
		}},
		{Defs: []*sgen.Def{
			{Kind: sgen.KObject, Name: "Query", Desc: "the root", Fields: []*sgen.Field{f("f", N("Int"), &sgen.Arg{Name: "in", Type: N("Filter")}, &sgen.Arg{Name: "c", Type: N("Color"), HasDef: true, Default: world.EnumLit("RED")})}},
			{Kind: sgen.KInput, Name: "Filter", Desc: "a filter", Fields: []*sgen.Field{{Name: "c", Type: N("Color"), HasDef: true, Default: world.EnumLit("GREEN")}, {Name: "sub", Type: N("Filter")}}},
			{Kind: sgen.KEnum, Name: "Color", Desc: "a colour", Values: []*sgen.EnumVal{{Name: "RED"}, {Name: "GREEN", Dirs: []sgen.DirUse{{Name: "tag", Args: []sgen.KV{{Name: "n", Value: 9}}}}}}},
			{Kind: sgen.KUnion, Name: "TU", Desc: "a union of one", Members: []string{"T"}, Dirs: []sgen.DirUse{{Name: "tag", Args: []sgen.KV{{Name: "n", Value: 4}}}}},
			{Kind: sgen.KDirective, Name: "tag", Desc: "a tag", Locations: []string{"OBJECT", "FIELD_DEFINITION", "ENUM_VALUE", "UNION"},
				Args: []*sgen.Arg{{Name: "names", Type: L(N("String")), HasDef: true, Default: []interface{}{"x"}}, {Name: "n", Type: N("Int"), HasDef: true, Default: 3}}},
			{Kind: sgen.KObject, Name: "T", Desc: "tagged", Dirs: []sgen.DirUse{{Name: "tag"}}, Fields: []*sgen.Field{{Name: "x", Type: N("Int"), Dirs: []sgen.DirUse{{Name: "tag", Args: []sgen.KV{{Name: "n", Value: 1}}}}},
				// an explicit null is a value: the argument's default must not replace it, wherever the directive definition arrives
				{Name: "y", Type: N("Int"), Dirs: []sgen.DirUse{{Name: "tag", Args: []sgen.KV{{Name: "n", Value: nil}, {Name: "names", Value: nil}}}}}}},
		}},
		// union members and interfaces listed in an order that differs from the order the types arrive in
		{Defs: []*sgen.Def{
			{Kind: sgen.KObject, Name: "Query", Fields: []*sgen.Field{f("u", N("U")), f("i", N("I"))}},
			{Kind: sgen.KObject, Name: "X", Implements: []string{"I", "J"}, Fields: []*sgen.Field{f("a", N("Int"))}},
			{Kind: sgen.KObject, Name: "Y", Implements: []string{"J", "I"}, Fields: []*sgen.Field{f("a", N("Int")), f("y", N("X"))}},
			{Kind: sgen.KObject, Name: "Z", Fields: []*sgen.Field{f("c", N("Int"))}},
			{Kind: sgen.KUnion, Name: "U", Members: []string{"Z", "X", "Y"}},
			{Kind: sgen.KInterface, Name: "I", Fields: []*sgen.Field{f("a", N("Int"))}},
			{Kind: sgen.KInterface, Name: "J", Fields: []*sgen.Field{f("a", N("Int"))}},
		}},
		{Defs: []*sgen.Def{
			{Kind: sgen.KObject, Name: "Query", Fields: []*sgen.Field{f("u", N("U"))}},
			{Kind: sgen.KObject, Name: "X", Fields: []*sgen.Field{f("a", N("Int"))}},
			{Kind: sgen.KObject, Name: "W", Fields: []*sgen.Field{f("w", N("Int"))}},
			{Kind: sgen.KObject, Name: "V", Fields: []*sgen.Field{f("v", N("Int"))}},
			{Kind: sgen.KUnion, Name: "U", Members: []string{"X"}},
			{Kind: sgen.KUnion, Name: "U", Extend: true, Members: []string{"X2", "W", "V"}},
			{Kind: sgen.KObject, Name: "X2", Fields: []*sgen.Field{f("b", N("Int"))}},
		}},
		// names that differ only in case, of the same kind (the type table is ordered by rank and name)
		{Defs: []*sgen.Def{
			{Kind: sgen.KObject, Name: "Query", Fields: []*sgen.Field{f("n", N("Node")), f("m", N("node")), f("k", N("Kind")), f("j", N("kind"))}},
			{Kind: sgen.KObject, Name: "node", Dirs: []sgen.DirUse{{Name: "tag"}}, Fields: []*sgen.Field{f("b", N("Int"))}},
			{Kind: sgen.KObject, Name: "Node", Dirs: []sgen.DirUse{{Name: "Tag"}}, Fields: []*sgen.Field{f("a", N("Int"))}},
			{Kind: sgen.KEnum, Name: "kind", Values: []*sgen.EnumVal{{Name: "y"}}},
			{Kind: sgen.KEnum, Name: "Kind", Values: []*sgen.EnumVal{{Name: "Y"}}},
			{Kind: sgen.KDirective, Name: "tag", Locations: []string{"OBJECT"}},
			{Kind: sgen.KDirective, Name: "Tag", Locations: []string{"OBJECT"}},
		}},
		// an explicit schema block with root types that are not called Query / Mutation, beside types nothing refers to: they
		// may arrive in loads AFTER the block
		{Blocks: []*sgen.SchemaBlock{{Query: "Root", Mutation: "Writer"}},
			Defs: []*sgen.Def{
				{Kind: sgen.KObject, Name: "Root", Fields: []*sgen.Field{f("r", N("Int"))}},
				{Kind: sgen.KObject, Name: "Writer", Fields: []*sgen.Field{f("w", N("Int"))}},
				{Kind: sgen.KObject, Name: "Alpha", Fields: []*sgen.Field{f("z", N("Zed"))}},
				{Kind: sgen.KObject, Name: "Zed", Fields: []*sgen.Field{f("m", N("Mode"))}},
				{Kind: sgen.KEnum, Name: "Mode", Values: []*sgen.EnumVal{{Name: "ON"}, {Name: "OFF"}}},
			}},
		// no schema block: the implicit schema is extended with root types that may arrive in the same load as the extension
		{Blocks: []*sgen.SchemaBlock{{Extend: true, Mutation: "Change", Subscription: "Feed"}},
			Defs: []*sgen.Def{
				{Kind: sgen.KObject, Name: "Query", Fields: []*sgen.Field{f("q", N("Int"))}},
				{Kind: sgen.KObject, Name: "Change", Fields: []*sgen.Field{f("bump", N("Int"))}},
				{Kind: sgen.KObject, Name: "Feed", Fields: []*sgen.Field{f("ev", N("Int"))}},
			}},
		// round 10: the implicit schema carries a directive (and one custom root) through an extend block while a root type
		// with its default name may arrive in a later load: it is a root type however the loads are cut
		{Blocks: []*sgen.SchemaBlock{{Extend: true, Subscription: "Feed", Dirs: []sgen.DirUse{{Name: "mark"}}}},
			Defs: []*sgen.Def{
				{Kind: sgen.KObject, Name: "Query", Fields: []*sgen.Field{f("q", N("Int"))}},
				{Kind: sgen.KObject, Name: "Mutation", Fields: []*sgen.Field{f("bump", N("Int"))}},
				{Kind: sgen.KObject, Name: "Feed", Fields: []*sgen.Field{f("ev", N("Int"))}},
				{Kind: sgen.KDirective, Name: "mark", Locations: []string{"SCHEMA"}},
			}},
		{Defs: []*sgen.Def{
			{Kind: sgen.KObject, Name: "Query", Fields: []*sgen.Field{f("a", N("A"))}},
			{Kind: sgen.KObject, Name: "A", Fields: []*sgen.Field{f("id", N("ID"))}},
			{Kind: sgen.KObject, Name: "A", Extend: true, Fields: []*sgen.Field{f("name", N("String"))}},
			{Kind: sgen.KObject, Name: "Query", Extend: true, Fields: []*sgen.Field{f("e", N("E"))}},
			{Kind: sgen.KEnum, Name: "E", Values: []*sgen.EnumVal{{Name: "X"}}},
			{Kind: sgen.KEnum, Name: "E", Extend: true, Values: []*sgen.EnumVal{{Name: "Y"}}},
		}},
		// the extra scalars declared again (the root keeps its own): uses before and after the declaration mean the same scalar
		{Defs: []*sgen.Def{
			{Kind: sgen.KObject, Name: "Query", Fields: []*sgen.Field{f("at", N("Time")), f("n64", N("Int64")), f("e", N("Ev"))}},
			{Kind: sgen.KScalar, Name: "Time"},
			{Kind: sgen.KObject, Name: "Ev", Fields: []*sgen.Field{f("at", N("Time")), f("n64", NN(N("Int64")))}},
			{Kind: sgen.KScalar, Name: "Int64"},
			{Kind: sgen.KInput, Name: "When", Fields: []*sgen.Field{{Name: "at", Type: N("Time")}}},
		}},
		// an object that takes on an interface through an extend block: alone in a load it changes no table, only the object
		{Defs: []*sgen.Def{
			{Kind: sgen.KObject, Name: "Query", Fields: []*sgen.Field{f("n", N("Named")), f("a", N("A"))}},
			{Kind: sgen.KInterface, Name: "Named", Fields: []*sgen.Field{f("name", N("String"))}},
			{Kind: sgen.KObject, Name: "A", Fields: []*sgen.Field{f("name", N("String"))}},
			{Kind: sgen.KObject, Name: "B", Implements: []string{"Named"}, Fields: []*sgen.Field{f("name", N("String"))}},
			{Kind: sgen.KObject, Name: "A", Extend: true, Implements: []string{"Named"}},
			{Kind: sgen.KUnion, Name: "AB", Members: []string{"B"}},
			{Kind: sgen.KUnion, Name: "AB", Extend: true, Members: []string{"A"}},
		}},
		// a directive whose argument default is an input object, a use that leaves the argument out, the input type extended with
		// a defaulted field: the use's argument is the directive's default as it stands when everything is loaded
		{Defs: []*sgen.Def{
			{Kind: sgen.KObject, Name: "Query", Fields: []*sgen.Field{f("t", N("T"))}},
			{Kind: sgen.KInput, Name: "Opts", Fields: []*sgen.Field{{Name: "a", Type: N("Int"), HasDef: true, Default: 1}}},
			{Kind: sgen.KDirective, Name: "opt", Locations: []string{"OBJECT"}, Args: []*sgen.Arg{{Name: "o", Type: N("Opts"), HasDef: true, Default: map[string]interface{}{"a": 1}}}},
			{Kind: sgen.KObject, Name: "T", Dirs: []sgen.DirUse{{Name: "opt"}}, Fields: []*sgen.Field{f("x", N("Int"))}},
			{Kind: sgen.KInput, Name: "Opts", Extend: true, Fields: []*sgen.Field{{Name: "b", Type: N("Int"), HasDef: true, Default: 2}}},
		}},
		// a type and a directive of the same name (two name spaces): a use of the directive means the directive wherever the
		// type of that name arrived
		{Defs: []*sgen.Def{
			{Kind: sgen.KObject, Name: "Query", Fields: []*sgen.Field{f("v", N("Tag")), f("s", N("Mark"))}},
			{Kind: sgen.KObject, Name: "Tag", Fields: []*sgen.Field{f("x", N("Int"))}},
			{Kind: sgen.KDirective, Name: "Tag", Locations: []string{"OBJECT", "ENUM"}},
			{Kind: sgen.KObject, Name: "X", Dirs: []sgen.DirUse{{Name: "Tag"}}, Fields: []*sgen.Field{f("y", N("Int"))}},
			{Kind: sgen.KEnum, Name: "Mark", Dirs: []sgen.DirUse{{Name: "Mark"}, {Name: "Tag"}}, Values: []*sgen.EnumVal{{Name: "M"}}},
			{Kind: sgen.KDirective, Name: "Mark", Locations: []string{"ENUM"}},
		}},
	}
}

// arrangement: an ordered list of loads, each an ordered list of unit indexes.
type arrangement struct {
	loads [][]int
	kind  string
}

func permsOf(n int) [][]int { return permutations(n) }

// unitRefs returns what a unit defines and what it needs.
func unitRefs(u sgen.Unit) (defines []string, needs []string) {
	add := func(t *sgen.T) {
		if t != nil && !world.IsBuiltinScalar(t.Base()) {
			needs = append(needs, "type:"+t.Base())
		}
	}
	dirs := func(ds []sgen.DirUse) {
		for _, d := range ds {
			if d.Name != "deprecated" && d.Name != "go" {
				needs = append(needs, "dir:"+d.Name)
			}
		}
	}
	if u.Block != nil {
		for _, r := range []string{u.Block.Query, u.Block.Mutation, u.Block.Subscription} {
			if r != "" {
				needs = append(needs, "type:"+r)
			}
		}
		dirs(u.Block.Dirs)
		if u.Block.Extend {
			needs = append(needs, "schema")
		} else {
			defines = append(defines, "schema")
		}
		return
	}
	d := u.Def
	if d.Kind == sgen.KDirective {
		defines = append(defines, "dir:"+d.Name)
	} else if d.Extend {
		needs = append(needs, "type:"+d.Name)
	} else {
		defines = append(defines, "type:"+d.Name)
	}
	dirs(d.Dirs)
	for _, f := range d.Fields {
		add(f.Type)
		dirs(f.Dirs)
		for _, a := range f.Args {
			add(a.Type)
			dirs(a.Dirs)
		}
	}
	for _, a := range d.Args {
		add(a.Type)
		dirs(a.Dirs)
	}
	for _, i := range d.Implements {
		needs = append(needs, "type:"+i)
	}
	for _, m := range d.Members {
		needs = append(needs, "type:"+m)
	}
	for _, v := range d.Values {
		dirs(v.Dirs)
	}
	return
}

func prefixClosed(units []sgen.Unit, loads [][]int) bool {
	have := map[string]bool{}
	// a schema nobody declares is the implicit one: it exists from the start and 'extend schema' may come in any load
	declared := false
	for _, u := range units {
		if u.Block != nil && !u.Block.Extend {
			declared = true
		}
	}
	if !declared {
		have["schema"] = true
	}
	for _, load := range loads {
		for _, ui := range load {
			defs, _ := unitRefs(units[ui])
			for _, d := range defs {
				have[d] = true
			}
		}
		for _, ui := range load {
			_, needs := unitRefs(units[ui])
			for _, n := range needs {
				if !have[n] {
					return false
				}
			}
		}
	}
	return true
}

const introQuery = `{__schema{queryType{name kind fields{name}} mutationType{name kind fields{name}} subscriptionType{name kind fields{name}}
 types{kind name description fields(includeDeprecated:true){name description isDeprecated deprecationReason args{name description defaultValue type{kind name ofType{kind name ofType{kind name ofType{kind name}}}}} type{kind name ofType{kind name ofType{kind name ofType{kind name}}}}}
  interfaces{name} possibleTypes{name} enumValues(includeDeprecated:true){name description isDeprecated deprecationReason} inputFields{name description defaultValue type{kind name ofType{kind name ofType{kind name}}}}}
 directives{name description locations args{name defaultValue type{kind name ofType{kind name}}}}}}`

type c16Dummy struct{}

func (c16Dummy) Resolve(field *ggql.Field, args map[string]interface{}) (interface{}, error) {
	switch field.Name {
	case "at": // a Time
		return time.Date(2020, 4, 5, 6, 7, 8, 0, time.UTC), nil
	case "n64": // an Int64
		return int64(1) << 40, nil
	}
	return c16Dummy{}, nil
}

// canonIntro renders a response as canonical text in which every list is sorted (set-valued answers compare
// equal whatever the member order). Built bottom-up so each subtree is rendered once.
func canonIntro(v interface{}) interface{} {
	return canonIntroText(v)
}

func canonIntroText(v interface{}) string {
	switch tv := v.(type) {
	case map[string]interface{}:
		keys := make([]string, 0, len(tv))
		for k := range tv {
			keys = append(keys, k)
		}
		sort.Strings(keys)
		var b strings.Builder
		b.WriteByte('{')
		for i, k := range keys {
			if i > 0 {
				b.WriteByte(',')
			}
			b.WriteString(k + ":" + canonIntroText(tv[k]))
		}
		b.WriteByte('}')
		return b.String()
	case []interface{}:
		parts := make([]string, len(tv))
		for i, e := range tv {
			parts[i] = canonIntroText(e)
		}
		sort.Strings(parts)
		return "[" + strings.Join(parts, ",") + "]"
	case string:
		return fmt.Sprintf("%q", tv)
	}
	return fmt.Sprint(v)
}

type c16Outcome struct {
	accepted bool
	err      string
	canon    string
	intro    string
	order    string // names of Root.Types() and Root.Directives() in the order the root lists them (rank + name: arrangement independent)
	panicked *core.PanicInfo
}

func c16Load(units []sgen.Unit, arr arrangement, dirNames []string, wantIntro bool) c16Outcome {
	var o c16Outcome
	root := ggql.NewRoot(c16Dummy{})
	for li, load := range arr.loads {
		var parts []string
		for _, ui := range load {
			parts = append(parts, units[ui].Text())
		}
		text := strings.Join(parts, "\n")
		core.Announce(fmt.Sprintf("load %d of %s:\n%s", li, arr.kind, text))
		var err error
		if pi := core.Safe(func() { err = root.ParseString(text) }); pi != nil {
			o.panicked = pi
			return o
		}
		if err != nil {
			o.err = fmt.Sprintf("load %d: %v", li+1, err)
			return o
		}
		// the root is looked at between the loads (introspection, print): whatever it remembers from that is not the schema
		if li+1 < len(arr.loads) {
			if pi := core.Safe(func() { _ = root.ResolveString(introQuery, "", nil); _ = root.SDL(false, true) }); pi != nil {
				o.panicked = pi
				return o
			}
		}
	}
	o.accepted = true
	back, err := sgen.FromRoot(root, dirNames)
	if err != nil {
		o.err = "readback: " + err.Error()
		o.accepted = false
		return o
	}
	o.canon = back.Canonical(sgen.CanonOpts{FillDirDefaults: true})
	var names []string
	for _, t := range root.Types() {
		names = append(names, t.Name())
	}
	names = append(names, "|")
	for _, t := range root.Directives() {
		names = append(names, t.Name())
	}
	o.order = strings.Join(names, " ")
	if wantIntro {
		var res map[string]interface{}
		if pi := core.Safe(func() { res = root.ResolveString(introQuery, "", nil) }); pi != nil {
			o.panicked = pi
			return o
		}
		// data compared as sets; error entries only counted (their paths carry list indexes, which legitimately follow member order)
		nerr := 0
		if es, ok := res["errors"].([]interface{}); ok {
			nerr = len(es)
		}
		o.intro = fmt.Sprintf("errors=%d data=%s", nerr, toJSON(canonIntro(world.Canon(res["data"]))))
		// requests against every operation root resolve identically
		for _, rq := range []string{"{__typename}", "mutation {__typename}", "{__typename __schema{mutationType{name kind}}}"} {
			var r2 map[string]interface{}
			if pi := core.Safe(func() { r2 = root.ResolveString(rq, "", nil) }); pi != nil {
				o.panicked = pi
				return o
			}
			o.intro += " | " + rq + " -> " + string(toJSON(canonIntro(world.Canon(r2))))
		}
		// every value of every enum, wherever its definition or extension arrived, is a value a request can give: as a literal and
		// through a variable, for every enum-typed argument of a query field
		enumVals := map[string][]string{}
		for _, u := range units {
			if u.Def != nil && u.Def.Kind == sgen.KEnum {
				for _, v := range u.Def.Values {
					enumVals[u.Def.Name] = append(enumVals[u.Def.Name], v.Name)
				}
			}
		}
		var probes []string
		for _, u := range units {
			if u.Def == nil || u.Def.Kind != sgen.KObject || u.Def.Name != "Query" {
				continue
			}
			for _, f := range u.Def.Fields {
				for _, a := range f.Args {
					for _, v := range enumVals[a.Type.Base()] {
						probes = append(probes, fmt.Sprintf("{ %s(%s: %s) }", f.Name, a.Name, v), fmt.Sprintf("query Q($v: %s = %s) { %s(%s: $v) }", a.Type.Base(), v, f.Name, a.Name))
					}
				}
			}
		}
		// fields of the extra scalar types, answered with Go values of those types
		for _, u := range units {
			if u.Def != nil && u.Def.Kind == sgen.KObject && u.Def.Name == "Query" {
				for _, f := range u.Def.Fields {
					if b := f.Type.Base(); b == "Time" || b == "Int64" {
						probes = append(probes, "{ "+f.Name+" }")
					}
				}
			}
		}
		sort.Strings(probes)
		for _, rq := range probes {
			var r2 map[string]interface{}
			if pi := core.Safe(func() { r2 = root.ResolveString(rq, "", nil) }); pi != nil {
				o.panicked = pi
				return o
			}
			o.intro += " | " + rq + " -> " + string(toJSON(canonIntro(world.Canon(r2))))
		}
	}
	return o
}

func runC16(c *core.Ctx) {
	ggql.Sort = true
	defer func() { ggql.Sort = false }()
	sets := c16Sets()
	if c.Thorough() {
		for i, b := range sgen.Bases() {
			if i != 2 && i != 1 {
				sets = append(sets, b)
			}
		}
	}
	completed := true
	for si, set := range sets {
		units := set.Units()
		n := len(units)
		dn := set.DirectiveNames()
		q, _, _ := set.RootTypes()
		wantIntro := q == "Query"
		var canonArr arrangement
		all := make([]int, n)
		for i := range all {
			all[i] = i
		}
		canonArr = arrangement{[][]int{all}, "canonical"}
		ref := c16Load(units, canonArr, dn, wantIntro)
		if !ref.accepted {
			c.Violation("canonical-refused", map[string]string{"set": fmt.Sprint(si)}, map[string]interface{}{"set": si, "sdl": set.SDL(), "error": ref.err, "panic": ref.panicked})
			continue
		}
		want := set.Canonical(sgen.CanonOpts{FillDirDefaults: true, FillInputs: true})
		if ref.canon != want {
			c.Violation("canonical-differs", map[string]string{"set": fmt.Sprint(si)}, map[string]interface{}{"set": si, "sdl": set.SDL(), "diff": firstLineDiff(want, ref.canon)})
			continue
		}
		var arrs []arrangement
		// (a) all permutations in one document
		if n <= 7 {
			for _, p := range permsOf(n) {
				arrs = append(arrs, arrangement{[][]int{p}, "permutation"})
			}
		}
		// (b) all assignments of units to <= 3 ordered loads (units keep canonical order inside a load), reference-closed prefixes
		if n <= 9 {
			total := 1
			for i := 0; i < n; i++ {
				total *= 3
			}
			for code := 0; code < total; code++ {
				loads := [][]int{nil, nil, nil}
				x := code
				for i := 0; i < n; i++ {
					loads[x%3] = append(loads[x%3], i)
					x /= 3
				}
				var ne [][]int
				for _, l := range loads {
					if len(l) > 0 {
						ne = append(ne, l)
					}
				}
				if len(ne) < 2 || !prefixClosed(units, ne) {
					continue
				}
				// canonical form of the assignment: skip duplicates produced by empty middle loads
				if len(loads[0]) == 0 || (len(loads[1]) == 0 && len(loads[2]) > 0) {
					continue
				}
				arrs = append(arrs, arrangement{ne, "partition"})
			}
		}
		for ai, arr := range arrs {
			if c.Expired() {
				completed = false
				break
			}
			key := fmt.Sprintf("%d|%s|%v", si, arr.kind, arr.loads)
			if !c.Owns(key) {
				continue
			}
			c.Nontrivial()
			c.Eval()
			got := c16Load(units, arr, dn, wantIntro)
			c16Compare(c, si, set, units, arr, ref, got)
			if ai%97 == 0 {
				c.Sample(func() interface{} { return map[string]interface{}{"set": si, "kind": arr.kind, "loads": arr.loads} })
			}
		}
		// (c) members moved into extend blocks, one and two at a time, extend placed before or after the target
		moves := extendMoves(set)
		var combos [][]int
		for i := range moves {
			combos = append(combos, []int{i})
		}
		for i := range moves {
			for j := i + 1; j < len(moves); j++ {
				if moves[i].target != moves[j].target || moves[i].what != moves[j].what || c.Thorough() {
					combos = append(combos, []int{i, j})
				}
			}
		}
		// a pair of extend blocks in both orders (an interface before the field it asks for, and after)
		for _, cb := range append([][]int{}, combos...) {
			if len(cb) == 2 {
				combos = append(combos, []int{cb[1], cb[0]})
			}
		}
		for _, combo := range combos {
			for place := 0; place < 2; place++ {
				if c.Expired() {
					completed = false
					break
				}
				key := fmt.Sprintf("%d|extend|%v|%d", si, combo, place)
				if !c.Owns(key) {
					continue
				}
				m := set.Clone()
				var exts []*sgen.Def
				ok := true
				for _, mi := range combo {
					e := moves[mi].apply(m)
					if e == nil {
						ok = false
						break
					}
					exts = append(exts, e)
				}
				if !ok {
					continue
				}
				if place == 0 {
					m.Defs = append(exts, m.Defs...)
				} else {
					m.Defs = append(m.Defs, exts...)
				}
				if len(m.WellFormed()) > 0 {
					c.Count("extend_moves_discarded_by_reference")
					continue
				}
				c.Nontrivial()
				c.Eval()
				mu := m.Units()
				idx := make([]int, len(mu))
				for i := range idx {
					idx[i] = i
				}
				arr := arrangement{[][]int{idx}, fmt.Sprintf("extend-move(%s,%s)", moves[combo[0]].what, []string{"before-target", "after-target"}[place])}
				got := c16Load(mu, arr, dn, wantIntro)
				c16Compare(c, si, set, mu, arr, ref, got)
				c.Sample(func() interface{} { return map[string]interface{}{"set": si, "kind": arr.kind, "sdl": m.SDL()} })
			}
		}
	}
	// (d) "all rejected": each set plus ONE extension unit that breaks a rule which only shows across definitions (an
	// interface gains a field its implementers lack; an object claims an interface it does not satisfy; a non-object joins a
	// union; an enum value or a field is added twice). Every permutation and every closed-prefix partition into <= 3 loads
	// must be refused - in particular the arrangement "everything valid first, the breaking extension in a later load".
	for si, set := range sets {
		for bi, bad := range c16Breakers(set) {
			if len(bad.WellFormed()) == 0 {
				c.Count("breakers_discarded_by_reference")
				continue
			}
			units := bad.Units()
			n := len(units)
			var arrs []arrangement
			if n <= 6 {
				for _, p := range permsOf(n) {
					arrs = append(arrs, arrangement{[][]int{p}, "permutation"})
				}
			}
			if n <= 9 {
				total := 1
				for i := 0; i < n; i++ {
					total *= 3
				}
				for code := 0; code < total; code++ {
					loads := [][]int{nil, nil, nil}
					x := code
					for i := 0; i < n; i++ {
						loads[x%3] = append(loads[x%3], i)
						x /= 3
					}
					var ne [][]int
					for _, l := range loads {
						if len(l) > 0 {
							ne = append(ne, l)
						}
					}
					if len(ne) < 2 || !prefixClosed(units, ne) || len(loads[0]) == 0 || (len(loads[1]) == 0 && len(loads[2]) > 0) {
						continue
					}
					arrs = append(arrs, arrangement{ne, "partition"})
				}
			}
			all := make([]int, n)
			for i := range all {
				all[i] = i
			}
			arrs = append(arrs, arrangement{[][]int{all}, "canonical"})
			for _, arr := range arrs {
				if c.Expired() {
					completed = false
					break
				}
				if !c.Owns(fmt.Sprintf("%d|breaker%d|%s|%v", si, bi, arr.kind, arr.loads)) {
					continue
				}
				c.Nontrivial()
				c.Eval()
				c.R.Distinct++
				got := c16Load(units, arr, bad.DirectiveNames(), false)
				if got.panicked != nil {
					c.Violation("panic", map[string]string{"site": got.panicked.Site, "class": got.panicked.Class}, map[string]interface{}{"set": si, "sdl": bad.SDL(), "loads": arr.loads, "panic": got.panicked.Value})
					continue
				}
				if got.accepted {
					c.Outcome("ill-formed-accepted")
					var b strings.Builder
					for li, load := range arr.loads {
						fmt.Fprintf(&b, "# load %d\n", li+1)
						for _, ui := range load {
							b.WriteString(units[ui].Text() + "\n")
						}
					}
					c.Violation("arrangement-diff", map[string]string{"set": fmt.Sprint(si), "arrangement": arr.kind, "what": "ill-formed-accepted", "breaker": bad.Defs[len(bad.Defs)-1].Name}, map[string]interface{}{"set": si, "arrangement": b.String(),
						"diff": "the definition set breaks a rule (" + bad.WellFormed()[0].Rule + ") and is refused as one document, but this arrangement was accepted"})
					continue
				}
				c.Outcome("ill-formed-refused")
			}
		}
	}
	c.R.Bound = fmt.Sprintf("%d definition sets; all permutations (n<=7), all 3-load assignments with closed prefixes (n<=9), all single and pair extend moves x 2 placements; ill-formed sets (one rule-breaking extension each) refused in every arrangement", len(sets))
	if !completed {
		c.Cap("deadline reached")
	}
}

func c16Compare(c *core.Ctx, si int, set *sgen.Schema, units []sgen.Unit, arr arrangement, ref, got c16Outcome) {
	render := func() string {
		var b strings.Builder
		for li, load := range arr.loads {
			fmt.Fprintf(&b, "# ---- load %d\n", li+1)
			for _, ui := range load {
				b.WriteString(units[ui].Text() + "\n")
			}
		}
		return b.String()
	}
	attrs := map[string]string{"arrangement": strings.SplitN(arr.kind, "(", 2)[0], "set": fmt.Sprint(si)}
	if strings.HasPrefix(arr.kind, "extend-move") {
		attrs["move"] = arr.kind
	}
	if got.panicked != nil {
		c.Outcome("panic")
		c.Violation("panic", map[string]string{"site": got.panicked.Site, "class": got.panicked.Class, "arrangement": attrs["arrangement"]}, map[string]interface{}{"arrangement": render(), "panic": got.panicked.Value})
		return
	}
	if !got.accepted {
		c.Outcome("arrangement-refused")
		attrs["why"] = errClass(got.err)
		c.Violation("arrangement-diff", withKV(attrs, "what", "refused"), map[string]interface{}{"arrangement": render(), "error": got.err})
		return
	}
	if got.canon != ref.canon {
		c.Outcome("schema-differs")
		c.Violation("arrangement-diff", withKV(attrs, "what", "schema-differs"), map[string]interface{}{"arrangement": render(), "diff": firstLineDiff(ref.canon, got.canon)})
		return
	}
	if got.order != ref.order {
		c.Outcome("table-order-differs")
		c.Violation("arrangement-diff", withKV(attrs, "what", "type-table-order-differs"), map[string]interface{}{"arrangement": render(), "want": ref.order, "got": got.order})
		return
	}
	if got.intro != ref.intro {
		c.Outcome("introspection-differs")
		c.Violation("arrangement-diff", withKV(attrs, "what", "introspection-differs"), map[string]interface{}{"arrangement": render(), "want": ref.intro, "got": got.intro})
		return
	}
	c.Outcome("agrees")
}

func withKV(m map[string]string, k, v string) map[string]string {
	out := map[string]string{k: v}
	for a, b := range m {
		out[a] = b
	}
	return out
}

type extMove struct {
	target string
	what   string
	apply  func(m *sgen.Schema) *sgen.Def // removes the member from m and returns the extend block carrying it
}

func extendMoves(s *sgen.Schema) []extMove {
	var out []extMove
	for _, d := range s.Defs {
		if d.Extend || d.Kind == sgen.KDirective || d.Kind == sgen.KScalar {
			continue
		}
		name, kind := d.Name, d.Kind
		find := func(m *sgen.Schema) *sgen.Def {
			for _, x := range m.Defs {
				if x.Name == name && x.Kind == kind && !x.Extend {
					return x
				}
			}
			return nil
		}
		for fi := range d.Fields {
			fname := d.Fields[fi].Name
			out = append(out, extMove{name, "field", func(m *sgen.Schema) *sgen.Def {
				t := find(m)
				if t == nil || len(t.Fields) < 2 {
					return nil
				}
				for i, f := range t.Fields {
					if f.Name == fname {
						t.Fields = append(t.Fields[:i:i], t.Fields[i+1:]...)
						return &sgen.Def{Kind: kind, Name: name, Extend: true, Fields: []*sgen.Field{f}}
					}
				}
				return nil
			}})
		}
		for vi := range d.Values {
			vname := d.Values[vi].Name
			out = append(out, extMove{name, "enum-value", func(m *sgen.Schema) *sgen.Def {
				t := find(m)
				if t == nil || len(t.Values) < 2 {
					return nil
				}
				for i, v := range t.Values {
					if v.Name == vname {
						t.Values = append(t.Values[:i:i], t.Values[i+1:]...)
						return &sgen.Def{Kind: kind, Name: name, Extend: true, Values: []*sgen.EnumVal{v}}
					}
				}
				return nil
			}})
		}
		for mi := range d.Members {
			mname := d.Members[mi]
			out = append(out, extMove{name, "union-member", func(m *sgen.Schema) *sgen.Def {
				t := find(m)
				if t == nil || len(t.Members) < 2 {
					return nil
				}
				for i, x := range t.Members {
					if x == mname {
						t.Members = append(t.Members[:i:i], t.Members[i+1:]...)
						return &sgen.Def{Kind: kind, Name: name, Extend: true, Members: []string{mname}}
					}
				}
				return nil
			}})
		}
		for ii := range d.Implements {
			iname := d.Implements[ii]
			out = append(out, extMove{name, "interface", func(m *sgen.Schema) *sgen.Def {
				t := find(m)
				if t == nil {
					return nil
				}
				for i, x := range t.Implements {
					if x == iname {
						t.Implements = append(t.Implements[:i:i], t.Implements[i+1:]...)
						return &sgen.Def{Kind: kind, Name: name, Extend: true, Implements: []string{iname}}
					}
				}
				return nil
			}})
		}
		for di := range d.Dirs {
			dname := d.Dirs[di].Name
			out = append(out, extMove{name, "directive-use", func(m *sgen.Schema) *sgen.Def {
				t := find(m)
				if t == nil {
					return nil
				}
				for i, x := range t.Dirs {
					if x.Name == dname {
						t.Dirs = append(t.Dirs[:i:i], t.Dirs[i+1:]...)
						return &sgen.Def{Kind: kind, Name: name, Extend: true, Dirs: []sgen.DirUse{x}}
					}
				}
				return nil
			}})
		}
	}
	return out
}

// c16Breakers returns copies of the set with one rule-breaking extension unit appended.
func c16Breakers(set *sgen.Schema) []*sgen.Schema {
	var out []*sgen.Schema
	add := func(d *sgen.Def) {
		m := set.Clone()
		d.Extend = true
		m.Defs = append(m.Defs, d)
		out = append(out, m)
	}
	N := sgen.N
	find := func(name string) *sgen.Def {
		for _, d := range set.Defs {
			if d.Name == name && !d.Extend && d.Kind != sgen.KDirective {
				return d
			}
		}
		return nil
	}
	for _, d := range set.Defs {
		if d.Extend {
			continue
		}
		switch d.Kind {
		case sgen.KInterface:
			implemented := false
			for _, o := range set.Defs {
				for _, i := range o.Implements {
					if i == d.Name && o.Kind == sgen.KObject {
						implemented = true
					}
				}
			}
			if implemented {
				add(&sgen.Def{Kind: sgen.KInterface, Name: d.Name, Fields: []*sgen.Field{{Name: "zq7", Type: N("Int")}}})
			}
		case sgen.KObject:
			// claim an interface the object does not satisfy
			for _, i := range set.Defs {
				if i.Kind != sgen.KInterface || i.Extend {
					continue
				}
				has := false
				for _, x := range d.Implements {
					if x == i.Name {
						has = true
					}
				}
				lacks := false
				for _, f := range i.Fields {
					found := false
					for _, of := range d.Fields {
						if of.Name == f.Name {
							found = true
						}
					}
					if !found {
						lacks = true
					}
				}
				if !has && lacks {
					add(&sgen.Def{Kind: sgen.KObject, Name: d.Name, Implements: []string{i.Name}})
					break
				}
			}
			if len(d.Fields) > 0 {
				add(&sgen.Def{Kind: sgen.KObject, Name: d.Name, Fields: []*sgen.Field{{Name: d.Fields[0].Name, Type: N("Int")}}})
			}
		case sgen.KUnion:
			for _, e := range set.Defs {
				if (e.Kind == sgen.KEnum || e.Kind == sgen.KInterface || e.Kind == sgen.KInput) && !e.Extend {
					add(&sgen.Def{Kind: sgen.KUnion, Name: d.Name, Members: []string{e.Name}})
					break
				}
			}
		case sgen.KEnum:
			if len(d.Values) > 0 {
				add(&sgen.Def{Kind: sgen.KEnum, Name: d.Name, Values: []*sgen.EnumVal{{Name: d.Values[0].Name}}})
			}
		}
	}
	_ = find
	return out
}
