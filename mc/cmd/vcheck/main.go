// vcheck is the driver and the worker of every check.
//
//	vcheck run <PROP> <quick|thorough>      driver: spawn workers, merge, write evidence, print verdict
//	vcheck worker <PROP> <tier> <i> <n>     one shard; prints a JSON core.Result on stdout
//	vcheck replay <file>                    re-run one recorded case through the plain API
//	vcheck list
package main

import (
	"bytes"
	"encoding/json"
	"fmt"
	"os"
	"os/exec"
	"path/filepath"
	"runtime"
	"runtime/debug"
	"sort"
	"strconv"
	"strings"
	"sync"
	"time"

	"verif/mc/core"
	"verif/mc/props"
)

func verifDir() string {
	if d := os.Getenv("VERIF_DIR"); d != "" {
		return d
	}
	return "/verif"
}

func main() {
	if len(os.Args) < 2 {
		fmt.Fprintln(os.Stderr, "usage: vcheck run|worker|replay|list ...")
		os.Exit(2)
	}
	switch os.Args[1] {
	case "list":
		for _, id := range props.IDs() {
			fmt.Println(id)
		}
	case "worker":
		worker(os.Args[2:])
	case "run":
		os.Exit(run(os.Args[2], os.Args[3]))
	case "replay":
		os.Exit(replay(os.Args[2]))
	default:
		fmt.Fprintln(os.Stderr, "unknown command", os.Args[1])
		os.Exit(2)
	}
}

func worker(args []string) {
	prop, tier := args[0], args[1]
	shard, _ := strconv.Atoi(args[2])
	n, _ := strconv.Atoi(args[3])
	ck := props.Get(prop)
	if ck == nil {
		fmt.Fprintln(os.Stderr, "no such check", prop)
		os.Exit(2)
	}
	debug.SetMaxStack(256 << 20)
	if ap := os.Getenv("VERIF_ANNOUNCE"); ap != "" {
		core.InitAnnounce(ap)
	}
	budget := ck.QuickBudget
	if tier == "thorough" {
		budget = ck.ThoroughBudget
	}
	if s := os.Getenv("VERIF_BUDGET_S"); s != "" {
		if v, err := strconv.Atoi(s); err == nil {
			budget = time.Duration(v) * time.Second
		}
	}
	ctx := core.NewCtx(prop, tier, shard, n, time.Now().Add(budget))
	if rs := os.Getenv("VERIF_RESUME"); rs != "" {
		ctx.Resume, _ = strconv.ParseInt(rs, 10, 64)
	}
	func() {
		defer func() {
			if r := recover(); r != nil {
				if ee, ok := r.(core.EngineError); ok {
					ctx.R.EngineErr = ee.Msg
					return
				}
				ctx.R.EngineErr = fmt.Sprintf("harness panic: %v\n%s", r, debug.Stack())
			}
		}()
		ck.Run(ctx)
	}()
	out, err := json.Marshal(&ctx.R)
	if err != nil {
		fmt.Fprintln(os.Stderr, "marshal:", err)
		os.Exit(3)
	}
	_, _ = os.Stdout.Write(out)
}

func run(prop, tier string) int {
	start := time.Now()
	ck := props.Get(prop)
	if ck == nil {
		fmt.Fprintln(os.Stderr, "no such check", prop)
		return 2
	}
	n := runtime.NumCPU()
	if ck.Workers > 0 && ck.Workers < n {
		n = ck.Workers
	}
	if s := os.Getenv("VERIF_WORKERS"); s != "" {
		if v, err := strconv.Atoi(s); err == nil && v > 0 {
			n = v
		}
	}
	self, _ := os.Executable()
	var results []*core.Result
	var deaths, hangs []string
	var mu sync.Mutex
	annDir := filepath.Join(verifDir(), "build", "ann")
	_ = os.MkdirAll(annDir, 0o755)
	budget := ck.QuickBudget
	if tier == "thorough" {
		budget = ck.ThoroughBudget
	}
	if s := os.Getenv("VERIF_BUDGET_S"); s != "" {
		if v, err := strconv.Atoi(s); err == nil {
			budget = time.Duration(v) * time.Second
		}
	}
	limit := budget + budget/2 + 60*time.Second
	var wg sync.WaitGroup
	for i := 0; i < n; i++ {
		wg.Add(1)
		go func(i int) {
			defer wg.Done()
			// unique per driver process: two runs of one check at the same time (quick and thorough, say) must not share the
			// mapping - re-creating a file another worker has mapped kills that worker with SIGBUS
			annPath := filepath.Join(annDir, fmt.Sprintf("%s.%d.%d", prop, os.Getpid(), i))
			defer os.Remove(annPath)
			resume := int64(0)
			deadline := time.Now().Add(limit)
			for attempt := 0; attempt < 40; attempt++ {
				cmd := exec.Command(self, "worker", prop, tier, strconv.Itoa(i), strconv.Itoa(n))
				_ = core.NewAnnounceFile(annPath)
				cmd.Env = append(os.Environ(), "GOMAXPROCS="+strconv.Itoa(max(1, ck.ProcsPerWorker)), "VERIF_ANNOUNCE="+annPath, "VERIF_RESUME="+strconv.FormatInt(resume, 10))
				var so, se bytes.Buffer
				cmd.Stdout, cmd.Stderr = &so, &se
				err := cmd.Start()
				hung := false
				if err == nil {
					done := make(chan error, 1)
					go func() { done <- cmd.Wait() }()
					lastCtr, lastMove := int64(-1), time.Now()
				WAIT:
					for {
						select {
						case err = <-done:
							break WAIT
						case <-time.After(2 * time.Second):
							ctr, _ := core.ReadAnnounceCase(annPath)
							if ctr != lastCtr {
								lastCtr, lastMove = ctr, time.Now()
							}
							stalled := ck.Resumable && ctr > 0 && time.Since(lastMove) > ck.StallLimit
							if stalled || time.Now().After(deadline) {
								// stuck in one case (the worker's own deadline is only checked between cases): the announced case hangs
								_ = cmd.Process.Kill()
								<-done
								hung = true
								break WAIT
							}
						}
					}
				}
				ctr, announced := core.ReadAnnounceCase(annPath)
				if hung {
					if announced == "" {
						announced = "(no case announced)"
					}
					mu.Lock()
					hangs = append(hangs, announced)
					mu.Unlock()
					if ck.Resumable && ctr > resume && time.Now().Before(deadline) {
						resume = ctr
						continue
					}
					return
				}
				var r core.Result
				if jerr := json.Unmarshal(so.Bytes(), &r); jerr != nil || err != nil {
					tail := se.String()
					if len(tail) > 3000 {
						tail = tail[:1500] + "\n...\n" + tail[len(tail)-1500:]
					}
					d := fmt.Sprintf("worker %d/%d died: %v\n%s", i, n, err, tail)
					if announced != "" {
						d += "\nannounced case: " + announced
					}
					mu.Lock()
					deaths = append(deaths, d)
					mu.Unlock()
					if ck.Resumable && ctr > resume && time.Now().Before(deadline) && (strings.Contains(d, "fatal error") || strings.Contains(d, "goroutine stack exceeds")) {
						resume = ctr
						continue
					}
					return
				}
				mu.Lock()
				results = append(results, &r)
				mu.Unlock()
				return
			}
		}(i)
	}
	wg.Wait()

	total := core.Result{Counters: map[string]int64{}, Outcomes: map[string]int64{}, ViolCount: map[string]int64{}, Exhaustive: true}
	for _, r := range results {
		if r != nil {
			total.Merge(r)
		}
	}
	for _, h := range hangs {
		total.Exhaustive = false
		total.Violations = append(total.Violations, core.Violation{Property: prop, Kind: "hang",
			Attrs: map[string]string{"class": "no-return"}, Detail: map[string]interface{}{"announced_case": h}})
		total.ViolCount["hang|class=no-return"]++
	}
	for _, d := range deaths {
		// A worker that dies took the library down with it (Go fatal error) or the harness is broken.
		if strings.Contains(d, "goroutine stack exceeds") || strings.Contains(d, "fatal error") {
			cls := "fatal"
			if strings.Contains(d, "stack exceeds") || strings.Contains(d, "stack overflow") {
				cls = "stack-overflow"
			}
			total.Violations = append(total.Violations, core.Violation{Property: prop, Kind: "worker-death",
				Attrs: map[string]string{"class": cls}, Detail: d})
			total.ViolCount["worker-death|class="+cls]++
			total.Exhaustive = ck.Resumable && total.Exhaustive
		} else {
			total.EngineErr = d
		}
	}
	if total.EngineErr != "" {
		fmt.Println("ENGINE-ERROR:", total.EngineErr)
		writeEvidence(ck, prop, tier, &total, nil, 0, time.Since(start))
		return 2
	}

	findings, err := core.LoadFindings(filepath.Join(verifDir(), "known_findings.jsonl"))
	if err != nil {
		fmt.Println("ENGINE-ERROR:", err)
		return 2
	}
	hit := map[string]int64{}
	var unmatched []core.Violation
	unmatchedKeys := map[string]int64{}
	for i := range total.Violations {
		v := &total.Violations[i]
		if id := core.MatchFinding(findings, v); id != "" {
			v.Finding = id
			hit[id] += 1
		} else {
			unmatched = append(unmatched, *v)
			unmatchedKeys[v.Key()] = total.ViolCount[v.Key()]
		}
	}
	// count all occurrences (not only the kept details) per finding
	hitAll := map[string]int64{}
	for i := range total.Violations {
		v := &total.Violations[i]
		if v.Finding != "" {
			if _, done := hitAll[v.Finding+"|"+v.Key()]; !done {
				hitAll[v.Finding+"|"+v.Key()] = total.ViolCount[v.Key()]
			}
		}
	}
	perFinding := map[string]int64{}
	for k, c := range hitAll {
		perFinding[strings.SplitN(k, "|", 2)[0]] += c
	}
	ids := make([]string, 0, len(perFinding))
	for id := range perFinding {
		ids = append(ids, id)
	}
	sort.Strings(ids)
	for _, id := range ids {
		what := ""
		for _, f := range findings {
			if f.ID == id {
				what = f.What
			}
		}
		fmt.Printf("KNOWN-FINDING: property=%s %s %s (%d cases)\n", prop, id, what, perFinding[id])
	}

	nviol := 0
	if len(unmatched) > 0 {
		dir := filepath.Join(verifDir(), "replays", prop)
		_ = os.MkdirAll(dir, 0o755)
		printed := map[string]bool{}
		for _, v := range unmatched {
			k := v.Key()
			if printed[k] {
				continue
			}
			printed[k] = true
			nviol++
			b, _ := json.MarshalIndent(v, "", " ")
			path := filepath.Join(dir, fmt.Sprintf("%016x.json", core.Hash(string(b))))
			_ = os.WriteFile(path, b, 0o644)
			if nviol <= 40 {
				fmt.Printf("VIOLATION property=%s replay=%s kind=%s cases=%d\n", prop, path, k, unmatchedKeys[k])
			}
		}
	}
	writeEvidence(ck, prop, tier, &total, perFinding, nviol, time.Since(start))
	fmt.Printf("SUMMARY property=%s tier=%s evaluations=%d distinct=%d nontrivial=%d violations=%d known=%d exhaustive=%v bound=%q caps=%v wall=%.1fs\n",
		prop, tier, total.Evaluations, total.Distinct, total.Nontrivial, nviol, len(perFinding), total.Exhaustive, total.Bound, total.Caps, time.Since(start).Seconds())
	if nviol > 0 {
		return 1
	}
	return 0
}

func writeEvidence(ck *props.Check, prop, tier string, r *core.Result, known map[string]int64, nviol int, wall time.Duration) {
	seed := 0
	if s := os.Getenv("VERIF_SEED"); s != "" {
		seed, _ = strconv.Atoi(s)
	}
	samples := r.Samples
	if len(samples) > 12 {
		// keep first, a spread, and last
		step := len(samples) / 10
		var s2 []interface{}
		for i := 0; i < len(samples); i += step {
			s2 = append(s2, samples[i])
		}
		s2 = append(s2, samples[len(samples)-1])
		samples = s2
	}
	if len(samples) == 0 {
		samples = []interface{}{"(no sample recorded)"}
	}
	states := r.Distinct
	trans := r.Transitions
	cov := map[string]interface{}{
		"evaluations":                   r.Evaluations,
		"states":                        states,
		"transitions":                   trans,
		"traces_validated_against_impl": r.Evaluations,
		"distinct_nontrivial":           r.Nontrivial,
		"rule":                          ck.Rule,
		"samples":                       samples,
		"exhaustive":                    r.Exhaustive,
		"bound_completed":               r.Bound,
		"caps_hit":                      r.Caps,
		"counters":                      r.Counters,
		"distinct_outcomes":             len(r.Outcomes),
		"outcomes":                      r.Outcomes,
		"known_findings_hit":            known,
		"notes":                         r.Notes,
		"technique":                     ck.Technique,
	}
	if len(r.ViolCount) > 0 {
		vk := map[string]int64{}
		n := 0
		for k, v := range r.ViolCount {
			if n++; n > 400 {
				break
			}
			vk[k] = v
		}
		cov["violation_keys"] = vk
	}
	if r.EngineErr != "" {
		cov["engine_error"] = r.EngineErr
	}
	ev := map[string]interface{}{
		"property_id": prop,
		"tier":        tier,
		"seed":        seed,
		"level":       "model_checking",
		"coverage":    cov,
		"assumptions": ck.Assumptions,
		"wall_s":      wall.Seconds(),
		"violations":  nviol,
	}
	b, _ := json.MarshalIndent(ev, "", " ")
	dir := filepath.Join(verifDir(), "evidence")
	if d := os.Getenv("VERIF_EVIDENCE_DIR"); d != "" {
		dir = d // runs against a deliberately broken tree (bin/seedtest.sh) must not overwrite the evidence of the real tree
	}
	_ = os.MkdirAll(dir, 0o755)
	_ = os.WriteFile(filepath.Join(dir, prop+".json"), b, 0o644)
}

func replay(path string) int {
	b, err := os.ReadFile(path)
	if err != nil {
		fmt.Fprintln(os.Stderr, err)
		return 2
	}
	var v core.Violation
	if err := json.Unmarshal(b, &v); err != nil {
		fmt.Fprintln(os.Stderr, err)
		return 2
	}
	ck := props.Get(v.Property)
	if ck == nil || ck.Replay == nil {
		fmt.Println("no replay function for", v.Property, "- the file holds the rendered inputs and the expected/observed values")
		return 2
	}
	d, _ := json.Marshal(v.Detail)
	ok, msg := ck.Replay(d)
	fmt.Println(msg)
	if !ok {
		fmt.Printf("VIOLATION property=%s replay=%s\n", v.Property, path)
		return 1
	}
	return 0
}
