package sgen

import "fmt"

// Variant is a well-formed schema one valid edit away from another.
type Variant struct {
	Schema *Schema
	Desc   string
}

// ValidVariants returns schemas obtained from s by one rule-preserving edit at every applicable site:
// descriptions, new fields under every wrapper, optional arguments with defaults, enum values, union
// members, members moved into extend blocks, directive uses at declared locations, deprecations.
func ValidVariants(s *Schema) []Variant {
	var out []Variant
	add := func(m *Schema, desc string) { out = append(out, Variant{m, desc}) }
	var objs, inputs, enums []string
	for _, d := range s.Defs {
		switch d.Kind {
		case KObject:
			objs = append(objs, d.Name)
		case KInput:
			inputs = append(inputs, d.Name)
		case KEnum:
			enums = append(enums, d.Name)
		}
	}
	for di, d := range s.Defs {
		if d.Extend {
			continue
		}
		// description on the definition and on its first member
		m := s.Clone()
		m.Defs[di].Desc = "about " + d.Name
		add(m, "description on "+d.Name)
		m = s.Clone()
		m.Defs[di].Desc = "first line\nsecond \"quoted\" line"
		add(m, "multi-line description on "+d.Name)
		switch d.Kind {
		case KObject, KInterface:
			if d.Kind == KInterface {
				// adding a field to an interface breaks its implementers: only extend objects here
				m := s.Clone()
				m.Defs[di].Fields[0].Desc = "described field"
				add(m, "field description")
				// one more object type that implements it (a new unit: as a later load it joins the possible types)
				m = s.Clone()
				impl := &Def{Kind: KObject, Name: "Zimpl" + d.Name, Implements: []string{d.Name}}
				for _, f := range d.Fields {
					nf := &Field{Name: f.Name, Type: cloneT(f.Type)}
					for _, a := range f.Args {
						nf.Args = append(nf.Args, &Arg{Name: a.Name, Type: cloneT(a.Type), HasDef: a.HasDef, Default: cloneVal(a.Default)})
					}
					impl.Fields = append(impl.Fields, nf)
				}
				m.Defs = append(m.Defs, impl)
				add(m, "new implementer of "+d.Name)
				continue
			}
			for wi, t := range []*T{N("Int"), NN(N("String")), L(N("ID")), L(L(NN(N("Float")))), NN(L(NN(N(d.Name))))} {
				m := s.Clone()
				m.Defs[di].Fields = append(m.Defs[di].Fields, fld(fmt.Sprintf("nf%d", wi), t))
				add(m, fmt.Sprintf("new field %s on %s", t, d.Name))
				// the same through an extend block placed after and before the target
				m = s.Clone()
				m.Defs = append(m.Defs, (&Def{Kind: KObject, Name: d.Name, Fields: []*Field{fld(fmt.Sprintf("nf%d", wi), t)}}).Ext())
				add(m, "new field through extend after target")
			}
			m = s.Clone()
			m.Defs = append([]*Def{(&Def{Kind: KObject, Name: d.Name, Fields: []*Field{fld("nfx", N("Int"))}}).Ext()}, m.Defs...)
			add(m, "new field through extend before target")
			m = s.Clone()
			m.Defs[di].Fields[0].Args = append(m.Defs[di].Fields[0].Args, argD("opt", N("Int"), 5).D("optional"))
			if !implementsAny(d) {
				m2 := s.Clone()
				m2.Defs[di].Fields[0].Args = append(m2.Defs[di].Fields[0].Args, argD("blank", N("String"), ""), argD("nought", N("Int"), 0), argD("off", N("Boolean"), false), argD("none", L(N("Int")), []interface{}{}))
				add(m2, "optional arguments whose defaults are the empty string, zero, false and the empty list")
				add(m, "optional argument with default and description")
			} else {
				add(m, "optional extra argument on an implementing field")
			}
			for fi := len(d.Fields) - 1; fi >= 0; fi-- {
				already := false
				for _, u := range d.Fields[fi].Dirs {
					if u.Name == "deprecated" {
						already = true
					}
				}
				if !already {
					m = s.Clone()
					m.Defs[di].Fields[fi].Dirs = append(m.Defs[di].Fields[fi].Dirs, du("deprecated", "reason", "because \"x\""))
					add(m, "deprecated field with reason")
					m = s.Clone()
					m.Defs[di].Fields[fi].Dirs = append(m.Defs[di].Fields[fi].Dirs, DirUse{Name: "deprecated", Args: []KV{{Name: "reason", Value: nil}}})
					add(m, "deprecated field with an explicit null reason")
					break
				}
			}
			for _, in := range inputs {
				m := s.Clone()
				m.Defs[di].Fields = append(m.Defs[di].Fields, fld("withInput", N("Int"), arg("in", L(NN(N(in))))))
				add(m, "argument of input type "+in)
			}
			for _, en := range enums {
				m := s.Clone()
				m.Defs[di].Fields = append(m.Defs[di].Fields, fld("enumField", L(N(en)), argD("e", N(en), E(s.Def(en).Values[0].Name))))
				add(m, "enum field and argument default "+en)
			}
		case KEnum:
			m := s.Clone()
			m.Defs[di].Values = append(m.Defs[di].Values, &EnumVal{Name: "NEWV", Desc: "new value"})
			add(m, "new enum value with description")
			m = s.Clone()
			m.Defs = append(m.Defs, (&Def{Kind: KEnum, Name: d.Name, Values: []*EnumVal{{Name: "EXTV"}}}).Ext())
			add(m, "enum value through extend")
			m = s.Clone()
			m.Defs[di].Values[0].Dirs = append(m.Defs[di].Values[0].Dirs, du("deprecated"))
			add(m, "deprecated enum value")
			if len(d.Values) > 1 {
				m = s.Clone()
				m.Defs[di].Values[len(d.Values)-1].Dirs = append(m.Defs[di].Values[len(d.Values)-1].Dirs, DirUse{Name: "deprecated", Args: []KV{{Name: "reason", Value: nil}}})
				add(m, "enum value deprecated with an explicit null reason")
			}
		case KUnion:
			for _, o := range objs {
				dup := false
				for _, mm := range d.Members {
					if mm == o {
						dup = true
					}
				}
				if !dup {
					m := s.Clone()
					m.Defs[di].Members = append(m.Defs[di].Members, o)
					add(m, "new union member "+o)
					m = s.Clone()
					m.Defs = append(m.Defs, (&Def{Kind: KUnion, Name: d.Name, Members: []string{o}}).Ext())
					add(m, "union member through extend")
					break
				}
			}
		case KInput:
			m := s.Clone()
			m.Defs[di].Fields = append(m.Defs[di].Fields, ifldD("ni", L(N("Int")), []interface{}{1, 2, 3}).D("list default"))
			add(m, "input field with list default")
			m = s.Clone()
			m.Defs = append(m.Defs, (&Def{Kind: KInput, Name: d.Name, Fields: []*Field{ifld("ext", N("String"))}}).Ext())
			add(m, "input field through extend")
			m = s.Clone()
			m.Defs[di].Fields = append(m.Defs[di].Fields, ifldD("blank", N("String"), ""), ifldD("nought", N("Int"), 0), ifldD("off", N("Boolean"), false))
			add(m, "input fields whose defaults are the empty string, zero and false")
		case KDirective:
			m := s.Clone()
			m.Defs[di].Args = append(m.Defs[di].Args, argD("extra", N("Boolean"), true))
			add(m, "directive argument with default")
			m = s.Clone()
			m.Defs[di].Args = append(m.Defs[di].Args, argD("blank", N("String"), ""), argD("off", N("Boolean"), false))
			add(m, "directive arguments whose defaults are the empty string and false")
		}
	}
	// directive uses at every declared location of every directive
	for _, dd := range s.Defs {
		if dd.Kind != KDirective {
			continue
		}
		for _, ds := range dirSites(s) {
			declared := false
			for _, l := range dd.Locations {
				if l == ds.loc {
					declared = true
				}
			}
			// ggql locates argument definitions as INPUT_FIELD_DEFINITION (finding C13-F1): only use directives declared for both there
			if ds.loc == "ARGUMENT_DEFINITION" {
				both := 0
				for _, l := range dd.Locations {
					if l == "ARGUMENT_DEFINITION" || l == "INPUT_FIELD_DEFINITION" {
						both++
					}
				}
				declared = both == 2
			}
			already := false
			for _, u := range *ds.get(s) {
				if u.Name == dd.Name {
					already = true
				}
			}
			if !declared || already {
				continue
			}
			m := s.Clone()
			use := du(dd.Name)
			if len(dd.Args) > 0 && dd.Args[0].HasDef {
				use = du(dd.Name, dd.Args[0].Name, dd.Args[0].Default)
			}
			*ds.get(m) = append(*ds.get(m), use)
			add(m, "@"+dd.Name+" on "+ds.at)
		}
	}
	// a new standalone object, interface with implementer, input, enum, union, scalar, directive
	m := s.Clone()
	m.Defs = append(m.Defs, intf("NewI", fld("x", N("Int"), arg("a", N("Int")))), obj("NewO", fld("x", NN(N("Int")), arg("a", N("Int")), arg("b", N("String")))).Impl("NewI"),
		uni("NewU", "NewO"), enu("NewE", "P", "Q"), inp("NewIn", ifldD("e", N("NewE"), E("Q"))), scl("NewS"), dir("newd", []string{"OBJECT", "UNION"}, arg("x", N("NewIn"))))
	add(m, "one new definition of every kind")
	// the implicit schema extended with a custom-named mutation root (no schema block anywhere)
	if len(s.Blocks) == 0 && s.Def("Mutation") == nil && s.Def("Change") == nil {
		m := s.Clone()
		m.Defs = append(m.Defs, obj("Change", fld("bump", N("Int"))))
		m.Blocks = []*SchemaBlock{{Extend: true, Mutation: "Change"}}
		add(m, "implicit schema extended with mutation: Change")
	}
	// the query root implementing an interface (root types sit in their own rank of the type table)
	if q, _, _ := s.RootTypes(); q != "" && s.Def("RootIf") == nil {
		if qd := s.Def(q); qd != nil && len(qd.Fields) > 0 && len(qd.Fields[0].Args) == 0 {
			m := s.Clone()
			f0 := qd.Fields[0]
			m.Defs = append(m.Defs, intf("RootIf", fld(f0.Name, f0.Type)), obj("OtherImpl", fld(f0.Name, f0.Type)).Impl("RootIf"))
			m.Def(q).Implements = append(m.Def(q).Implements, "RootIf")
			add(m, "the query root implements an interface")
		}
	}
	// root operation types: an explicit schema block that names only the query root, beside ordinary object types that
	// happen to be called Mutation and Subscription (they are NOT root types then); and, with no block, the same two
	// objects, which then are the roots by their names
	if q, _, _ := s.RootTypes(); q != "" {
		for _, explicit := range []bool{true, false} {
			if !explicit && len(s.Blocks) > 0 {
				continue
			}
			m := s.Clone()
			if explicit {
				if len(m.Blocks) > 0 {
					continue
				}
				m.Blocks = []*SchemaBlock{{Query: q}}
			}
			added := false
			for _, n := range []string{"Mutation", "Subscription"} {
				if m.Def(n) == nil {
					m.Defs = append(m.Defs, obj(n, fld("op"+n, N("Int"))))
					added = true
				}
			}
			if added || explicit {
				add(m, fmt.Sprintf("objects named Mutation and Subscription, explicit schema block naming only the query root: %v", explicit))
			}
		}
	}
	return out
}

func implementsAny(d *Def) bool { return len(d.Implements) > 0 }

// Probes are well-formed schemas exercising single acceptance rules that the bases deliberately avoid.
func Probes() []Variant {
	return []Variant{
		{&Schema{Defs: []*Def{obj("Query", fld("i", N("Int"))).With(du("d")), dir("onarg", []string{"ARGUMENT_DEFINITION"}), dir("d", []string{"OBJECT"}, arg("x", N("Int")).With(du("onarg")))}},
			"directive-declared-for-ARGUMENT_DEFINITION-on-a-directive-argument"},
		{&Schema{Defs: []*Def{obj("Query", fld("i", N("Int"), arg("x", N("Int")).With(du("onarg")))), dir("onarg", []string{"ARGUMENT_DEFINITION"})}},
			"directive-declared-for-ARGUMENT_DEFINITION-on-a-field-argument"},
		{&Schema{Defs: []*Def{obj("Query", fld("p", N("Pet")), fld("ps", L(N("Pet")))), intf("Pet", fld("friend", N("Pet")), fld("friends", L(N("Pet"))), fld("best", NN(N("Pet")))),
			obj("Dog", fld("friend", NN(N("Dog"))), fld("friends", NN(L(NN(N("Dog"))))), fld("best", NN(N("Dog")))).Impl("Pet")}},
			"covariant-non-null-and-list-field-types"},
	}
}
