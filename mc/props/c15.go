package props

import (
	"fmt"
	"math"
	"os"
	"os/exec"
	"path/filepath"
	"strings"
	"regexp"
	"sort"
	"time"

	"github.com/uhn/ggql/pkg/ggql"

	"verif/mc/core"
	"verif/mc/sgen"
)

// C15 — printed SDL re-parses to the same schema (DESIGN 5.15).

func init() {
	Register(&Check{
		ID:  "C15",
		Run: runC15,
		Rule: "A: every accepted schema of the C13 accepting side (bases, single valid edits; thorough: pairs) loaded via SDL and via AddTypes; " +
			"B: a site schema with every description site (type of each kind, field, argument, enum value, input field, directive, directive argument) and every string-constant site (argument default, input-field default, " +
			"directive-argument default, directive-use argument, nested in a list / object default) x every string of <= 2 (thorough 3) units over {a, space, quote, backslash, LF, CR, TAB, #, triple-quote, backslash-quote, e-acute, emoji, 0x01}; " +
			"C: the built ggqlgen run with -w and with -e on the base schemas. Oracle: the printed SDL is accepted by a fresh root, both roots read back to the same canonical description, printing again is a fixed point. " +
			"distinct = (schema, route); non-trivial = the string under test needs an escape or the schema is not a base",
		Technique:      "bounded-exhaustive enumeration of schemas and string contents on the real printer/parser with a read-back differential oracle",
		Assumptions:    []string{"descriptions are compared as the parser normalises them (trimmed lines, no blank lines - changelog 0.9.13)", "a null default is indistinguishable from no default and is not generated"},
		QuickBudget:    90 * time.Second,
		ThoroughBudget: 20 * time.Minute,
	})
}

var c15Units = []string{"a", " ", "\"", "\\", "\n", "\r", "\t", "#", "\"\"\"", "\\\"", "é", "😀", "\x01", "\U000E0067"} // the last: not printable and beyond the BMP (a tag character)

func c15Strings(maxLen int) []string {
	out := []string{}
	var rec func(prefix string, n int)
	rec = func(prefix string, n int) {
		if n > 0 {
			out = append(out, prefix)
		}
		if n == maxLen {
			return
		}
		for _, u := range c15Units {
			rec(prefix+u, n+1)
		}
	}
	rec("", 0)
	return out
}

func c15Class(s string) string {
	switch {
	case strings.Contains(s, `"""`):
		return "triple-quote"
	case strings.Contains(s, "\\"):
		return "backslash"
	case strings.Contains(s, "\""):
		return "quote"
	case strings.Contains(s, "\x01"):
		return "control"
	case strings.ContainsAny(s, "\n\r"):
		return "newline"
	case strings.Contains(s, "\t"):
		return "tab"
	case strings.Contains(s, "#"):
		return "hash"
	case strings.ContainsAny(s, "é😀\U000E0067"):
		return "non-ascii"
	case strings.TrimSpace(s) != s:
		return "outer-space"
	}
	return "plain"
}

// c15Sites builds the site schema with string x placed at the named site.
func c15Sites() []string {
	return []string{"desc:object", "desc:field", "desc:argument", "desc:enum", "desc:enum-value", "desc:input", "desc:input-field", "desc:scalar", "desc:union", "desc:interface", "desc:interface-field",
		"desc:directive", "desc:directive-argument",
		"const:argument-default", "const:input-field-default", "const:directive-argument-default", "const:directive-use-on-type", "const:directive-use-on-field", "const:list-default", "const:object-default", "const:scalar-object-key"}
}

func c15SiteSchema(site, x string) *sgen.Schema {
	d := func(s string) string {
		if site == "desc:"+s {
			return x
		}
		return ""
	}
	k := func(s, def string) interface{} {
		if site == "const:"+s {
			return x
		}
		return def
	}
	N, L := sgen.N, sgen.L
	s := &sgen.Schema{Defs: []*sgen.Def{
		{Kind: sgen.KDirective, Name: "dd", Desc: d("directive"), Locations: []string{"OBJECT", "FIELD_DEFINITION"},
			Args: []*sgen.Arg{{Name: "x", Desc: d("directive-argument"), Type: N("String"), HasDef: true, Default: k("directive-argument-default", "DEF")}}},
		{Kind: sgen.KObject, Name: "Query", Desc: d("object"), Dirs: []sgen.DirUse{{Name: "dd", Args: []sgen.KV{{Name: "x", Value: k("directive-use-on-type", "USE")}}}},
			Fields: []*sgen.Field{
				{Name: "f", Desc: d("field"), Type: N("Int"), Dirs: []sgen.DirUse{{Name: "dd", Args: []sgen.KV{{Name: "x", Value: k("directive-use-on-field", "USE2")}}}},
					Args: []*sgen.Arg{{Name: "a", Desc: d("argument"), Type: N("String"), HasDef: true, Default: k("argument-default", "DEF")},
						{Name: "l", Type: L(N("String")), HasDef: true, Default: []interface{}{"p", k("list-default", "q")}},
						{Name: "o", Type: N("In"), HasDef: true, Default: map[string]interface{}{"s": k("object-default", "r")}},
					// a free-form object for a custom scalar: the string is a KEY
					{Name: "j", Type: N("Sc"), HasDef: true, Default: map[string]interface{}{k("scalar-object-key", "key").(string): 1, "z": []interface{}{map[string]interface{}{k("scalar-object-key", "key").(string): "v"}}}}}},
				{Name: "e", Type: N("En")}, {Name: "sc", Type: N("Sc")}, {Name: "u", Type: N("U")}, {Name: "i", Type: N("If")}}},
		{Kind: sgen.KEnum, Name: "En", Desc: d("enum"), Values: []*sgen.EnumVal{{Name: "V", Desc: d("enum-value")}, {Name: "W"}}},
		{Kind: sgen.KInput, Name: "In", Desc: d("input"), Fields: []*sgen.Field{{Name: "s", Desc: d("input-field"), Type: N("String"), HasDef: true, Default: k("input-field-default", "DEF")}}},
		{Kind: sgen.KScalar, Name: "Sc", Desc: d("scalar")},
		{Kind: sgen.KUnion, Name: "U", Desc: d("union"), Members: []string{"Ob"}},
		{Kind: sgen.KInterface, Name: "If", Desc: d("interface"), Fields: []*sgen.Field{{Name: "g", Desc: d("interface-field"), Type: N("Int")}}},
		{Kind: sgen.KObject, Name: "Ob", Implements: []string{"If"}, Fields: []*sgen.Field{{Name: "g", Type: N("Int")}}},
	}}
	return s
}

// normalizeDescs returns a copy whose descriptions are what the parser stores (lines trimmed, blank lines dropped).
func normalizeDescs(s *sgen.Schema) *sgen.Schema {
	c := s.Clone()
	for _, d := range c.Defs {
		d.Desc = sgen.NormalizeDesc(d.Desc)
		for _, f := range d.Fields {
			f.Desc = sgen.NormalizeDesc(f.Desc)
			for _, a := range f.Args {
				a.Desc = sgen.NormalizeDesc(a.Desc)
			}
		}
		for _, v := range d.Values {
			v.Desc = sgen.NormalizeDesc(v.Desc)
		}
		for _, a := range d.Args {
			a.Desc = sgen.NormalizeDesc(a.Desc)
		}
	}
	return c
}

// c15One runs the round trip for one schema and route. attrs carries the site/class for findings.
func c15One(c *core.Ctx, s *sgen.Schema, desc, route string, attrs map[string]string) {
	c.Eval()
	detail := func(msg string, extra ...string) map[string]interface{} {
		m := map[string]interface{}{"schema": desc, "route": route, "input_sdl": s.SDL(), "diff": msg}
		for i := 0; i+1 < len(extra); i += 2 {
			m[extra[i]] = extra[i+1]
		}
		return m
	}
	with := func(k, v string) map[string]string {
		m := map[string]string{k: v, "route": route}
		for a, b := range attrs {
			m[a] = b
		}
		return m
	}
	var l schemaLoad
	if route == "sdl" {
		l = loadSDL(s.SDL())
	} else {
		l, _ = loadTypes(s)
	}
	if l.pi != nil {
		c.Outcome("panic")
		c.Violation("panic", map[string]string{"site": l.pi.Site, "class": l.pi.Class, "where": "first-load"}, detail(l.pi.Value))
		return
	}
	if l.err != nil {
		// the generator's own rendering was refused: this is C13's business, but it would make this check vacuous
		c.Outcome("first-load-refused")
		c.Violation("first-load-refused", with("why", errClass(l.err.Error())), detail(l.err.Error()))
		return
	}
	dn := s.DirectiveNames()
	one, err := sgen.FromRoot(l.root, dn)
	if err != nil {
		c.Outcome("readback-error")
		c.Violation("readback-error", with("stage", "first"), detail(err.Error()))
		return
	}
	// what was loaded is what was written (descriptions as the parser normalises them)
	want := normalizeDescs(s).Canonical(sgen.CanonOpts{})
	got1 := one.Canonical(sgen.CanonOpts{})
	if route == "addtypes" {
		got1 = normalizeDescs(one).Canonical(sgen.CanonOpts{})
	}
	if got1 != want {
		c.Outcome("load-differs")
		c.Violation("load-differs", with("stage", "first-load"), detail(firstLineDiff(want, got1)))
		return
	}
	var s1 string
	if pi := core.Safe(func() { s1 = l.root.SDL(false, true) }); pi != nil {
		c.Outcome("panic")
		c.Violation("panic", map[string]string{"site": pi.Site, "class": pi.Class, "where": "print"}, detail(pi.Value))
		return
	}
	l2 := loadSDL(s1)
	if l2.pi != nil {
		c.Outcome("panic")
		c.Violation("panic", map[string]string{"site": l2.pi.Site, "class": l2.pi.Class, "where": "reload"}, detail(l2.pi.Value, "printed", s1))
		return
	}
	if l2.err != nil {
		c.Outcome("printed-sdl-refused")
		c.Violation("roundtrip", with("what", "printed-sdl-refused"), detail(l2.err.Error(), "printed", s1))
		return
	}
	two, err := sgen.FromRoot(l2.root, dn)
	if err != nil {
		c.Violation("readback-error", with("stage", "second"), detail(err.Error(), "printed", s1))
		return
	}
	got2 := two.Canonical(sgen.CanonOpts{})
	cmp1 := got1
	if route == "addtypes" {
		cmp1 = normalizeDescs(one).Canonical(sgen.CanonOpts{})
		got2 = normalizeDescs(two).Canonical(sgen.CanonOpts{})
	}
	if got2 != cmp1 {
		c.Outcome("schema-changed")
		c.Violation("roundtrip", with("what", "schema-changed"), detail(firstLineDiff(cmp1, got2), "printed", s1))
		return
	}
	s2 := l2.root.SDL(false, true)
	if s2 != s1 && route == "sdl" {
		c.Outcome("not-a-fixed-point")
		c.Violation("roundtrip", with("what", "not-a-fixed-point"), detail(firstLineDiff(s1, s2), "printed", s1))
		return
	}
	// per type: the SDL each type and directive prints for itself (Type.SDL(true)), assembled in the REVERSE of the root's order,
	// is accepted by a fresh root and defines the same schema
	var per []string
	if pi := core.Safe(func() {
		for _, t := range append(append([]ggql.Type{}, l.root.Types()...), l.root.Directives()...) {
			if !t.Core() {
				per = append([]string{t.SDL(true)}, per...)
			}
		}
	}); pi != nil {
		c.Outcome("panic")
		c.Violation("panic", map[string]string{"site": pi.Site, "class": pi.Class, "where": "per-type-print"}, detail(pi.Value))
		return
	}
	perText := strings.Join(per, "\n")
	// a schema that was never declared is not one of the root's types: what an 'extend schema' added to it travels as that extension
	for _, b := range one.Blocks {
		if b.Extend {
			perText += "\n" + (sgen.Unit{Block: b}).Text()
		}
	}
	lp := loadSDL(perText)
	if lp.pi != nil || lp.err != nil {
		c.Outcome("per-type-sdl-refused")
		c.Violation("roundtrip", with("what", "per-type-sdl-refused"), detail(fmt.Sprint(lp.err, lp.pi), "printed", perText))
		return
	}
	if pt, err := sgen.FromRoot(lp.root, dn); err != nil {
		c.Violation("readback-error", with("stage", "per-type"), detail(err.Error(), "printed", perText))
		return
	} else {
		gotP := pt.Canonical(sgen.CanonOpts{})
		if route == "addtypes" {
			gotP = normalizeDescs(pt).Canonical(sgen.CanonOpts{})
		}
		if gotP != cmp1 {
			c.Outcome("schema-changed")
			c.Violation("roundtrip", with("what", "per-type-schema-changed"), detail(firstLineDiff(cmp1, gotP), "printed", perText))
			return
		}
	}
	if route == "addtypes" {
		// un-normalised descriptions print as given and come back normalised: the fixed point is reached one step later
		l3 := loadSDL(s2)
		if l3.err != nil || l3.pi != nil {
			c.Violation("roundtrip", with("what", "second-print-refused"), detail(fmt.Sprint(l3.err), "printed", s2))
			return
		}
		if s3 := l3.root.SDL(false, true); s3 != s2 {
			c.Outcome("not-a-fixed-point")
			c.Violation("roundtrip", with("what", "not-a-fixed-point"), detail(firstLineDiff(s2, s3), "printed", s2))
			return
		}
	}
	c.Outcome("roundtrip-ok")
}

func runC15(c *core.Ctx) {
	ggql.Sort = true // object defaults print in key order
	defer func() { ggql.Sort = false }()
	completed := true
	// ---- A: generated schemas
	bases := sgen.Bases()
	var subjects []*sgen.Schema
	var descs []string
	for i, b := range bases {
		subjects, descs = append(subjects, b), append(descs, fmt.Sprintf("base S%d", i))
		for _, v := range sgen.ValidVariants(b) {
			subjects, descs = append(subjects, v.Schema), append(descs, fmt.Sprintf("S%d + %s", i, v.Desc))
			if c.Thorough() && i != 1 {
				for _, v2 := range sgen.ValidVariants(v.Schema) {
					subjects, descs = append(subjects, v2.Schema), append(descs, fmt.Sprintf("S%d + %s + %s", i, v.Desc, v2.Desc))
				}
			}
		}
	}
	for i, s := range subjects {
		if c.Expired() {
			completed = false
			break
		}
		if len(s.WellFormed()) > 0 || !c.Owns("A|"+s.SDL()) {
			continue
		}
		if i >= len(bases) {
			c.Nontrivial()
		}
		c15One(c, s, descs[i], "sdl", map[string]string{"part": "A"})
		if len(s.Blocks) == 0 {
			c15One(c, s, descs[i], "addtypes", map[string]string{"part": "A"})
		}
		c.Sample(func() interface{} { return map[string]interface{}{"part": "A", "schema": descs[i]} })
	}
	// ---- B: string alphabet at every site
	maxLen := 2
	if c.Thorough() {
		maxLen = 3
	}
	strs := c15Strings(maxLen)
	for _, site := range c15Sites() {
		for _, x := range strs {
			if c.Expired() {
				completed = false
				break
			}
			if strings.HasPrefix(site, "desc:") && sgen.NormalizeDesc(x) == "" {
				continue // a description that normalises to nothing is no description
			}
			if !c.Owns("B|" + site + "|" + x) {
				continue
			}
			cls := c15Class(x)
			if cls != "plain" {
				c.Nontrivial()
			}
			s := c15SiteSchema(site, x)
			attrs := map[string]string{"part": "B", "site": site, "strclass": cls}
			c15One(c, s, fmt.Sprintf("site schema, %s = %q", site, x), "sdl", attrs)
			c15One(c, s, fmt.Sprintf("site schema, %s = %q", site, x), "addtypes", attrs)
			c.Sample(func() interface{} { return map[string]interface{}{"part": "B", "site": site, "string": fmt.Sprintf("%q", x)} })
		}
	}
	// ---- B2: number alphabet at every constant site (Float64 positions): integers, fractions, integral floats, and the
	// magnitudes at which a shortest-form printer switches to exponent notation (>= 1e21, < 1e-4), the extremes of float64
	nums := []interface{}{nil, 0, 1, -1, 2147483647, -2147483648, 0.5, -1.25, 2.0, 0.1, 123456789.125, 1e15, 1e16, 1e20, 1e21, -1e21, 1.5e21, 1e-4, 1e-5, 1e-7, 1.5e-7, -1e-7, 1e100, 1.7976931348623157e308, 5e-324}
	for _, site := range c15NumSites {
		for _, x := range nums {
			if !c.Owns(fmt.Sprintf("B2|%s|%v", site, x)) {
				continue
			}
			if x == nil && strings.HasSuffix(site, "-default") && site != "list-default" && site != "object-default" {
				continue // ggql does not tell "= null" from "no default" (both read back as no default): not demanded
			}
			c.Nontrivial()
			cls := "integer"
			if x == nil {
				cls = "explicit-null" // a value like any other: it must be printed, it switches a default off
			}
			if f, ok := x.(float64); ok {
				cls = "fraction"
				if f == float64(int64(f)) && f < 1e15 && f > -1e15 {
					cls = "integral-float"
				} else if f >= 1e21 || f <= -1e21 || (f < 1e-4 && f > -1e-4) {
					cls = "exponent-form"
				}
			}
			s := c15NumSchema(site, x)
			attrs := map[string]string{"part": "B2", "site": site, "numclass": cls}
			c15One(c, s, fmt.Sprintf("number site schema, %s = %v", site, x), "sdl", attrs)
			c15One(c, s, fmt.Sprintf("number site schema, %s = %v", site, x), "addtypes", attrs)
		}
	}
	// ---- B3: the same sites typed Float (32 bits wide in ggql) with numbers a float32 holds exactly, up to its extremes: the
	// printer writes the shortest text that reads back as the same float32, and that text must be a Float for the reader too
	f32s := []interface{}{0.5, -1.25, 1048576.5, float64(math.MaxFloat32), -float64(math.MaxFloat32), float64(math.SmallestNonzeroFloat32), 1.1754943508222875e-38, 16777216.0}
	for _, site := range c15NumSites {
		for _, x := range f32s {
			if !c.Owns(fmt.Sprintf("B3|%s|%v", site, x)) {
				continue
			}
			c.Nontrivial()
			c.Eval()
			s := c15NumSchemaOf("Float", site, x)
			// (the read-back comparison of c15One reads a float32 through its shortest text, which is not the float64 the
			// reference holds at the extremes: here the statement is checked as it is written - what loaded is printed, the
			// print is accepted by a fresh root, and prints again as the same text)
			attrs := map[string]string{"part": "B3", "site": site, "numclass": "float32-exact"}
			text := s.SDL()
			var p1, p2 string
			var err1, err2 error
			pi := core.Safe(func() {
				r1 := ggql.NewRoot(c16Dummy{})
				if err1 = r1.ParseString(text); err1 != nil {
					return
				}
				p1 = r1.SDL(false, true)
				r2 := ggql.NewRoot(c16Dummy{})
				if err2 = r2.ParseString(p1); err2 != nil {
					return
				}
				p2 = r2.SDL(false, true)
			})
			detail := map[string]interface{}{"site": site, "number": fmt.Sprint(x), "sdl": text, "printed": p1, "printed_again": p2}
			switch {
			case pi != nil:
				detail["panic"] = pi.Value
				c.Violation("panic", map[string]string{"site": pi.Site, "class": pi.Class, "part": "B3"}, detail)
			case err1 != nil:
				panic(core.EngineError{Msg: "C15 B3 schema refused: " + err1.Error() + "\n" + text})
			case err2 != nil:
				detail["diff"] = "the printed schema is refused: " + err2.Error()
				attrs["stage"] = "reload"
				c.Outcome("printed-sdl-refused")
				c.Violation("load-differs", attrs, detail)
			case p1 != p2:
				detail["diff"] = firstLineDiff(p1, p2)
				attrs["stage"] = "second-print"
				c.Outcome("not-a-fixed-point")
				c.Violation("load-differs", attrs, detail)
			default:
				c.Outcome("B3-agree")
			}
		}
	}
	// ---- B4: defaults inside defaults: an input field whose default is an object (or a list of objects) of another input type
	// that has defaulted fields of its own, reached through a directive use / a directive argument default (the places where the
	// loader keeps coerced values): print, reload, print again
	for ni, text := range []string{
		"input In2 { a: Int b: Int = 2 }\ninput Pt { x: Int y: Int = 5 inner: In2 = {a: 1} }\ndirective @d(p: Pt) on OBJECT\ntype A @d(p: {x: 1}) { i: Int }\ntype Query { a: A }\n",
		"input In2 { a: Int b: Int = 2 }\ninput Pt { x: Int inner: In2 = {a: 1} }\ndirective @d(p: Pt = {x: 1}) on OBJECT\ntype Query @d { i: Int }\n",
		"input In2 { a: Int b: Int = 2 }\ninput Pt { x: Int ins: [In2] = [{a: 1}, {b: 3}] }\ndirective @d(p: Pt) on OBJECT\ntype Query @d(p: {x: 1}) { i: Int }\n",
		"input In3 { c: String = \"c\" }\ninput In2 { a: Int deep: In3 = {} }\ninput Pt { x: Int inner: In2 = {a: 1} }\ndirective @d(p: [Pt]) on OBJECT\ntype Query @d(p: [{x: 1}, {inner: {a: 2}}]) { i: Int }\n",
	} {
		if !c.Owns(fmt.Sprintf("B4|%d", ni)) {
			continue
		}
		c.Nontrivial()
		c.Eval()
		c.R.Distinct++
		var p1, p2 string
		var err1, err2 error
		pi := core.Safe(func() {
			r1 := ggql.NewRoot(c16Dummy{})
			if err1 = r1.ParseString(text); err1 != nil {
				return
			}
			p1 = r1.SDL(false, true)
			r2 := ggql.NewRoot(c16Dummy{})
			if err2 = r2.ParseString(p1); err2 != nil {
				return
			}
			p2 = r2.SDL(false, true)
		})
		detail := map[string]interface{}{"sdl": text, "printed": p1, "printed_again": p2}
		attrs := map[string]string{"part": "B4", "site": "default-inside-default"}
		switch {
		case pi != nil:
			detail["panic"] = pi.Value
			c.Violation("panic", map[string]string{"site": pi.Site, "class": pi.Class, "part": "B4"}, detail)
		case err1 != nil:
			panic(core.EngineError{Msg: "C15 B4 schema refused: " + err1.Error() + "\n" + text})
		case err2 != nil:
			detail["diff"] = "the printed schema is refused: " + err2.Error()
			attrs["stage"] = "reload"
			c.Violation("load-differs", attrs, detail)
		case p1 != p2:
			detail["diff"] = firstLineDiff(p1, p2)
			attrs["stage"] = "second-print"
			c.Outcome("not-a-fixed-point")
			c.Violation("load-differs", attrs, detail)
		default:
			c.Outcome("B4-agree")
		}
	}
	// ---- B5: constants of the custom scalar Time where the loader keeps coerced values (directive argument defaults, directive
	// uses on a type and an enum value, inside a list and an input object): instants written with offsets, fractions, as UTC -
	// the instants the printed schema spells are the instants that were loaded, and a reload prints the same text
	{
		stamps := []string{"2020-06-01T12:00:00+05:30", "2021-03-04T05:06:07.25-08:00", "1999-12-31T23:00:00-01:00", "2020-02-29T00:00:00Z", "2038-01-19T03:14:08.000000001+00:00", "1969-07-20T20:17:40+14:00"}
		for ni := 0; ni < len(stamps); ni++ {
			if !c.Owns(fmt.Sprintf("B5|%d", ni)) {
				continue
			}
			c.Nontrivial()
			c.Eval()
			c.R.Distinct++
			a, b, d3 := stamps[ni], stamps[(ni+1)%len(stamps)], stamps[(ni+2)%len(stamps)]
			text := "input Span { from: Time to: Time }\ndirective @since(at: Time = \"" + a + "\", all: [Time], span: Span) on OBJECT | ENUM_VALUE\n" +
				"type Doc @since(at: \"" + b + "\", all: [\"" + a + "\", \"" + d3 + "\"]) { i: Int }\nenum Phase { DRAFT @since(span: {from: \"" + d3 + "\", to: \"" + b + "\"}) FINAL }\ntype Query { doc: Doc phase: Phase }\n"
			instants := func(sdl string) (out []string) {
				for _, m := range c15TimeRe.FindAllString(sdl, -1) {
					if t, err := time.Parse(time.RFC3339Nano, strings.Trim(m, "\"")); err == nil {
						out = append(out, t.UTC().Format(time.RFC3339Nano))
					} else {
						out = append(out, "unreadable:"+m)
					}
				}
				sort.Strings(out)
				return
			}
			var p1, p2 string
			var err1, err2 error
			pi := core.Safe(func() {
				r1 := ggql.NewRoot(c16Dummy{})
				if err1 = r1.ParseString(text); err1 != nil {
					return
				}
				p1 = r1.SDL(false, true)
				r2 := ggql.NewRoot(c16Dummy{})
				if err2 = r2.ParseString(p1); err2 != nil {
					return
				}
				p2 = r2.SDL(false, true)
			})
			detail := map[string]interface{}{"sdl": text, "printed": p1, "printed_again": p2, "instants_loaded": instants(text), "instants_printed": instants(p1)}
			attrs := map[string]string{"part": "B5", "site": "time-constants"}
			switch {
			case pi != nil:
				detail["panic"] = pi.Value
				c.Violation("panic", map[string]string{"site": pi.Site, "class": pi.Class, "part": "B5"}, detail)
			case err1 != nil:
				panic(core.EngineError{Msg: "C15 B5 schema refused: " + err1.Error() + "\n" + text})
			case err2 != nil:
				detail["diff"] = "the printed schema is refused: " + err2.Error()
				attrs["stage"] = "reload"
				c.Violation("load-differs", attrs, detail)
			case strings.Join(instants(text), " ") != strings.Join(instants(p1), " "):
				detail["diff"] = "the printed schema spells other instants than the loaded one"
				attrs["stage"] = "first-print"
				c.Outcome("time-constants-differ")
				c.Violation("load-differs", attrs, detail)
			case p1 != p2:
				detail["diff"] = firstLineDiff(p1, p2)
				attrs["stage"] = "second-print"
				c.Violation("load-differs", attrs, detail)
			default:
				c.Outcome("B5-agree")
			}
		}
	}
	// ---- B6: an input type the application bound to a Go struct (RegisterType) is the type of a directive argument: a load that
	// comes AFTER the registration uses the directive (and validates its default again) - what the root prints is still a
	// schema, accepted by a fresh root, and prints again as the same text
	for ni, later := range []string{
		"type Later @d(p: {a: 1}) { i: Int }\ntype Other @d { i: Int }\n", "enum E { X @d(p: {a: 2, b: \"y\"}) }\n", "type Later @l(ps: [{a: 1}, {b: \"z\"}]) { i: Int }\n", "type Plain { i: Int }\n",
	} {
		if !c.Owns(fmt.Sprintf("B6|%d", ni)) {
			continue
		}
		c.Nontrivial()
		c.Eval()
		c.R.Distinct++
		const first = "input Opt { a: Int b: String = \"x\" }\ndirective @d(p: Opt = {a: 7}) on OBJECT | ENUM_VALUE\ndirective @l(ps: [Opt]) on OBJECT\ntype Query { i: Int }\n"
		var p0, p1, p2 string
		var err0, err1, err2, regErr error
		pi := core.Safe(func() {
			r1 := ggql.NewRoot(c16Dummy{})
			if err0 = r1.ParseString(first); err0 != nil {
				return
			}
			p0 = r1.SDL(false, true)
			if regErr = r1.RegisterType(&C15Opt{}, "Opt"); regErr != nil {
				return
			}
			if err1 = r1.ParseString(later); err1 != nil {
				return
			}
			p1 = r1.SDL(false, true)
			r2 := ggql.NewRoot(c16Dummy{})
			if err2 = r2.ParseString(p1); err2 != nil {
				return
			}
			p2 = r2.SDL(false, true)
		})
		detail := map[string]interface{}{"first_load": first, "registered": "RegisterType(&C15Opt{}, \"Opt\")", "later_load": later, "printed_before": p0, "printed": p1, "printed_again": p2}
		attrs := map[string]string{"part": "B6", "site": "registered-input-as-directive-argument"}
		switch {
		case pi != nil:
			detail["panic"] = pi.Value
			c.Violation("panic", map[string]string{"site": pi.Site, "class": pi.Class, "part": "B6"}, detail)
		case err0 != nil || regErr != nil || err1 != nil:
			panic(core.EngineError{Msg: fmt.Sprintf("C15 B6 refused: %v %v %v", err0, regErr, err1)})
		case err2 != nil:
			detail["diff"] = "the printed schema is refused: " + err2.Error()
			attrs["stage"] = "reload"
			c.Outcome("printed-sdl-refused")
			c.Violation("load-differs", attrs, detail)
		case p1 != p2:
			detail["diff"] = firstLineDiff(p1, p2)
			attrs["stage"] = "second-print"
			c.Violation("load-differs", attrs, detail)
		default:
			c.Outcome("B6-agree")
		}
	}
	// ---- D: schemas that arrive in several loads and never declare a schema block: what 'extend schema' said about the root
	// operation types, beside unrelated types that happen to carry the conventional names and arrive in another load. Every
	// sequence of <= 4 different units; after every accepted load the printed root is reloaded and compared.
	{
		units := []string{
			"extend schema { mutation: Change }\n", "extend schema { subscription: Feed }\n", "type Mutation { m: Int }\n", "type Subscription { s: Int }\n",
			"extend schema @onsch\n", "extend type Query { more: Change }\n",
		}
		const first = "type Query { q: Int }\ntype Change { bump: Int }\ntype Feed { f: Int }\ndirective @onsch on SCHEMA\n"
		var idx int64
		var rec func(seq []int)
		rec = func(seq []int) {
			if len(seq) > 0 {
				idx++
				if c.OwnsIdx(idx) {
					c.Eval()
					c.R.Distinct++
					c.Nontrivial()
					root := ggql.NewRoot(c16Dummy{})
					loads := []string{first}
					refused := false
					var s1 string
					pi := core.Safe(func() {
						if err := root.ParseString(first); err != nil {
							panic(core.EngineError{Msg: "C15 part D base refused: " + err.Error()})
						}
						_ = root.SDL(false, true) // the root is printed after every load: the last print is not the first
						for _, ui := range seq {
							loads = append(loads, units[ui])
							if err := root.ParseString(units[ui]); err != nil {
								refused = true
								return
							}
							_ = root.SDL(false, true)
							_ = root.SDL(true)
						}
						s1 = root.SDL(false, true)
					})
					det := map[string]interface{}{"loads": loads, "printed": s1}
					switch {
					case pi != nil:
						det["diff"] = pi.Value
						c.Violation("panic", map[string]string{"site": pi.Site, "class": pi.Class, "where": "several-loads"}, det)
					case refused:
						c.Outcome("several-loads-refused")
					default:
						one, err1 := sgen.FromRoot(root, []string{"onsch"})
						l2 := loadSDL(s1)
						if err1 != nil {
							panic(core.EngineError{Msg: "C15 part D readback: " + err1.Error()})
						}
						if l2.pi != nil || l2.err != nil {
							det["diff"] = fmt.Sprint(l2.err, l2.pi)
							c.Outcome("printed-sdl-refused")
							c.Violation("roundtrip", map[string]string{"what": "printed-sdl-refused", "part": "D", "route": "several-loads"}, det)
							break
						}
						two, err2 := sgen.FromRoot(l2.root, []string{"onsch"})
						if err2 != nil {
							panic(core.EngineError{Msg: "C15 part D readback: " + err2.Error()})
						}
						if a, b := one.Canonical(sgen.CanonOpts{}), two.Canonical(sgen.CanonOpts{}); a != b {
							det["diff"] = firstLineDiff(a, b)
							c.Outcome("schema-changed")
							c.Violation("roundtrip", map[string]string{"what": "schema-changed", "part": "D", "route": "several-loads"}, det)
							break
						}
						c.Outcome("roundtrip-ok")
					}
				}
			}
			if maxLen := map[bool]int{false: 4, true: 6}[c.Thorough()]; len(seq) == maxLen {
				return
			}
			for ui := range units {
				used := false
				for _, x := range seq {
					used = used || x == ui
				}
				if !used {
					rec(append(append([]int{}, seq...), ui))
				}
			}
		}
		rec(nil)
	}
	// ---- C: ggqlgen -w / -e (thorough, shard 0)
	if c.Shard == 0 {
		c15Ggqlgen(c, bases)
	}
	c.R.Bound = fmt.Sprintf("A: %d schemas; B: %d sites x %d strings (<= %d units over %d); B2: 7 constant sites x (24 numbers + explicit null); B3: the same sites typed Float x 8 numbers a float32 holds exactly; B4: 4 schemas with defaults inside defaults; B5: Time constants with offsets at 5 kept-value sites; B6: a registered input type as directive argument type, 4 later loads; whole-root and per-type (reversed) printed forms; C: ggqlgen on the bases (thorough); D: every sequence of <= 4 (thorough: all 6) of 6 later loads around an undeclared schema", len(subjects), len(c15Sites()), len(strs), maxLen, len(c15Units))
	if !completed {
		c.Cap("deadline reached")
	}
}

// c15Ggqlgen builds cmd/ggqlgen from the repository under test and checks that -w rewrites and -e embeds lose nothing.
func c15Ggqlgen(c *core.Ctx, bases []*sgen.Schema) {
	repo := os.Getenv("VERIF_REPO")
	if repo == "" {
		repo = "/repo"
	}
	dir, err := os.MkdirTemp(filepath.Join(verifDirProps(), "build"), "ggqlgen")
	if err != nil {
		c.Note("ggqlgen: cannot create scratch dir: " + err.Error())
		return
	}
	defer os.RemoveAll(dir)
	bin := filepath.Join(dir, "ggqlgen")
	cmd := exec.Command("go", "build", "-o", bin, "./cmd/ggqlgen")
	cmd.Dir = repo
	if out, err := cmd.CombinedOutput(); err != nil {
		c.Note("ggqlgen: build failed: " + string(out))
		return
	}
	for i, b := range bases {
		if len(b.Blocks) > 0 && i == 5 {
			// keep: blocks are fine for files
		}
		file := filepath.Join(dir, fmt.Sprintf("s%d.graphql", i))
		if err := os.WriteFile(file, []byte(b.SDL()), 0o644); err != nil {
			continue
		}
		c.Eval()
		c.R.Distinct++
		c.Nontrivial()
		out, err := exec.Command(bin, "-w", file).CombinedOutput()
		detail := map[string]interface{}{"schema": fmt.Sprintf("base S%d", i), "tool": "ggqlgen -w", "output": string(out)}
		if err != nil {
			c.Violation("ggqlgen", map[string]string{"what": "tool-failed", "flag": "-w"}, detail)
			continue
		}
		rewritten, _ := os.ReadFile(file)
		l := loadSDL(string(rewritten))
		if l.err != nil || l.pi != nil {
			detail["diff"] = fmt.Sprint(l.err)
			detail["rewritten"] = string(rewritten)
			c.Violation("ggqlgen", map[string]string{"what": "rewritten-file-refused", "flag": "-w"}, detail)
			continue
		}
		back, err := sgen.FromRoot(l.root, b.DirectiveNames())
		if err != nil || back.Canonical(sgen.CanonOpts{}) != normalizeDescs(b).Canonical(sgen.CanonOpts{}) {
			detail["diff"] = "rewritten file defines a different schema"
			detail["rewritten"] = string(rewritten)
			c.Violation("ggqlgen", map[string]string{"what": "schema-changed", "flag": "-w", "model": c15ImplicitModel(b, back)}, detail)
			continue
		}
		c.Outcome("ggqlgen-w-ok")
		// -e src:dest:name: the embedded constant must hold the same schema
		src := filepath.Join(dir, fmt.Sprintf("e%d.graphql", i))
		dest := filepath.Join(dir, fmt.Sprintf("e%d.go", i))
		_ = os.WriteFile(src, []byte(b.SDL()), 0o644)
		c.Eval()
		c.R.Distinct++
		out, err = exec.Command(bin, "-p", "x", "-e", src+":"+dest+":SDL", src).CombinedOutput()
		detail = map[string]interface{}{"schema": fmt.Sprintf("base S%d", i), "tool": "ggqlgen -e", "output": string(out)}
		if err != nil {
			c.Violation("ggqlgen", map[string]string{"what": "tool-failed", "flag": "-e"}, detail)
			continue
		}
		goSrc, _ := os.ReadFile(dest)
		first, last := strings.IndexByte(string(goSrc), '`'), strings.LastIndexByte(string(goSrc), '`')
		if first < 0 || last <= first {
			detail["diff"] = "no backtick constant in the embedded file"
			c.Violation("ggqlgen", map[string]string{"what": "no-constant", "flag": "-e"}, detail)
			continue
		}
		embedded := string(goSrc[first+1 : last])
		l = loadSDL(embedded)
		if l.err != nil || l.pi != nil {
			detail["diff"], detail["embedded"] = fmt.Sprint(l.err), embedded
			c.Violation("ggqlgen", map[string]string{"what": "embedded-sdl-refused", "flag": "-e"}, detail)
			continue
		}
		back, err = sgen.FromRoot(l.root, b.DirectiveNames())
		if err != nil || back.Canonical(sgen.CanonOpts{}) != normalizeDescs(b).Canonical(sgen.CanonOpts{}) {
			detail["diff"], detail["embedded"] = "embedded constant defines a different schema", embedded
			c.Violation("ggqlgen", map[string]string{"what": "schema-changed", "flag": "-e", "model": c15ImplicitModel(b, back)}, detail)
			continue
		}
		c.Outcome("ggqlgen-e-ok")
	}
	// the same together with -s <dir> (stub files are written as well): what -w rewrites and -e embeds is still the schema
	for i, b := range bases {
		stubs := filepath.Join(dir, fmt.Sprintf("stubs%d", i))
		_ = os.MkdirAll(stubs, 0o755)
		for _, flag := range []string{"-w", "-e"} {
			file := filepath.Join(dir, fmt.Sprintf("st%d%s.graphql", i, flag))
			dest := filepath.Join(dir, fmt.Sprintf("st%d.go", i))
			if err := os.WriteFile(file, []byte(b.SDL()), 0o644); err != nil {
				continue
			}
			c.Eval()
			c.R.Distinct++
			c.Nontrivial()
			args := []string{"-s", stubs, "-p", "x", "-w", file}
			if flag == "-e" {
				args = []string{"-s", stubs, "-p", "x", "-e", file + ":" + dest + ":SDL", file}
			}
			out, err := exec.Command(bin, args...).CombinedOutput()
			detail := map[string]interface{}{"schema": fmt.Sprintf("base S%d", i), "tool": "ggqlgen -s <dir> " + flag, "output": string(out)}
			attrs := map[string]string{"flag": "-s " + flag}
			if err != nil {
				attrs["what"] = "tool-failed"
				c.Violation("ggqlgen", attrs, detail)
				continue
			}
			text := ""
			if flag == "-w" {
				rw, _ := os.ReadFile(file)
				text = string(rw)
			} else {
				goSrc, _ := os.ReadFile(dest)
				first, last := strings.IndexByte(string(goSrc), '`'), strings.LastIndexByte(string(goSrc), '`')
				if first >= 0 && last > first {
					text = string(goSrc[first+1 : last])
				}
			}
			detail["written"] = text
			l := loadSDL(text)
			if l.err != nil || l.pi != nil {
				detail["diff"] = fmt.Sprint(l.err)
				attrs["what"] = "rewritten-file-refused"
				c.Violation("ggqlgen", attrs, detail)
				continue
			}
			back, err := sgen.FromRoot(l.root, b.DirectiveNames())
			if err != nil || back.Canonical(sgen.CanonOpts{}) != normalizeDescs(b).Canonical(sgen.CanonOpts{}) {
				detail["diff"] = "what the tool wrote defines a different schema"
				attrs["what"], attrs["model"] = "schema-changed", c15ImplicitModel(b, back)
				c.Violation("ggqlgen", attrs, detail)
				continue
			}
			c.Outcome("ggqlgen-with-stubs-ok")
		}
	}
	// two files in one run: one that is only read (a dependency), one that is rewritten / embedded - whichever is which and in
	// whichever order they are given, the two files together still define the schema they defined before
	const fileA = "type Query {\n  q: User\n}\n\ntype User {\n  name: String @auth\n}\n\ndirective @auth on FIELD_DEFINITION\n"
	const fileB = "type Post {\n  title: String\n  author: User\n}\n\nenum Kind {\n  X\n  Y\n}\n"
	wantBoth := func() string {
		l := loadSDL(fileA + "\n" + fileB)
		back, _ := sgen.FromRoot(l.root, []string{"auth"})
		return back.Canonical(sgen.CanonOpts{})
	}()
	// (the tool loads the plain files in the order given and the -w files after them, one at a time: b needs a, so a is never
	// the -w file beside a plain b, and a comes first among plain files)
	for ci, order := range [][2]string{{"a", "b"}} {
		for _, rewrite := range []string{"a", "b"} {
			for _, flag := range []string{"-w", "-e"} {
				if flag == "-w" && rewrite == "a" {
					continue
				}
				c.Eval()
				c.R.Distinct++
				c.Nontrivial()
				sub := filepath.Join(dir, fmt.Sprintf("two%d%s%s", ci, rewrite, flag))
				_ = os.MkdirAll(sub, 0o755)
				pa, pb := filepath.Join(sub, "a.graphql"), filepath.Join(sub, "b.graphql")
				_ = os.WriteFile(pa, []byte(fileA), 0o644)
				_ = os.WriteFile(pb, []byte(fileB), 0o644)
				path := map[string]string{"a": pa, "b": pb}
				var args []string
				dest := filepath.Join(sub, "out.go")
				if flag == "-e" {
					args = []string{"-p", "x", "-e", path[rewrite] + ":" + dest + ":SDL"}
				}
				if flag == "-w" { // flags first
					args = append(args, "-w", path[rewrite])
				}
				for _, f := range order {
					if !(f == rewrite && flag == "-w") {
						args = append(args, path[f])
					}
				}
				out, err := exec.Command(bin, args...).CombinedOutput()
				detail := map[string]interface{}{"tool": "ggqlgen " + strings.Join(args, " "), "output": string(out), "file_a": fileA, "file_b": fileB}
				attrs := map[string]string{"flag": flag, "part": "two-files", "rewritten": rewrite, "order": order[0] + order[1]}
				if err != nil {
					attrs["what"] = "tool-failed"
					c.Violation("ggqlgen", attrs, detail)
					continue
				}
				ta, _ := os.ReadFile(pa)
				tb, _ := os.ReadFile(pb)
				texts := map[string]string{"a": string(ta), "b": string(tb)}
				if flag == "-e" {
					goSrc, _ := os.ReadFile(dest)
					first, last := strings.IndexByte(string(goSrc), '`'), strings.LastIndexByte(string(goSrc), '`')
					if first < 0 || last <= first {
						attrs["what"] = "no-constant"
						c.Violation("ggqlgen", attrs, detail)
						continue
					}
					texts[rewrite] = string(goSrc[first+1 : last])
				}
				detail["after_a"], detail["after_b"] = texts["a"], texts["b"]
				l := loadSDL(texts["a"] + "\n" + texts["b"])
				if l.err != nil || l.pi != nil {
					detail["diff"] = fmt.Sprint(l.err)
					attrs["what"] = "files-no-longer-load-together"
					c.Violation("ggqlgen", attrs, detail)
					continue
				}
				if back, err := sgen.FromRoot(l.root, []string{"auth"}); err != nil || back.Canonical(sgen.CanonOpts{}) != wantBoth {
					detail["diff"] = "the two files together define a different schema"
					attrs["what"] = "schema-changed"
					c.Violation("ggqlgen", attrs, detail)
					continue
				}
				c.Outcome("ggqlgen-two-files-ok")
			}
		}
	}
}

func verifDirProps() string {
	if d := os.Getenv("VERIF_DIR"); d != "" {
		return d
	}
	return "/verif"
}

var c15NumSites = []string{"argument-default", "input-field-default", "directive-argument-default", "directive-use-on-type", "directive-use-on-field", "list-default", "object-default"}

// c15NumSchema places the number x at the named constant site (every position is of type Float64).
func c15NumSchema(site string, x interface{}) *sgen.Schema { return c15NumSchemaOf("Float64", site, x) }

// c15NumSchemaOf: the same with every position of the scalar type tn (Float64, or the 32-bit Float).
func c15NumSchemaOf(tn, site string, x interface{}) *sgen.Schema {
	k := func(s string, def interface{}) interface{} {
		if site == s {
			return x
		}
		return def
	}
	N, L := sgen.N, sgen.L
	return &sgen.Schema{Defs: []*sgen.Def{
		{Kind: sgen.KDirective, Name: "dd", Locations: []string{"OBJECT", "FIELD_DEFINITION"},
			Args: []*sgen.Arg{{Name: "x", Type: N(tn), HasDef: true, Default: k("directive-argument-default", 0.25)}}},
		{Kind: sgen.KObject, Name: "Query", Dirs: []sgen.DirUse{{Name: "dd", Args: []sgen.KV{{Name: "x", Value: k("directive-use-on-type", 0.75)}}}},
			Fields: []*sgen.Field{
				{Name: "f", Type: N("Int"), Dirs: []sgen.DirUse{{Name: "dd", Args: []sgen.KV{{Name: "x", Value: k("directive-use-on-field", 1.75)}}}},
					Args: []*sgen.Arg{{Name: "a", Type: N(tn), HasDef: true, Default: k("argument-default", 2.5)},
						{Name: "l", Type: L(N(tn)), HasDef: true, Default: []interface{}{3.5, k("list-default", 4.5)}},
						{Name: "o", Type: N("In"), HasDef: true, Default: map[string]interface{}{"s": k("object-default", 5.5)}}}}}},
		{Kind: sgen.KInput, Name: "In", Fields: []*sgen.Field{{Name: "s", Type: N(tn), HasDef: true, Default: k("input-field-default", 6.5)}}},
	}}
}

// c15ImplicitModel attributes a ggqlgen difference to finding C15-F1: the base only EXTENDS an undeclared schema, and the
// tool's output is exactly the base without that extension (the tool writes Root.Types() and Root.Directives(); the
// undeclared schema is in neither and has no accessor).
func c15ImplicitModel(b, back *sgen.Schema) string {
	if back == nil || len(b.Blocks) == 0 {
		return "none"
	}
	for _, blk := range b.Blocks {
		if !blk.Extend {
			return "none"
		}
	}
	stripped := b.Clone()
	stripped.Blocks = nil
	if back.Canonical(sgen.CanonOpts{}) == normalizeDescs(stripped).Canonical(sgen.CanonOpts{}) {
		return "implicit-schema-extension-not-written"
	}
	return "none"
}

var c15TimeRe = regexp.MustCompile(`"\d{4}-\d\d-\d\dT[^"]*"`)

// C15Opt is the Go struct an application registers for the input type Opt (part B6).
type C15Opt struct {
	A int32
	B string
}
