#!/bin/bash
# bin/runall.sh [quick|thorough] [IDs...]  - run every registered check (or the given ones) and print verdict lines
source "$(dirname "$0")/env.sh"
tier="${1:-quick}"; shift
"$VERIF_DIR/bin/build.sh" >&2 || exit 2
ids="$@"; [ -z "$ids" ] && ids=$(jq -r '.checks[].property_id' "$VERIF_DIR/MANIFEST.json")
rc=0
for id in $ids; do
  out=$("$(vbin "$id")" run "$id" "$tier" 2>&1); r=$?
  echo "$out" | grep -E "^(VIOLATION|KNOWN-FINDING|SUMMARY|ENGINE-ERROR)" | cut -c1-300
  [ $r -ne 0 ] && rc=$r && echo "  -> $id exit $r"
done
exit $rc
