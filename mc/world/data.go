package world

import (
	"github.com/uhn/ggql/pkg/ggql"

	"errors"
	"fmt"
	"sort"
)

// ---------------------------------------------------------------- neutral data graph

// EnumVal is an enum leaf in the neutral graph.
type EnumVal string

// Node is an object of the neutral data graph. Field values are nil, int, float64, string,
// bool, EnumVal, *Node or []interface{} of those.
type Node struct {
	ID   int
	Type string
	F    map[string]interface{}
}

type Graph struct {
	Root  *Node // a node of type Query
	Mut   *Node // a node of type Mutation
	Nodes []*Node
}

func (g *Graph) node(t string) *Node {
	n := &Node{ID: len(g.Nodes) + 1, Type: t, F: map[string]interface{}{}}
	g.Nodes = append(g.Nodes, n)
	return n
}

func (g *Graph) ByID(id int) *Node {
	if id < 1 || id > len(g.Nodes) {
		return nil
	}
	return g.Nodes[id-1]
}

func L_(v ...interface{}) []interface{} {
	if v == nil {
		return []interface{}{}
	}
	return v
}

// BaseGraph builds one of the base data graphs.
//
//	0 rich: cycles, empty lists, null lists, lists of lists, mixed concrete types under abstract fields
//	1 as 0 plus null elements inside lists and lists of lists
//	2 minimal
func BaseGraph(variant int) *Graph {
	g := &Graph{}
	q := g.node("Query")
	a1, a2 := g.node("A"), g.node("A")
	b1, b2 := g.node("B"), g.node("B")
	c1 := g.node("C")
	g.Root = q
	g.Mut = g.node("Mutation")
	v1, v2 := g.node("V"), g.node("V")
	v1.F["vid"], v1.F["vm"], v2.F["vid"], v2.F["vm"] = "v1", "m1", "v2", "m2"
	v1.F["id"], v2.F["id"] = "idv1", "idv2"
	q.F["val"], q.F["vals"] = v1, L_(v2, v1)
	g.Mut.F["a"] = a1
	g.Mut.F["i"] = 42
	scal := func(n *Node, tag string, k int) {
		n.F["id"] = tag
		n.F["i"] = k
		n.F["s"] = "s" + tag
		n.F["name"] = "n" + tag
		n.F["e"] = EnumVal([]string{"RED", "GREEN", "BLUE"}[k%3])
		n.F["bo"] = k%2 == 1
		n.F["f"] = float64(k) + 0.5
		n.F["mi"] = k * 10
		n.F["title"] = "t" + tag
		n.F["nick"] = "k" + tag
		n.F["dual"] = "d" + tag
		n.F["strs"] = L_("x"+tag, "y"+tag)
		n.F["ints"] = L_(k, k+1, k+2)
	}
	a1.F["onlyA"], a2.F["onlyA"] = "oa1", "oa2"
	b1.F["onlyB"], b2.F["onlyB"] = 31, 32
	c1.F["onlyC"] = true
	a1.F["buddy"], a2.F["buddy"], b1.F["buddy"], b2.F["buddy"], c1.F["buddy"] = a2, a1, b2, nil, a1
	scal(q, "q", 7)
	scal(a1, "a1", 1)
	scal(a2, "a2", 2)
	scal(b1, "b1", 3)
	scal(b2, "b2", 4)
	scal(c1, "c1", 5)
	defer func() {
		// vkids: the non-null kids once more (carried as struct values by the reflection back end)
		for _, n := range g.Nodes {
			if l, ok := n.F["kids"].([]interface{}); ok {
				vl := []interface{}{}
				for _, e := range l {
					if kn, _ := e.(*Node); kn != nil {
						vl = append(vl, kn)
					}
				}
				n.F["vkids"] = vl
			}
		}
	}()
	if variant == 2 {
		q.F["a"] = a1
		q.F["kid"] = a1
		q.F["kids"] = L_(a1)
		a1.F["kid"] = nil
		return g
	}
	set := func(n *Node, kv ...interface{}) {
		for i := 0; i < len(kv); i += 2 {
			n.F[kv[i].(string)] = kv[i+1]
		}
	}
	set(q, "a", a1, "b", b1, "c", c1, "as", L_(a1, a2),
		"kid", a2, "peer", b1, "other", c1, "kids", L_(a1, a2), "peers", L_(b1), "ll", L_(L_(a1), L_(a2, a1), L_()),
		"named", b1, "nameds", L_(a1, b1), "u", a1, "us", L_(b1, a2), "mkid", a1, "mkids", L_(a2, a1), "mnamed", a2)
	set(a1, "kid", a2, "peer", b1, "other", c1, "kids", L_(a2, a1), "peers", L_(b1, b2), "ll", L_(L_(a2), L_(a1, a2)),
		"named", b1, "nameds", L_(b1, a2), "u", b1, "us", L_(a2, b1), "mkid", a2, "mkids", L_(a1), "mnamed", b2)
	set(a2, "kid", a1, "peer", nil, "other", nil, "kids", L_(), "peers", nil, "ll", nil,
		"named", a1, "nameds", L_(), "u", a1, "us", L_(a1), "mkid", nil, "mkids", L_(), "mnamed", nil)
	set(b1, "kid", a1, "peer", b2, "other", c1, "kids", L_(a1, a2), "peers", L_(), "ll", L_(L_()),
		"named", a2, "nameds", L_(a1), "u", b2, "us", L_(), "mkid", a1, "mkids", nil, "mnamed", a1)
	set(b2, "kid", nil, "peer", nil, "other", nil, "kids", nil, "peers", nil, "ll", nil,
		"named", nil, "nameds", nil, "u", nil, "us", nil, "mkid", nil, "mkids", nil, "mnamed", nil)
	set(c1, "kid", a2, "peer", b1, "other", c1, "kids", L_(a1), "peers", L_(b2), "ll", L_(L_(a1)),
		"named", a1, "nameds", L_(b1, a1), "u", a2, "us", L_(a2), "mkid", a1, "mkids", L_(a1), "mnamed", b1)
	if variant == 1 {
		set(q, "kids", L_(a1, nil, a2), "nameds", L_(nil, b1), "us", L_(nil, a2, nil), "ll", L_(L_(a1, nil), nil, L_()), "as", L_(nil, a1), "mkids", L_(nil, a1))
		set(a1, "kids", L_(nil), "peers", L_(b1, nil), "nameds", L_(a2, nil), "ll", L_(nil, L_(nil, a2)))
	}
	return g
}

// ---------------------------------------------------------------- run state shared by the back ends

// CallKey identifies a resolver invocation: the node and the field name.
type CallKey struct {
	Node  int
	Field string
}

func (k CallKey) String() string { return fmt.Sprintf("%d.%s", k.Node, k.Field) }

type FaultKind int

const (
	NoFault    FaultKind = iota
	FaultErr             // plain error
	FaultGroup           // ggql.Errors{e1,e2}
	FaultExt             // *ggql.Error with extensions
	FaultNth             // list accessor failure (AnyResolver.Nth) at element 0 -- AS only
	FaultValErr          // the resolver returns its normal value AND an error (strategy-equivalence only: what "failed" means here is not stated)
	FaultBadLeaf         // no resolver error: the resolver returns a value its declared leaf type cannot represent (an Int field, or one element of an [Int] field, answers "notanumber")
	FaultWrapped         // a group of two errors wrapped with context: fmt.Errorf("ctx: %w", ggql.Errors{e1, e2}) - still one entry per member
	FaultSecond          // the SECOND invocation of that (node, field) in the run fails, the first succeeds (a stateful resolver; only distinguishable where a field is invoked twice for one position: merged response keys)
	FaultShared          // every failing call returns the same *ggql.Error instance (an application's sentinel error)
	FaultTwin            // a group of two members that carry the SAME text (a batch lookup answering one sentinel per missing key): still one entry per member
	FaultTwoCauses       // ONE error that has two causes (Unwrap() []error, as errors.Join or two %w give): one failure, one entry
)

// ArgRecord is what a resolver received.
type ArgRecord struct {
	Key  CallKey
	Args map[string]interface{}
}

// Run is the mutable state of one execution: fault plan in, logs out.
type Run struct {
	G      *Graph
	Faults map[CallKey]FaultKind
	Log    []CallKey
	Args   []ArgRecord
	NoLog  bool // free-running race pass: the harness keeps no shared logs
	fsb    *fsBuilder
	Rep    func(n *Node) interface{} // mixed graphs: representation of a node where the carrier is free (nil = the strategy's own)
	Probe  []string                  // precedence probes: which lower-precedence path answered
	Sentinel *ggql.Error             // FaultShared: the one instance every failing call returns
	Seen     map[CallKey]int         // FaultSecond: invocations so far
	OnMeet   func()                  // called by the resolver of the field meet (scheduler checks: a rendezvous between requests)
}

func NewRun(g *Graph) *Run { return &Run{G: g, Faults: map[CallKey]FaultKind{}} }

var ErrInjected = errors.New("injected failure")

// CallSet returns the sorted set of distinct calls made.
func (r *Run) CallSet() []string {
	m := map[string]bool{}
	for _, k := range r.Log {
		m[k.String()] = true
	}
	out := make([]string, 0, len(m))
	for k := range m {
		out = append(out, k)
	}
	sort.Strings(out)
	return out
}

// EchoResult is the value every back end (and the reference) gives for echo(s, b).
func EchoResult(s interface{}, b interface{}) string {
	return fmt.Sprintf("%v|%v", s, b)
}

// FSView returns a copy of the graph as the reflection structs can represent it: a Go nil slice in a
// struct field is indistinguishable from an empty one for ggql (it is not a nil interface), so null
// lists held in struct fields read as empty lists. Method-backed fields return interface{} and keep null.
func (g *Graph) FSView(s *Schema) *Graph {
	ng := &Graph{}
	m := map[*Node]*Node{}
	for _, n := range g.Nodes {
		nn := &Node{ID: n.ID, Type: n.Type, F: map[string]interface{}{}}
		m[n] = nn
		ng.Nodes = append(ng.Nodes, nn)
	}
	var conv func(v interface{}, t *T, method bool) interface{}
	conv = func(v interface{}, t *T, method bool) interface{} {
		for t != nil && t.K == TNonNull {
			t = t.Of
		}
		switch tv := v.(type) {
		case *Node:
			if tv == nil {
				return nil
			}
			return m[tv]
		case []interface{}:
			out := make([]interface{}, len(tv))
			var et *T
			if t != nil && t.K == TList {
				et = t.Of
			}
			for i, e := range tv {
				out[i] = conv(e, et, method)
			}
			return out
		case nil:
			if t != nil && t.K == TList && !method {
				return []interface{}{}
			}
			return nil
		}
		return v
	}
	for _, n := range g.Nodes {
		td := s.Type(n.Type)
		for k, v := range n.F {
			var t *T
			method := false
			if td != nil {
				if fd := td.Field(k); fd != nil {
					t, method = fd.Type, fd.Method
				}
			}
			m[n].F[k] = conv(v, t, method)
		}
		// list fields absent from the node's map are nil slices too
		if td != nil {
			for _, fd := range td.Fields {
				if _, has := n.F[fd.Name]; !has && fd.Type.K == TList && !fd.Method {
					m[n].F[fd.Name] = []interface{}{}
				}
			}
		}
	}
	ng.Root, ng.Mut = m[g.Root], m[g.Mut]
	return ng
}
