package core

import (
	"encoding/binary"
	"os"
	"syscall"
)

// The worker publishes the case it is about to run by a store into a small file-backed shared mapping
// (no system call per case). If the worker hangs or dies the driver reads it back: the announced case is
// the observation, and the case counter lets a resumable check be restarted just after it.
//
// layout: [0:8] case counter, [8:12] text length, [12:] text

const annSize = 16384

var annBuf []byte

// InitAnnounce maps the file at path (created by the driver).
func InitAnnounce(path string) {
	f, err := os.OpenFile(path, os.O_RDWR, 0o644)
	if err != nil {
		return
	}
	defer f.Close()
	if b, err := syscall.Mmap(int(f.Fd()), 0, annSize, syscall.PROT_READ|syscall.PROT_WRITE, syscall.MAP_SHARED); err == nil {
		annBuf = b
	}
}

// Announce records what is about to be executed.
func Announce(s string) {
	if annBuf == nil {
		return
	}
	n := copy(annBuf[12:], s)
	binary.LittleEndian.PutUint32(annBuf[8:], uint32(n))
}

// AnnounceCase records the case counter and what is about to be executed.
func AnnounceCase(counter int64, s string) {
	if annBuf == nil {
		return
	}
	binary.LittleEndian.PutUint64(annBuf, uint64(counter))
	n := copy(annBuf[12:], s)
	binary.LittleEndian.PutUint32(annBuf[8:], uint32(n))
}

// NewAnnounceFile creates an empty announce file.
func NewAnnounceFile(path string) error {
	return os.WriteFile(path, make([]byte, annSize), 0o644)
}

// ReadAnnounce returns the last announcement stored in the file.
func ReadAnnounce(path string) string {
	_, s := ReadAnnounceCase(path)
	return s
}

// ReadAnnounceCase returns the case counter and the last announcement.
func ReadAnnounceCase(path string) (int64, string) {
	b, err := os.ReadFile(path)
	if err != nil || len(b) < 12 {
		return 0, ""
	}
	n := int(binary.LittleEndian.Uint32(b[8:]))
	if n > len(b)-12 {
		n = len(b) - 12
	}
	return int64(binary.LittleEndian.Uint64(b)), string(b[12 : 12+n])
}
