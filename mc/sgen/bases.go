package sgen

import (
	"verif/mc/world"
)

func fld(name string, t *T, args ...*Arg) *Field { return &Field{Name: name, Type: t, Args: args} }
func arg(name string, t *T) *Arg                  { return &Arg{Name: name, Type: t} }
func argD(name string, t *T, def Val) *Arg        { return &Arg{Name: name, Type: t, HasDef: true, Default: def} }
func ifld(name string, t *T) *Field               { return &Field{Name: name, Type: t} }
func ifldD(name string, t *T, def Val) *Field     { return &Field{Name: name, Type: t, HasDef: true, Default: def} }
func du(name string, kv ...interface{}) DirUse {
	d := DirUse{Name: name}
	for i := 0; i < len(kv); i += 2 {
		d.Args = append(d.Args, KV{kv[i].(string), kv[i+1]})
	}
	return d
}
func (f *Field) D(s string) *Field        { f.Desc = s; return f }
func (f *Field) With(d ...DirUse) *Field  { f.Dirs = append(f.Dirs, d...); return f }
func (a *Arg) D(s string) *Arg            { a.Desc = s; return a }
func (a *Arg) With(d ...DirUse) *Arg      { a.Dirs = append(a.Dirs, d...); return a }
func obj(name string, fs ...*Field) *Def  { return &Def{Kind: KObject, Name: name, Fields: fs} }
func intf(name string, fs ...*Field) *Def { return &Def{Kind: KInterface, Name: name, Fields: fs} }
func inp(name string, fs ...*Field) *Def  { return &Def{Kind: KInput, Name: name, Fields: fs} }
func uni(name string, ms ...string) *Def  { return &Def{Kind: KUnion, Name: name, Members: ms} }
func enu(name string, vs ...string) *Def {
	d := &Def{Kind: KEnum, Name: name}
	for _, v := range vs {
		d.Values = append(d.Values, &EnumVal{Name: v})
	}
	return d
}
func scl(name string) *Def { return &Def{Kind: KScalar, Name: name} }
func dir(name string, locs []string, args ...*Arg) *Def {
	return &Def{Kind: KDirective, Name: name, Locations: locs, Args: args}
}
func (d *Def) Impl(is ...string) *Def   { d.Implements = append(d.Implements, is...); return d }
func (d *Def) D(s string) *Def          { d.Desc = s; return d }
func (d *Def) With(u ...DirUse) *Def    { d.Dirs = append(d.Dirs, u...); return d }
func (d *Def) Ext() *Def                { d.Extend = true; return d }

var E = func(s string) world.EnumLit { return world.EnumLit(s) }

// Bases returns the well-formed base schemas around which the checks explore.
func Bases() []*Schema {
	allLocs := []string{"SCHEMA", "SCALAR", "OBJECT", "FIELD_DEFINITION", "ARGUMENT_DEFINITION", "INTERFACE", "UNION", "ENUM", "ENUM_VALUE", "INPUT_OBJECT", "INPUT_FIELD_DEFINITION"}
	return []*Schema{
		// S0 minimal
		{Defs: []*Def{obj("Query", fld("i", N("Int")))}},
		// S1 kitchen sink with conventional root names
		{Defs: []*Def{
			obj("Query",
				fld("a", N("A")), fld("as", L(N("A"))), fld("ll", L(L(NN(N("A"))))), fld("named", N("Named")), fld("nameds", L(NN(N("Named")))), fld("u", N("AB")),
				fld("echo", N("String"), arg("s", NN(N("String"))), argD("b", N("Boolean"), false)).D("echo it"),
				fld("pick", N("String"), arg("i", N("Int")), arg("e", N("Color")), arg("in", N("Filter")), arg("ids", L(NN(N("ID"))))),
				fld("t", N("Time")), fld("i64", N("Int64")), fld("f64", N("Float64")), fld("d", N("Date")),
				fld("old", N("Int")).With(du("deprecated", "reason", "gone"))).D("the query root"),
			obj("Mutation", fld("set", N("Int"), arg("i", NN(N("Int"))))),
			obj("Subscription", fld("ev", N("Ev"), arg("id", N("String")))),
			intf("Named", fld("name", N("String"))).D("things with a name"), intf("Node", fld("id", NN(N("ID")))),
			obj("A", fld("id", NN(N("ID"))), fld("name", N("String")), fld("kid", N("A")), fld("peers", L(N("B")))).Impl("Named", "Node"),
			obj("B", fld("name", N("String")), fld("color", N("Color"))).Impl("Named"),
			obj("Ev", fld("name", N("String")), fld("n", N("Int"))).With(du("bare")),
			uni("AB", "A", "B"),
			{Kind: KEnum, Name: "Color", Values: []*EnumVal{{Name: "RED", Desc: "like a rose"}, {Name: "GREEN", Dirs: []DirUse{du("deprecated")}}, {Name: "BLUE"}}},
			inp("Filter", ifld("min", NN(N("Int"))), ifldD("tag", N("String"), "dflt"), ifld("colors", L(NN(N("Color")))), ifld("sub", N("Filter"))),
			scl("Date").D("a date"),
			dir("tag", []string{"FIELD_DEFINITION", "OBJECT", "ENUM_VALUE", "INTERFACE"}, argD("names", L(N("String")), []interface{}{"x", "y"}), argD("n", N("Int"), 3)),
			// a directive that declares NO arguments, used once: any argument given to it is undeclared
			dir("bare", []string{"OBJECT", "INTERFACE", "UNION", "ENUM", "ENUM_VALUE", "INPUT_OBJECT"}),
			// defaulted arguments in front of one without a default (each default belongs to its own argument)
			dir("mixed", []string{"VARIABLE_DEFINITION"}, argD("a", N("Int"), 1), argD("s", N("String"), "d"), arg("last", N("String")), arg("ratio", N("Float"))),
		}},
		// S2 custom root names through a schema block with a directive
		{Blocks: []*SchemaBlock{{Query: "Qy", Mutation: "Mu", Dirs: []DirUse{du("onschema", "v", 1)}}},
			Defs: []*Def{
				obj("Qy", fld("x", N("Int")), fld("thing", N("Thing"))), obj("Mu", fld("m", N("Boolean"), arg("v", N("Float")))),
				obj("Thing", fld("s", N("String"))),
				dir("onschema", []string{"SCHEMA"}, arg("v", N("Int"))),
			}},
		// S3 interfaces and unions with covariant field types and arguments
		{Defs: []*Def{
			obj("Query", fld("n", N("Node")), fld("s", N("Shape")), fld("all", L(NN(N("Shape"))))),
			intf("Node", fld("id", N("ID")), fld("next", N("Node")), fld("list", L(N("Node"))), fld("pick", N("Shape"), arg("w", N("Int")), arg("ws", L(N("Int"))), arg("e", NN(L(L(N("ID"))))))),
			intf("Sized", fld("size", NN(N("Float")))),
			obj("Sq", fld("id", NN(N("ID"))), fld("next", N("Sq")), fld("list", L(NN(N("Ci")))), fld("pick", N("Ci"), arg("w", N("Int")), arg("ws", L(N("Int"))), arg("e", NN(L(L(N("ID"))))), arg("extra", N("String"))), fld("size", NN(N("Float")))).Impl("Node", "Sized"),
			obj("Ci", fld("id", N("ID")), fld("next", N("Node")), fld("list", L(N("Node"))), fld("pick", N("Shape"), arg("w", N("Int")), arg("ws", L(N("Int"))), arg("e", NN(L(L(N("ID")))))), fld("size", NN(N("Float"))), fld("r", N("Float"))).Impl("Sized", "Node"),
			obj("Tri", fld("a", N("Int"))),
			uni("Shape", "Sq", "Ci", "Tri"),
		}},
		// S4 input objects and defaults of every value form
		{Defs: []*Def{
			obj("Query",
				fld("f", N("Int"), argD("i", N("Int"), 7), argD("fl", N("Float"), 1.5), argD("s", N("String"), "a \"q\" \\ b"), argD("b", N("Boolean"), true), argD("e", N("Mode"), E("ON")),
					argD("l", L(N("Int")), []interface{}{1, 2}), argD("ll", L(L(N("String"))), []interface{}{[]interface{}{"a"}, []interface{}{}}), argD("o", N("Opt"), map[string]interface{}{"k": 1, "m": E("OFF")}),
					argD("id", N("ID"), "id1"), argD("i64", N("Int64"), 9007199254740993), argD("f64", N("Float64"), 1.25e21)),
				fld("g", N("String"), arg("o", NN(N("Opt"))), arg("os", L(NN(N("Opt")))))),
			enu("Mode", "ON", "OFF"),
			inp("Opt", ifld("k", NN(N("Int"))), ifldD("m", N("Mode"), E("ON")), ifldD("tags", L(N("String")), []interface{}{"t"}), ifld("deep", N("Deep")), ifldD("f", N("Float"), 0.5)).D("options"),
			inp("Deep", ifldD("opt", N("Opt"), map[string]interface{}{"k": 2}), ifld("x", N("ID")).D("an id")),
		}},
		// S5 directives at every type-system location, deprecations, a directive whose argument uses another directive
		{Blocks: []*SchemaBlock{{Query: "Query", Dirs: []DirUse{du("any")}}},
			Defs: []*Def{
				obj("Query", fld("a", N("Int"), arg("x", N("Int")).With(du("any", "n", 2))).With(du("any"), du("deprecated")), fld("e", N("En")), fld("u", N("Un")), fld("i", N("If")), fld("s", N("Sc"))).With(du("any", "label", "q")),
				intf("If", fld("f", N("Int")).With(du("deprecated", "reason", "why not"))).With(du("any")),
				obj("Ob", fld("f", N("Int"))).Impl("If"),
				uni("Un", "Ob").With(du("any", "must", 3, "musts", []interface{}{"a", "b"})),
				{Kind: KEnum, Name: "En", Dirs: []DirUse{du("any")}, Values: []*EnumVal{{Name: "V1", Dirs: []DirUse{du("any", "n", 5)}}, {Name: "V2", Dirs: []DirUse{du("deprecated", "reason", "old")}}}},
				inp("In", ifld("f", N("Int")).With(du("any"))).With(du("any")),
				scl("Sc").With(du("any")),
				dir("any", allLocs, argD("n", N("Int"), 1), argD("label", N("String"), "L").With(du("inner")), argD("must", NN(N("Int")), 7), argD("musts", NN(L(NN(N("String")))), []interface{}{"m"})),
				dir("inner", []string{"ARGUMENT_DEFINITION", "INPUT_FIELD_DEFINITION"}),
			}},
		// S6 no schema block: the implicit schema extended with a custom-named mutation root and a directive
		{Blocks: []*SchemaBlock{{Extend: true, Mutation: "Change", Dirs: []DirUse{du("onimplicit", "v", 2)}}},
			Defs: []*Def{
				obj("Query", fld("q", N("Int"))), obj("Change", fld("bump", N("Int"), arg("by", N("Int")))),
				dir("onimplicit", []string{"SCHEMA"}, argD("v", N("Int"), 1)), dir("notonschema", []string{"OBJECT"}),
			}},
	}
}
