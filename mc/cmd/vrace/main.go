// vrace is the free-running complement of the scheduler checks: the same kind of bodies as C12 / C20, real
// goroutines, the real sync package (no overlay), built with -race. A cooperative scheduler's hand-offs are
// happens-before edges and blind the detector, so the data-race conjunct is checked here. This pass samples
// schedules (it is the one non-exhaustive ingredient, confined to that conjunct).
//
//	vrace c12 <reps>     N goroutines resolving menu requests against one cold root
//	vrace c20 <reps>     publishers / subscribers / unsubscribers on one registry
package main

import (
	"fmt"
	"os"
	"strconv"
	"sync"
	"sync/atomic"

	"github.com/uhn/ggql/pkg/ggql"

	"verif/mc/world"
)

type req struct {
	text, op string
	vars     map[string]interface{}
	abstract bool
}

var menu = []req{
	{`{__schema{types{name kind} queryType{name}}}`, "", nil, false},
	{`{__type(name:"A"){name fields{name type{name}} interfaces{name}}}`, "", nil, false},
	{`{a{id i kid{id s} peers{id}} i s}`, "", nil, false},
	{`{echo(s:"x", b:true) a{mi mkid{id} echo(b:false, s:"y")} mkids{id}}`, "", nil, false},
	{`{named{name i} nameds{name kid{id}}}`, "", nil, false},
	{`{named{__typename name ... on B{s}} a{named{__typename}}}`, "", nil, true},
	{`{us{__typename ... on A{id} ... on B{s}} u{... on A{id}}}`, "", nil, true},
	{"{a{...FA} kids{...FA}}\nfragment FA on A{id kid{id}}", "", nil, false},
	{`query V($s: String = "d", $b: Boolean = true){echo(s:$s, b:$b) a @include(if:$b){id}}`, "V", map[string]interface{}{"s": "w"}, false},
	{`mutation M{set(s:"v") a{id}}`, "M", nil, false},
	{`{pick(i: 3, ss: ["a"], in: {min: 1}) a{pick(ids: ["1"])}}`, "", nil, false},
}

func c12(reps int) {
	g0 := world.BaseGraph(0)
	cfgs := []struct {
		name string
		cfg  func(s *world.Schema) world.Config
		god  int
	}{
		{"FS/byname", func(s *world.Schema) world.Config { return world.Config{Strat: world.FS, Bind: world.BindByName, Schema: s} }, 0},
		{"FS/godir", func(s *world.Schema) world.Config { return world.Config{Strat: world.FS, Bind: world.BindGoDir, Schema: s} }, 2},
		{"FS/registered", func(s *world.Schema) world.Config { return world.Config{Strat: world.FS, Bind: world.BindRegister, Schema: s} }, 0},
		{"RS", func(s *world.Schema) world.Config { return world.Config{Strat: world.RS, Schema: s} }, 0},
		{"AS", func(s *world.Schema) world.Config { return world.Config{Strat: world.AS, Schema: s} }, 0},
	}
	const n = 32
	total := 0
	for _, cf := range cfgs {
		s := world.Universe(world.UniverseOpts{GoDir: cf.god})
		cfg := cf.cfg(s)
		g := g0
		if cfg.Strat == world.FS {
			g = g0.FSView(s)
		}
		for rep := 0; rep < reps; rep++ {
			root, run, err := world.BuildRoot(cfg, g)
			if err != nil {
				fmt.Println("ENGINE-ERROR", err)
				os.Exit(2)
			}
			run.NoLog = true
			var wg sync.WaitGroup
			start := make(chan struct{})
			for i := 0; i < n; i++ {
				rq := menu[(i+rep)%len(menu)]
				if rq.abstract && cfg.Strat != world.FS {
					rq = menu[2]
				}
				wg.Add(1)
				go func() {
					defer wg.Done()
					<-start
					_ = root.ResolveString(rq.text, rq.op, rq.vars)
				}()
			}
			close(start)
			wg.Wait()
			total += n
		}
	}
	fmt.Printf("RACEPASS c12 requests=%d roots=%d goroutines_per_root=%d\n", total, reps*len(cfgs), n)
}

type rsub struct {
	id    string
	fail  bool
	sends int64
	clean int64
}

func (s *rsub) Send(v interface{}) error {
	atomic.AddInt64(&s.sends, 1)
	if s.fail {
		return fmt.Errorf("fail")
	}
	return nil
}
func (s *rsub) Match(id string) bool { return s.id == "" || s.id == id }
func (s *rsub) Unsubscribe()          { atomic.AddInt64(&s.clean, 1) }

type rroot struct{ n int64 }
type rev struct{ name string }
type REv struct {
	Name string
	N    int
}

func (r *rroot) Resolve(field *ggql.Field, args map[string]interface{}) (interface{}, error) {
	switch field.Name {
	case "subscription":
		return r, nil
	case "ev":
		id, _ := args["id"].(string)
		k := atomic.AddInt64(&r.n, 1)
		return ggql.NewSubscription(&rsub{id: id, fail: k%3 == 0}, field, args), nil
	}
	return r, nil
}
func (e *rev) Resolve(field *ggql.Field, args map[string]interface{}) (interface{}, error) {
	if field.Name == "n" {
		return 1, nil
	}
	return e.name, nil
}

func c20(reps int) {
	const n = 16
	calls := 0
	for rep := 0; rep < reps; rep++ {
		root := ggql.NewRoot(&rroot{})
		if err := root.ParseString("type Query { i: Int }\ntype Subscription { ev(id: String): Ev }\ntype Ev { name: String n: Int }\n"); err != nil {
			fmt.Println("ENGINE-ERROR", err)
			os.Exit(2)
		}
		_ = root.ResolveString(`subscription { ev(id: "x") {name} }`, "", nil)
		var wg sync.WaitGroup
		start := make(chan struct{})
		for i := 0; i < n; i++ {
			i := i
			wg.Add(1)
			go func() {
				defer wg.Done()
				<-start
				for k := 0; k < 4; k++ {
					switch (i + k + rep) % 5 {
					case 0:
						_, _ = root.AddEvent("x", &rev{"a"})
					case 1:
						_, _ = root.AddEvent("y", &REv{Name: "b", N: 2})
					case 2:
						_ = root.ResolveString(`subscription S($v: Boolean = true) { ev(id: "x") {name n @include(if: $v)} }`, "", nil)
					case 3:
						_ = root.Unsubscribe("x")
					case 4:
						_ = root.ResolveString(`subscription { ev {name} }`, "", nil)
						_ = root.Unsubscribe("")
					}
				}
			}()
		}
		close(start)
		wg.Wait()
		calls += n * 4
	}
	fmt.Printf("RACEPASS c20 calls=%d roots=%d goroutines_per_root=%d\n", calls, reps, n)
}

func main() {
	if len(os.Args) < 3 {
		fmt.Println("usage: vrace c12|c20 <reps>")
		os.Exit(2)
	}
	reps, _ := strconv.Atoi(os.Args[2])
	switch os.Args[1] {
	case "c12":
		c12(reps)
	case "c20":
		c20(reps)
	}
}
