// Package world is the shared universe of the request-execution checks: an
// abstract schema, a neutral data graph, abstract documents with renderers,
// three resolver back ends over the same graph and an independent reference
// executor. Nothing here is derived from ggql's parsers or resolver.
package world

import (
	"fmt"
	"strings"
)

// ---------------------------------------------------------------- type expressions

type TKind int

const (
	TNamed TKind = iota
	TList
	TNonNull
)

type T struct {
	K    TKind
	Name string
	Of   *T
}

func N(name string) *T { return &T{K: TNamed, Name: name} }
func L(of *T) *T       { return &T{K: TList, Of: of} }
func NN(of *T) *T      { return &T{K: TNonNull, Of: of} }

func (t *T) String() string {
	switch t.K {
	case TList:
		return "[" + t.Of.String() + "]"
	case TNonNull:
		return t.Of.String() + "!"
	}
	return t.Name
}

// Base returns the named type at the bottom of the wrappers.
func (t *T) Base() string {
	for t.K != TNamed {
		t = t.Of
	}
	return t.Name
}

// ---------------------------------------------------------------- schema

type Kind string

const (
	KObject    Kind = "OBJECT"
	KInterface Kind = "INTERFACE"
	KUnion     Kind = "UNION"
	KEnum      Kind = "ENUM"
	KInput     Kind = "INPUT_OBJECT"
	KScalar    Kind = "SCALAR"
)

type ArgDef struct {
	Name    string
	Type    *T
	Default string // SDL text of the default, "" = none
}

type FieldDef struct {
	Name   string
	Type   *T
	Args   []*ArgDef
	Method bool // reflection strategy: served by a Go method (the only FS calls that can fail / be logged)
	Default string // input fields: SDL text of the default ("" = none)
}

type TypeDef struct {
	Kind       Kind
	Name       string
	Fields     []*FieldDef // object, interface, input (input: Args unused)
	Implements []string
	Members    []string
	Values     []string
	GoType     string // @go(type: "...") on objects, "" = none
}

func (td *TypeDef) Field(name string) *FieldDef {
	for _, f := range td.Fields {
		if f.Name == name {
			return f
		}
	}
	return nil
}

type Schema struct {
	Types        []*TypeDef
	Query        string
	Mutation     string
	Subscription string
	ExplicitRoot bool // render a schema{} block
}

func (s *Schema) Type(name string) *TypeDef {
	for _, t := range s.Types {
		if t.Name == name {
			return t
		}
	}
	return nil
}

func IsBuiltinScalar(n string) bool {
	switch n {
	case "Int", "Float", "String", "Boolean", "ID", "Int64", "Float64", "Time":
		return true
	}
	return false
}

// IsLeaf reports whether the named type is a scalar or enum.
func (s *Schema) IsLeaf(name string) bool {
	if IsBuiltinScalar(name) {
		return true
	}
	if td := s.Type(name); td != nil {
		return td.Kind == KEnum || td.Kind == KScalar
	}
	return false
}

// Applies is the standard fragment applicability relation: the concrete object type is the
// condition, implements it, or is a member of it.
func (s *Schema) Applies(cond, obj string) bool {
	if cond == "" || cond == obj {
		return true
	}
	ct := s.Type(cond)
	ot := s.Type(obj)
	if ct == nil || ot == nil {
		return false
	}
	switch ct.Kind {
	case KInterface:
		for _, i := range ot.Implements {
			if i == cond {
				return true
			}
		}
	case KUnion:
		for _, m := range ct.Members {
			if m == obj {
				return true
			}
		}
	}
	return false
}

// SDL renders the schema.
func (s *Schema) SDL() string {
	var b strings.Builder
	if s.ExplicitRoot {
		b.WriteString("schema {\n")
		if s.Query != "" {
			fmt.Fprintf(&b, "  query: %s\n", s.Query)
		}
		if s.Mutation != "" {
			fmt.Fprintf(&b, "  mutation: %s\n", s.Mutation)
		}
		if s.Subscription != "" {
			fmt.Fprintf(&b, "  subscription: %s\n", s.Subscription)
		}
		b.WriteString("}\n")
	}
	for _, t := range s.Types {
		switch t.Kind {
		case KObject, KInterface, KInput:
			kw := map[Kind]string{KObject: "type", KInterface: "interface", KInput: "input"}[t.Kind]
			fmt.Fprintf(&b, "%s %s", kw, t.Name)
			if len(t.Implements) > 0 {
				b.WriteString(" implements " + strings.Join(t.Implements, " & "))
			}
			if t.GoType != "" {
				fmt.Fprintf(&b, " @go(type: %q)", t.GoType)
			}
			b.WriteString(" {\n")
			for _, f := range t.Fields {
				b.WriteString("  " + f.Name)
				if len(f.Args) > 0 {
					b.WriteString("(")
					for i, a := range f.Args {
						if i > 0 {
							b.WriteString(", ")
						}
						b.WriteString(a.Name + ": " + a.Type.String())
						if a.Default != "" {
							b.WriteString(" = " + a.Default)
						}
					}
					b.WriteString(")")
				}
				b.WriteString(": " + f.Type.String())
				if f.Default != "" {
					b.WriteString(" = " + f.Default)
				}
				b.WriteString("\n")
			}
			b.WriteString("}\n")
		case KUnion:
			fmt.Fprintf(&b, "union %s = %s\n", t.Name, strings.Join(t.Members, " | "))
		case KEnum:
			fmt.Fprintf(&b, "enum %s { %s }\n", t.Name, strings.Join(t.Values, " "))
		case KScalar:
			fmt.Fprintf(&b, "scalar %s\n", t.Name)
		}
	}
	// a directive of the application's own that happens to have an argument called "if" (as @defer / @stream of the incremental
	// delivery proposal have): it says nothing about inclusion
	b.WriteString(TraceDirectiveSDL)
	return b.String()
}

// TraceDirectiveSDL declares @trace, an executable directive with an "if" argument that is no inclusion condition.
const TraceDirectiveSDL = "directive @trace(if: Boolean = true, label: String) on FIELD | FRAGMENT_SPREAD | INLINE_FRAGMENT\n"

// ---------------------------------------------------------------- the universe schema

// UniverseOpts selects a variant of the fixed universe schema.
type UniverseOpts struct {
	// Membership bit masks over (A,B,C) for the interface Named and the union AB; 0 = default (A,B).
	NamedImpl int // bit0 A, bit1 B, bit2 C
	ABMembers int
	GoDir     int // 0 none; 1 @go(type:"A") short; 2 pkg.Name; 3 full path
	// ReverseMembers lists the union's members (and nothing else) in reverse alphabetical order
	ReverseMembers bool
}

func mask(m, def int) int {
	if m == 0 {
		return def
	}
	return m
}

// Universe builds the fixed schema all three strategies can serve.
func Universe(o UniverseOpts) *Schema {
	impl := mask(o.NamedImpl, 3)
	memb := mask(o.ABMembers, 3)
	f := func(name string, t *T) *FieldDef { return &FieldDef{Name: name, Type: t} }
	m := func(name string, t *T, args ...*ArgDef) *FieldDef {
		return &FieldDef{Name: name, Type: t, Args: args, Method: true}
	}
	echoArgs := func() []*ArgDef {
		return []*ArgDef{{Name: "s", Type: NN(N("String"))}, {Name: "b", Type: N("Boolean")}}
	}
	common := func() []*FieldDef {
		return []*FieldDef{
			f("id", N("ID")), f("i", N("Int")), f("s", N("String")), f("name", N("String")),
			f("e", N("Color")), f("bo", N("Boolean")), f("f", N("Float")),
			f("kid", N("A")), f("peer", N("B")), f("other", N("C")),
			f("kids", L(N("A"))), f("peers", L(N("B"))), f("ll", L(L(N("A")))),
			m("meet", N("String")), // a resolver that waits until every request that selects it has arrived in it (Run.OnMeet)
			f("ghost", N("String")), // declared in the schema but served by NO Go field or method of the reflection structs (null elsewhere)
			f("vkids", L(N("A"))), // reflection: a slice of struct VALUES ([]A), every other object edge is a pointer
			f("named", N("Named")), f("nameds", L(N("Named"))),
			f("u", N("AB")), f("us", L(N("AB"))),
			f("strs", L(N("String"))), f("ints", L(N("Int"))),
			m("echo", N("String"), echoArgs()...),
			f("title", N("String")), f("dual", N("String")),
			m("tri", N("String"), &ArgDef{Name: "a", Type: N("String")}, &ArgDef{Name: "b", Type: N("String")}, &ArgDef{Name: "c", Type: N("String")}),
			m("rev", N("String"), &ArgDef{Name: "x", Type: N("String")}, &ArgDef{Name: "y", Type: N("String")}),
			// reflection: Go parameters of type string (receives an enum) and of a named string type (receives a String)
			m("paint", N("String"), &ArgDef{Name: "c", Type: N("Color")}, &ArgDef{Name: "t", Type: N("String")}),
			m("pick", N("String"), &ArgDef{Name: "i", Type: N("Int")}, &ArgDef{Name: "e", Type: N("Color")}, &ArgDef{Name: "in", Type: N("Filter")},
				&ArgDef{Name: "ids", Type: L(NN(N("ID")))}, &ArgDef{Name: "ss", Type: L(N("String"))}, &ArgDef{Name: "fs", Type: L(N("Filter"))}, &ArgDef{Name: "m", Type: L(L(N("Int")))}),
			m("mi", N("Int")), m("mkid", N("A")), m("mkids", L(N("A"))), m("mnamed", N("Named")),
		}
	}
	var named []string
	for i, n := range []string{"A", "B", "C"} {
		if impl&(1<<i) != 0 {
			named = append(named, n)
		}
	}
	var members []string
	for i, n := range []string{"A", "B", "C"} {
		if memb&(1<<i) != 0 {
			members = append(members, n)
		}
	}
	if o.ReverseMembers {
		for i, j := 0, len(members)-1; i < j; i, j = i+1, j-1 {
			members[i], members[j] = members[j], members[i]
		}
	}
	obj := func(name string) *TypeDef {
		td := &TypeDef{Kind: KObject, Name: name, Fields: common()}
		// per-type differences: a field only this type has, and a covariant implementation of Named.buddy
		switch name {
		// nick (a field of Named): a struct field on A and C, a METHOD (and nothing else) on B - implementers of one interface
		// field bound to different kinds of Go members
		case "A":
			td.Fields = append(td.Fields, f("onlyA", N("String")), f("buddy", N("A")), f("nick", N("String")))
		case "B":
			td.Fields = append(td.Fields, f("onlyB", N("Int")), f("buddy", N("B")), m("nick", N("String")))
		case "C":
			td.Fields = append(td.Fields, f("onlyC", N("Boolean")), f("buddy", N("Named")), f("nick", N("String")))
		}
		for _, n := range named {
			if n == name {
				td.Implements = []string{"Named"}
			}
		}
		switch o.GoDir {
		case 1:
			td.GoType = name
		case 2:
			td.GoType = "world." + name
		case 3:
			td.GoType = "verif/mc/world." + name
		}
		return td
	}
	q := &TypeDef{Kind: KObject, Name: "Query", Fields: append([]*FieldDef{
		f("a", N("A")), f("b", N("B")), f("c", N("C")), f("as", L(N("A"))),
		f("val", N("V")), f("vals", L(N("V"))), // reflection: a struct value and a slice of struct values of a value-bound type
	}, common()...)}
	s := &Schema{Query: "Query", Mutation: "Mutation", Types: []*TypeDef{
		q,
		{Kind: KObject, Name: "Mutation", Fields: []*FieldDef{
			m("set", N("String"), &ArgDef{Name: "s", Type: NN(N("String"))}), f("a", N("A")), f("i", N("Int")),
		}},
		{Kind: KInterface, Name: "Named", Fields: []*FieldDef{f("name", N("String")), f("i", N("Int")), f("kid", N("A")), m("echo", N("String"), echoArgs()...), f("buddy", N("Named")), f("nick", N("String")),
			// rev: the Go method takes (y, x); under reflection only an explicit RegisterField order makes it right, and that order
			// is the implementing object's, not the interface's
			m("rev", N("String"), &ArgDef{Name: "x", Type: N("String")}, &ArgDef{Name: "y", Type: N("String")})}},
		obj("A"), obj("B"), obj("C"),
		{Kind: KObject, Name: "V", Fields: []*FieldDef{f("id", N("ID")), f("vid", N("String")), m("vm", N("String"))}},
		{Kind: KUnion, Name: "AB", Members: members},
		{Kind: KEnum, Name: "Color", Values: []string{"RED", "GREEN", "BLUE"}},
		{Kind: KInput, Name: "Filter", Fields: []*FieldDef{{Name: "min", Type: NN(N("Int"))}, {Name: "tag", Type: N("String"), Default: "\"dflt\""},
			{Name: "colors", Type: L(NN(N("Color")))}, {Name: "sub", Type: N("Filter")}}},
	}}
	return s
}
