//go:build vsched

package props

import (
	"fmt"
	"strings"
	"time"

	"github.com/uhn/ggql/pkg/ggql"

	"verif/mc/core"
	"verif/mc/sched"
	"verif/mc/world"
)

// C20 — the subscription registry is safe under concurrent publish / subscribe / unsubscribe (DESIGN 5.20).
// Every interleaving (up to a preemption bound) of 2-3 real goroutines over the real registry, under the
// controlled scheduler that owns every mutex operation of pkg/ggql.

func init() {
	Register(&Check{
		ID:  "C20",
		Run: runC20,
		Rule: "initial registries {empty; healthy x; healthy x + always-failing x; healthy x + wildcard; two failing x; fails-on-2nd x} x thread sets = all pairs and triples of single-call threads and all pairs of two-call threads over " +
			"{publish(x), publish(y), subscribe(x), subscribe(failing x), unsubscribe(x), unsubscribe(wildcard)}; every schedule with <= P preemptions (choice point = every Mutex.Lock of pkg/ggql, taken before acquisition). " +
			"Oracle per execution from logical-clock logs: no deadlock; <= 1 message per publish call and subscriber; <= 1 clean-up per subscriber (exactly 1 if it is gone at the end); no delivery after the unsubscribe call that removed the subscriber returned; " +
			"a publish started after a subscribe returned reaches that subscriber if it stays registered; returned counts = deliveries made; final registry = that of some sequential order consistent with real time; failure-free histories fully linearizable. " +
			"distinct = schedules executed; non-trivial = schedules with at least one contended acquisition or one preemption",
		Technique:      "stateless model checking of the real implementation: exhaustive enumeration of thread interleavings (quick: preemption bound 2; thorough: all interleavings, plus a fine-grained pass with Unlock as a choice point) under a cooperative scheduler over a sync shim (go build -overlay), with vector-clock happens-before race checking of every instrumented memory access on every schedule",
		Assumptions:    []string{"between two Lock operations a goroutine touches only private state or state guarded by a lock it holds (the data-race conjunct, checked by the separate free-running -race pass bin/race.sh)", "Lock-only choice points (DESIGN 3.3)"},
		QuickBudget:    100 * time.Second,
		ThoroughBudget: 25 * time.Minute,
	})
}

type c20Call struct {
	Kind string // publish | subscribe | unsubscribe
	ID   string
	Sub  int // subscriber kind for subscribe
}

func (c c20Call) String() string {
	if c.Kind == "subscribe" {
		return fmt.Sprintf("subscribe(%q,kind=%d)", c.ID, c.Sub)
	}
	return fmt.Sprintf("%s(%q)", c.Kind, c.ID)
}

type c20Send struct {
	Sub    string
	Time   int
	Thread int
	Call   int
}

type c20CallRec struct {
	Thread, Idx int
	Call        c20Call
	Start, End  int
	Cnt         int
	Err         bool
	Sends       []string // identities delivered to, in order
	Cleanups    []string
	NewSub      string
}

type c20Subscriber struct {
	w     *c20World
	ident string
	id    string
	kind  int
	n     int
}

type c20World struct {
	root     *ggql.Root
	s        *sched.Sched
	clock    int
	sends    []c20Send
	cleanups map[string][]int // identity -> times
	cur      map[int]*c20CallRec
	nextKind int
	nextName string
	probing  bool
	probeLog []string
	unfit    bool // subscriptions are on the scalar field count and every event is a number Int cannot take (null + error at the top)
	reflectE bool // events are reflection structs: resolving them takes Object/FieldDef mutexes inside the registry lock
}

func (w *c20World) now() int {
	if w.s != nil {
		return w.s.Now()
	}
	w.clock++
	return 1000000 + w.clock
}

func (w *c20World) thread() int {
	if w.s != nil {
		return w.s.Cur()
	}
	return -1
}

func (x *c20Subscriber) Send(v interface{}) error {
	w := x.w
	if w.probing {
		w.probeLog = append(w.probeLog, x.ident)
		return nil
	}
	x.n++
	th := w.thread()
	rec := w.cur[th]
	s := c20Send{Sub: x.ident, Time: w.now(), Thread: th}
	if rec != nil {
		s.Call = rec.Idx
		rec.Sends = append(rec.Sends, x.ident)
	}
	w.sends = append(w.sends, s)
	if x.kind == 3 || (x.kind == 1 && x.n == 1) || (x.kind == 2 && x.n == 2) {
		return fmt.Errorf("subscriber %s fails", x.ident)
	}
	return nil
}

func (x *c20Subscriber) Match(id string) bool {
	return id == "*probe*" || x.id == "" || x.id == id
}

func (x *c20Subscriber) Unsubscribe() {
	w := x.w
	w.cleanups[x.ident] = append(w.cleanups[x.ident], w.now())
	if rec := w.cur[w.thread()]; rec != nil {
		rec.Cleanups = append(rec.Cleanups, x.ident)
	}
}

type c20Root struct{ w *c20World }
type c20SubRes struct{ w *c20World }

func (r *c20Root) Resolve(field *ggql.Field, args map[string]interface{}) (interface{}, error) {
	return &c20SubRes{r.w}, nil
}
func (r *c20SubRes) Resolve(field *ggql.Field, args map[string]interface{}) (interface{}, error) {
	w := r.w
	id, _ := args["id"].(string)
	name, kind := w.nextName, w.nextKind
	if rec := w.cur[w.thread()]; rec != nil {
		name, kind = rec.NewSub, rec.Call.Sub
	}
	return ggql.NewSubscription(&c20Subscriber{w: w, ident: name, id: id, kind: kind}, field, args), nil
}

func newC20World(initial []c19Sub, unfit bool) *c20World {
	w := &c20World{cleanups: map[string][]int{}, cur: map[int]*c20CallRec{}, unfit: unfit}
	w.root = ggql.NewRoot(&c20Root{w})
	if err := w.root.ParseString(c19SDL); err != nil {
		panic(core.EngineError{Msg: err.Error()})
	}
	for i, s := range initial {
		w.nextName, w.nextKind = fmt.Sprintf("i%d", i), s.Kind
		arg := ""
		if s.ID != "" {
			arg = fmt.Sprintf("(id: %q)", s.ID)
		}
		q := "subscription { ev" + arg + " {name} }"
		if unfit {
			q = "subscription { count" + arg + " }"
		}
		res := w.root.ResolveString(q, "", nil)
		if res["errors"] != nil {
			panic(core.EngineError{Msg: fmt.Sprintf("initial subscribe failed: %v", res["errors"])})
		}
	}
	return w
}

func (w *c20World) perform(th, idx int, c c20Call) *c20CallRec {
	rec := &c20CallRec{Thread: th, Idx: idx, Call: c, NewSub: fmt.Sprintf("t%dc%d", th, idx)}
	w.cur[th] = rec
	rec.Start = w.now()
	switch c.Kind {
	case "publish":
		var ev interface{} = &c19EvRes{c19Events[0]}
		if w.reflectE {
			ev = c19ReflectEvent(0)
		}
		if w.unfit {
			ev = int64(1) << 40
		}
		cnt, err := w.root.AddEvent(c.ID, ev)
		rec.Cnt, rec.Err = cnt, err != nil
	case "unsubscribe":
		rec.Cnt = w.root.Unsubscribe(c.ID)
	case "subscribe":
		arg := ""
		if c.ID != "" {
			arg = fmt.Sprintf("(id: %q)", c.ID)
		}
		q := "subscription { ev" + arg + " {name} }"
		switch (th + idx) % 3 {
		case 1: // the root field written twice (one response key: one subscription)
			q = "subscription { ev" + arg + " {name} ev" + arg + " {name} }"
		case 2: // the root field inside an inline fragment
			q = "subscription { ... on Subscription { ev" + arg + " {name} } }"
		}
		if w.unfit {
			q = "subscription { count" + arg + " }"
		}
		res := w.root.ResolveString(q, "", nil)
		rec.Err = res["errors"] != nil
	}
	rec.End = w.now()
	w.cur[th] = nil
	return rec
}

// ---- sequential model used for the linearization oracle

type c20MSub struct {
	ident string
	id    string
	kind  int
	n     int
}

func c20Match(s c20MSub, id string) bool { return s.id == "" || s.id == id }

type c20Model struct{ subs []c20MSub }

func (m *c20Model) apply(rec *c20CallRec) (cnt int, sends []string) {
	switch rec.Call.Kind {
	case "subscribe":
		m.subs = append(m.subs, c20MSub{ident: rec.NewSub, id: rec.Call.ID, kind: rec.Call.Sub})
	case "publish":
		var keep []c20MSub
		for _, s := range m.subs {
			if !c20Match(s, rec.Call.ID) {
				keep = append(keep, s)
				continue
			}
			cnt++
			s.n++
			sends = append(sends, s.ident)
			if !(s.kind == 3 || (s.kind == 1 && s.n == 1) || (s.kind == 2 && s.n == 2)) {
				keep = append(keep, s)
			}
		}
		m.subs = keep
	case "unsubscribe":
		var keep []c20MSub
		for _, s := range m.subs {
			if c20Match(s, rec.Call.ID) {
				cnt++
			} else {
				keep = append(keep, s)
			}
		}
		m.subs = keep
	}
	return
}

func (m *c20Model) live() string {
	var out []string
	for _, s := range m.subs {
		out = append(out, s.ident)
	}
	return strings.Join(out, ",")
}

// linearizations enumerates the orders of recs consistent with real time (a before b if a.End < b.Start).
func c20Linearizations(recs []*c20CallRec, f func(order []*c20CallRec) bool) bool {
	n := len(recs)
	used := make([]bool, n)
	order := make([]*c20CallRec, 0, n)
	var rec func() bool
	rec = func() bool {
		if len(order) == n {
			return f(order)
		}
		for i := 0; i < n; i++ {
			if used[i] {
				continue
			}
			ok := true
			for j := 0; j < n; j++ {
				if !used[j] && j != i && recs[j].End < recs[i].Start {
					ok = false // j must come before i
				}
			}
			if !ok {
				continue
			}
			used[i] = true
			order = append(order, recs[i])
			if rec() {
				return true
			}
			order = order[:len(order)-1]
			used[i] = false
		}
		return false
	}
	return rec()
}

type c20Scenario struct {
	Name    string
	Initial []c19Sub
	Threads [][]c20Call
}

func c20Scenarios(thorough bool) []c20Scenario {
	regs := []struct {
		name string
		subs []c19Sub
	}{
		{"empty", nil},
		{"healthy-x", []c19Sub{{ID: "x", Kind: 0}}},
		{"healthy-x+failing-x", []c19Sub{{ID: "x", Kind: 0}, {ID: "x", Kind: 3}}},
		{"healthy-x+wildcard", []c19Sub{{ID: "x", Kind: 0}, {ID: "", Kind: 0}}},
		{"two-failing-x", []c19Sub{{ID: "x", Kind: 3}, {ID: "x", Kind: 1}}},
		{"fails-on-2nd-x+healthy-y", []c19Sub{{ID: "x", Kind: 2}, {ID: "y", Kind: 0}}},
	}
	calls := []c20Call{{Kind: "publish", ID: "x"}, {Kind: "publish", ID: "y"}, {Kind: "subscribe", ID: "x", Sub: 0}, {Kind: "subscribe", ID: "x", Sub: 3}, {Kind: "unsubscribe", ID: "x"}, {Kind: "unsubscribe", ID: ""}}
	var out []c20Scenario
	for _, r := range regs {
		// all pairs (with repetition) of single-call threads
		for i := range calls {
			for j := i; j < len(calls); j++ {
				out = append(out, c20Scenario{fmt.Sprintf("%s | %s || %s", r.name, calls[i], calls[j]), r.subs, [][]c20Call{{calls[i]}, {calls[j]}}})
			}
		}
		// all triples (with repetition) of single-call threads
		for i := range calls {
			for j := i; j < len(calls); j++ {
				for k := j; k < len(calls); k++ {
					out = append(out, c20Scenario{fmt.Sprintf("%s | %s || %s || %s", r.name, calls[i], calls[j], calls[k]), r.subs, [][]c20Call{{calls[i]}, {calls[j]}, {calls[k]}}})
				}
			}
		}
		// pairs of two-call threads (a selection in quick, all in thorough)
		two := [][]c20Call{
			{calls[0], calls[0]}, {calls[0], calls[4]}, {calls[2], calls[0]}, {calls[4], calls[2]}, {calls[3], calls[0]}, {calls[0], calls[5]},
		}
		if thorough {
			two = nil
			for i := range calls {
				for j := range calls {
					two = append(two, []c20Call{calls[i], calls[j]})
				}
			}
		}
		for i := range two {
			for j := i; j < len(two); j++ {
				out = append(out, c20Scenario{fmt.Sprintf("%s | %v || %v", r.name, two[i], two[j]), r.subs, [][]c20Call{two[i], two[j]}})
			}
		}
	}
	return out
}

func runC20(c *core.Ctx) {
	bound := 2
	if c.Thorough() {
		bound = -1 // unbounded: EVERY interleaving of the lock acquisitions (the threads are short enough to finish)
	}
	scenarios := c20Scenarios(c.Thorough())
	completed := true
	mem := memTrackOn(c)
	var maxSched int64
	for si0 := 0; si0 < 3*len(scenarios); si0++ {
		si, reflectE, unfit := si0/3, si0%3 == 1, si0%3 == 2
		sc := scenarios[si]
		if reflectE || unfit {
			hasPublish := false
			for _, th := range sc.Threads {
				for _, cl := range th {
					if cl.Kind == "publish" {
						hasPublish = true
					}
				}
			}
			if !hasPublish {
				continue
			}
			if unfit {
				sc.Name += " [scalar subscriptions, events the field type cannot take]"
			} else {
				sc.Name += " [reflection events]"
			}
		}
		if !c.OwnsIdx(int64(si0)) {
			continue
		}
		c.R.Distinct-- // scenarios are not the unit of distinctness: schedules are
		if c.Expired() {
			completed = false
			break
		}
		outcomes := map[string]bool{}
		// thorough: a second pass with Unlock as a choice point too (fine mode, preemption bound 2) cross-checks the Lock-only
		// reduction the first pass relies on
		type pass struct {
			fine  bool
			bound int
		}
		passes := []pass{{false, bound}}
		if c.Thorough() {
			passes = append(passes, pass{true, 2})
		}
		for _, ps := range passes {
			fine := ps.fine
			ex := &core.Explorer{Bound: ps.bound, MaxRun: 2000000, Stop: c.Expired}
			var nsched int64
			failureFree := true
			for _, s := range sc.Initial {
				if s.Kind != 0 {
					failureFree = false
				}
			}
			for _, th := range sc.Threads {
				for _, cl := range th {
					if cl.Kind == "subscribe" && cl.Sub != 0 {
						failureFree = false
					}
				}
			}
			ex.Explore(func(ch *core.Chooser) {
				nsched++
				c.Eval()
				c.R.Distinct++
				core.Announce("C20 scenario " + sc.Name)
				w := newC20World(sc.Initial, unfit)
				w.reflectE = reflectE
				var recs []*c20CallRec
				bodies := make([]func(*sched.Sched), len(sc.Threads))
				for ti, th := range sc.Threads {
					ti, th := ti, th
					bodies[ti] = func(s *sched.Sched) {
						w.s = s
						for ci, cl := range th {
							recs = append(recs, w.perform(ti, ci, cl))
						}
					}
				}
				res := sched.Run(ch, fine, bodies...)
				w.s = nil
				if fine {
					c.Count("fine_mode_schedules")
				}
				if res.Contended > 0 || res.Preemptions > 0 {
					c.Nontrivial()
				}
				c.CountN("contended_acquisitions", int64(res.Contended))
				detail := func(msg string) map[string]interface{} {
					var rs []map[string]interface{}
					for _, r := range recs {
						rs = append(rs, map[string]interface{}{"thread": r.Thread, "call": r.Call.String(), "start": r.Start, "end": r.End, "returned": r.Cnt, "error": r.Err, "sends": r.Sends, "cleanups": r.Cleanups})
					}
					return map[string]interface{}{"scenario": sc.Name, "schedule": res.Schedule, "choices": ch.Trace, "calls": rs, "diff": msg, "preemptions": res.Preemptions}
				}
				attrs := func(what string) map[string]string { return map[string]string{"what": what} }
				if mem {
					reportRaces(c, res, map[string]string{}, func() map[string]interface{} { return detail("data race") })
				}
				if len(res.Panics) > 0 {
					for _, p := range res.Panics {
						if strings.HasPrefix(p, "ENGINE: ") {
							panic(core.EngineError{Msg: p})
						}
						c.Violation("panic", map[string]string{"class": classifyPanic(p)}, detail(p))
					}
					return
				}
				if res.Deadlock {
					c.Outcome("deadlock")
					c.Violation("deadlock", attrs("no-enabled-thread"), detail(fmt.Sprintf("threads %v blocked forever", res.Blocked)))
					return
				}
				if res.Horizon {
					c.Cap("step horizon reached in " + sc.Name)
					return
				}
				// (1) at most one message per publish call and subscriber; returned count = deliveries made
				for _, r := range recs {
					if r.Call.Kind != "publish" {
						continue
					}
					seen := map[string]bool{}
					for _, s := range r.Sends {
						if seen[s] {
							c.Violation("concurrency", attrs("duplicate-delivery"), detail("publish delivered twice to "+s))
							return
						}
						seen[s] = true
					}
					if r.Cnt != len(r.Sends) {
						c.Violation("concurrency", attrs("count-vs-deliveries"), detail(fmt.Sprintf("publish returned %d but made %d deliveries", r.Cnt, len(r.Sends))))
						return
					}
				}
				// final registry by a probe publish
				w.probing = true
				_, _ = w.root.AddEvent("*probe*", &c19EvRes{c19Events[0]})
				w.probing = false
				final := strings.Join(w.probeLog, ",")
				alive := map[string]bool{}
				for _, id := range w.probeLog {
					alive[id] = true
				}
				// (2) clean-up at most once; exactly once if gone at the end
				known := map[string]bool{}
				for i := range sc.Initial {
					known[fmt.Sprintf("i%d", i)] = true
				}
				for _, r := range recs {
					if r.Call.Kind == "subscribe" && !r.Err {
						known[r.NewSub] = true
					}
				}
				for id := range known {
					n := len(w.cleanups[id])
					if n > 1 {
						c.Violation("concurrency", attrs("double-cleanup"), detail(fmt.Sprintf("clean-up of %s called %d times", id, n)))
						return
					}
					if !alive[id] && n != 1 {
						c.Violation("concurrency", attrs("missing-cleanup"), detail(fmt.Sprintf("%s is no longer registered but its clean-up was called %d times", id, n)))
						return
					}
					if alive[id] && n != 0 {
						c.Violation("concurrency", attrs("cleanup-of-live-subscriber"), detail(fmt.Sprintf("%s is still registered but was cleaned up", id)))
						return
					}
				}
				// (3) no delivery after the unsubscribe call that removed the subscriber returned
				for _, r := range recs {
					if r.Call.Kind != "unsubscribe" {
						continue
					}
					for _, id := range r.Cleanups {
						for _, s := range w.sends {
							if s.Sub == id && s.Time > r.End {
								c.Violation("concurrency", attrs("delivery-after-unsubscribe"), detail(fmt.Sprintf("%s received a message at %d after the unsubscribe that removed it returned at %d", id, s.Time, r.End)))
								return
							}
						}
					}
				}
				// (4) a publish started after a subscribe returned reaches the subscriber if it stays registered
				for _, sr := range recs {
					if sr.Call.Kind != "subscribe" || sr.Err {
						continue
					}
					for _, pr := range recs {
						if pr.Call.Kind != "publish" || pr.Start < sr.End || !(sr.Call.ID == "" || sr.Call.ID == pr.Call.ID) {
							continue
						}
						removedBefore := false
						for _, t := range w.cleanups[sr.NewSub] {
							if t < pr.End {
								removedBefore = true
							}
						}
						if removedBefore {
							continue
						}
						got := false
						for _, s := range pr.Sends {
							if s == sr.NewSub {
								got = true
							}
						}
						if !got {
							c.Violation("concurrency", attrs("published-event-missed-subscriber"), detail(fmt.Sprintf("publish started at %d after subscribe of %s returned at %d but did not deliver to it", pr.Start, sr.NewSub, sr.End)))
							return
						}
					}
				}
				// (5) final registry = some sequential order consistent with real time; failure-free: the whole history linearizable
				var initRecs []*c20CallRec
				for i, s := range sc.Initial {
					initRecs = append(initRecs, &c20CallRec{Call: c20Call{Kind: "subscribe", ID: s.ID, Sub: s.Kind}, NewSub: fmt.Sprintf("i%d", i)})
				}
				found := c20Linearizations(recs, func(order []*c20CallRec) bool {
					m := &c20Model{}
					for _, r := range initRecs {
						m.apply(r)
					}
					for _, r := range order {
						cnt, sends := m.apply(r)
						if failureFree && r.Call.Kind != "subscribe" {
							if cnt != r.Cnt {
								return false
							}
							if r.Call.Kind == "publish" && strings.Join(sends, ",") != strings.Join(r.Sends, ",") {
								return false
							}
						}
					}
					return m.live() == final
				})
				if !found {
					what := "final-registry-not-sequential"
					if failureFree {
						what = "not-linearizable"
					}
					c.Outcome(what)
					c.Violation("concurrency", attrs(what), detail("no sequential order of the calls consistent with real time explains the outcome; final registry = ["+final+"]"))
					return
				}
				outcomes[final+"|"+fmt.Sprint(len(w.sends))] = true
				c.Outcome("safe")
			})
			if ex.Capped {
				c.Cap(fmt.Sprintf("scenario %q capped at %d schedules", sc.Name, nsched))
			}
			if nsched > maxSched {
				maxSched = nsched
			}
		}
		c.CountN("distinct_final_outcomes", int64(len(outcomes)))
		c.Sample(func() interface{} {
			return map[string]interface{}{"scenario": sc.Name, "distinct_outcomes": len(outcomes)}
		})
	}
	if c.Shard == 0 {
		racePass(c, "c20")
	}
	bs := fmt.Sprintf("preemption bound %d", bound)
	if bound < 0 {
		bs = "ALL interleavings (no preemption bound)"
	}
	c.R.Bound = fmt.Sprintf("%d scenarios x {Resolver events, reflection events, scalar subscriptions with events the field type cannot take}; %s; Lock-only choice points (thorough: + a pass with Unlock as a choice point at preemption bound 2); happens-before race check on every schedule; + free-running race pass", len(scenarios), bs)
	if !completed {
		c.Cap("deadline reached")
	}
	_ = world.Canon
}

func classifyPanic(p string) string {
	if i := strings.IndexByte(p, '\n'); i > 0 {
		p = p[:i]
	}
	if len(p) > 60 {
		p = p[:60]
	}
	return p
}
