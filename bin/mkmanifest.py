#!/usr/bin/env python3
"""Regenerates /verif/MANIFEST.json from the table below (kept in one place so the file is always valid)."""
import json, os

V = os.path.dirname(os.path.dirname(os.path.abspath(__file__)))

# id -> (built?, technique, level text, level note, design ref)
CHECKS = {
 "C18": ("bounded-exhaustive input enumeration against the real writer/parser (all value trees <= N nodes x indent x Sort x format; all strings <= 3 runes over a 26-rune alphabet incl. C1 / zero-width / private-use / unassigned and tag astral code points; number set), reference = structural equality + encoding/json",
         "Every value of the stated domain up to 6 (quick) / 7 (thorough) nodes, and every string up to 3 runes over the escaping-relevant alphabet in every placement (incl. map keys), is written in both formats and all indent/sort modes and parsed back; the space is enumerated completely, not sampled.",
         "Trusts encoding/json as the standard JSON parser; values larger than the bound are not covered.", "5.18"),
 "C01": ("deviation-bounded exhaustive enumeration of requests (all documents within k mutations of 13 base documents x data graphs x operation names x variable maps) executed on the real resolver under RS/AS/FS, compared with an independent reference executor (data, error paths, resolver call set)",
         "Every request within the mutation bound is executed against fresh roots of every in-claim strategy configuration and compared position by position with a reference executor written from the June-2018 execution algorithm; quick = 1 mutation, thorough = 2.",
         "Fixed universe schema (schema variety is the subject of C13-C17); the reference executor is trusted; abstract-type dispatch is decided by C08.", "5.1"),
 "C09": ("complete enumeration of the finite inclusion table (49 source pairs x 2 orders x 3 selection kinds x 3 depths x strategy configurations) on the real resolver against the inclusion formula and the resolver call set",
         "The whole table the property quantifies over is enumerated, so within the fixed schema the verdict is complete, not bounded.",
         "Fixed universe schema and data graph; absent-and-undefaulted variables are outside the table.", "5.9"),
 "C06": ("exhaustive fault enumeration: every resolver invocation of every bounded request (documents within 1 mutation of the bases x 2 data graphs x strategies) made to fail in turn with 5 failure kinds (plain, group, group wrapped with context, *ggql.Error with extensions, one shared sentinel *ggql.Error instance; quick: sentinel pairs on the bases, thorough: all pairs), list-accessor failures and output-coercion failures (a value the declared Int cannot represent) alone and beside every other failure; documents with merged response keys with every call failing at its SECOND invocation; on every run the invariant 'an error reported at p => data at p is null', on the real resolver, against a reference executor",
         "For every request in the bound and every call of its reference call log the failing run is compared with the reference: error-path multiset, null at the failing position, all other positions unchanged.",
         "Faults keyed by (node, field); for documents whose reference merges response keys only the error=>null invariant is demanded (invocation multiplicity is unspecified); finding C06-F1 is matched only when stripping the 'fragment at' segment makes paths equal.", "5.6"),
 "C10": ("exhaustive single-defect injection (16 defect kinds: required argument through a variable without value, undefined field / omitted required argument under a response key a valid selection has already used, undefined field, field only the concrete type behind an interface defines, field written directly under a union, undeclared argument alone / beside / replacing, required argument omitted with some / no arguments at all, unknown and misplaced directive, undefined type condition inline / named) at every selection-set site of every document within 1 (thorough 2) mutations of the bases, under RS/AS/FS, on the real resolver; oracle = error present and naming the offender, resolver call/argument log, siblings equal to the defect-free reference, no value under the defective selection's key",
         "Every (document, site, defect) triple within the bound is executed; the verdict covers all container kinds reachable in the universe schema (object, interface-typed, union member, query/mutation root).",
         "Fixed universe schema; defective selections are aliased dfx.", "5.10"),
 "C02": ("exhaustive enumeration of per-node strategy assignments (all 2^6 node subsets x 2 mixing modes), typed Go parameters (string / named string receiving enum and String arguments), fields promoted from embedded structs, single faults (plain error; value returned together with an error), every C10 defect injected at the root (responses compared across strategies), three decoy-value precedence probes and binding probes (all argument orders, RegisterField) over bounded common-feature requests on the real resolver; pairwise differential + reference executor",
         "Pure strategies are compared pairwise and with the reference on every bounded request and single fault; every mixture of strategies over the data graph is enumerated, and precedence is decided by probes whose lower-precedence path would return decoy/sentinel values.",
         "Typed struct fields cannot hold Resolver objects, so an assignment is honoured where the Go carrier is free; messages are not compared (they name Go types).", "5.2"),
 "C08": ("complete enumeration of membership patterns (7 x 7 schema variants) x 5 binding modes x mutation-bounded documents with abstract-dispatch selections, executed under reflection on cold roots, against a reference executor with the standard applicability relation; + explicit-state exploration of request histories on ONE root (all ordered pairs over 10 x 7 documents incl. a struct-value list carrier) and of schema growth between requests (every single 'implements' / union-member extension loaded after the first round of requests); binding probes with Go type names containing one another (suffix / prefix) x 5 bindings x all member and value orders",
         "All interface/union membership patterns over three object types and all binding modes are covered completely; documents within the mutation bound of 7 abstract base documents; histories and growth for the 9 corner variants (thorough: all 49).",
         "Reflection strategy only (RS-only graphs are outside the claim as documented); mixed registered-Resolver graphs not covered; finding C08-F1 (single Object.meta slot: a struct value bound first hides pointers) matched only for (second request, value-carrier warm-up, lazy binding, pair right under RegisterType).", "5.8"),
 "C11": ("explicit-state exploration of call histories: every sequence (length <= 3 quick / 4 thorough) of (operation, variables) resolve calls on ONE parsed executable, no state merging, fresh-parse differential oracle + printed form, on the real API under RS/AS/FS",
         "All call histories up to the bound over 12 documents (variables nested in literals at depth 1 and 2, list / input-object / enum variable defaults, argument order, shared fragments, directives, merged keys) chosen for the carriers of hidden AST mutation; each step is compared with a fresh parse.",
         "Fresh parse is resolved on the same root, so only the parsed request can carry state; histories longer than the bound not covered.", "5.11"),
 "C07": ("bounded-exhaustive enumeration of request texts (valid, every single fault, every single defect at every site, every truncation and token deletion, bad variable maps, unknown operation; every string <= 2 runes over a 26-rune alphabet carried into data and into an error message; every one-line request again with a line break after each token) x 6 layouts x 3 indents x Sort, invariant checking of every response of the real resolver",
         "Every response produced inside the bound is checked against the envelope grammar, error shape, location bounds, line-of-token for errors addressing a rendered selection, rejected => no data, and an encoding/json round trip in every indent mode.",
         "encoding/json trusted; the line demand only applies where the harness can map the error path to a selection it rendered; finding C07-F1 matches only the pinned union-binding message.", "5.7"),
 "C04": ("complete enumeration of the product (9 base input types x 7 wrapper shapes x client-value menu incl. integers above int64 as Go uint / uint64 / JSON numbers x delivery modes {literal, JSON variable, 7 native Go kinds, variable default, variable over default, variable 1 and 2 levels down in list / object literals, unset and null nullable variables, argument omitted} each also as the SECOND resolution of one parsed executable / on a root that has just served a valid request for the same argument x RS/AS/FS) on the real resolver against an independent one-directional input-coercion reference",
         "The whole finite product is enumerated: if the resolver ran, the delivered argument must conform to the declared type and denote the client's value; a clearly uncoercible value must give an error and no invocation.",
         "Over-rejection is allowed; explicit null for a defaulted input field / variable is not demanded either way; Relaxed=false.", "5.4"),
 "C05": ("complete enumeration of the product (9 leaf types x 5 wrappers x Go return-value menu incl. every list carrier x 3 positions x RS/AS/FS) on the real resolver; schema-directed walk of the encoding/json-decoded response",
         "Every cell of the product is executed; each leaf must have the JSON shape of its declared type or be null, and a clearly unrepresentable value must be null with an error at that path.",
         "encoding/json trusted; findings C05-F1 (enum members) and C05-F2 (fraction truncation) are pinned by the suite and matched by narrow predicates.", "5.5"),
 "C13": ("bounded-exhaustive enumeration of schemas on the real loader (6 bases + every single valid edit, thorough: pairs; every mutation of the 14-rule catalogue at every site and wrapper nesting incl. explicit null for non-null directive arguments and arguments given to an argument-less directive; both load routes SDL and AddTypes; rule breakers arriving as a LATER load on an accepting root; ALL digraphs of directive uses among 3 (thorough 4) directive definitions and 2 directives x 2 arguments: accepted iff acyclic) against an independent rule checker, with public-API read-back and re-check of every accepted schema",
         "Every schema in the bound is loaded; the independent checker decides accept/reject; accepted schemas are read back, re-checked and compared canonically; rejections must name the offender.",
         "The reference rule checker is trusted; mutants it does not itself judge ill-formed are discarded (counted); findings C13-F1..F4 are behaviours pinned by the suite, matched narrowly by rule+site.", "5.13"),
 "C15": ("bounded-exhaustive enumeration of schemas (C13 accepting side, both load routes) and of string contents (every string of <= 2, thorough 3, units over a 13-unit escaping alphabet at each of 20 description / string-constant sites; 24 numbers incl. exponent-form magnitudes and float64 extremes, and explicit null, at each of 7 constant sites; the whole-root print and the per-type prints assembled in reverse order) on the real printer and parser; read-back differential oracle (printed SDL accepted, same canonical schema, fixed point); thorough adds ggqlgen -w on the bases",
         "Every schema/string in the bound is loaded, printed, re-loaded in a fresh root, read back through the public API and compared canonically; the second print must equal the first.",
         "Descriptions compared as the parser normalises them; null defaults not generated; '= null' defaults are not told from no default (not demanded); finding C15-F1: ggqlgen cannot write an undeclared schema that 'extend schema' added to (no exported accessor).", "5.15"),
 "C16": ("exhaustive enumeration of arrangements of bounded definition sets on the real loader: all permutations in one document, all assignments to <= 3 successive loads with reference-closed prefixes, every single/pair move of a member into an extend block placed before or after its target; the same for ill-formed sets (one rule-breaking extension unit each), which every arrangement must refuse; all-agree differential oracle (accept, canonical read-back with directive defaults filled, root types, order of the type and directive tables, introspection data, a request per operation root)",
         "For each definition set every arrangement in the three families is loaded into a fresh root and must agree with the canonical arrangement.",
         "8 definition sets of 4-7 units incl. names differing only in case and an implicit schema extended in place (thorough adds the C13 bases); partitions with unresolvable prefixes are outside the claim; ggqlgen multi-file ordering not yet exercised.", "5.16"),
 "C14": ("explicit-state exploration of load histories on the real API, no merging: every history of length <= 3 (thorough 4) over a menu of valid and failing documents (9 failure classes x 5-7 kinds of preceding valid content, each such content also as a valid load of its own, AddTypes route) from 3 initial roots, plus every reader-fault offset of every valid document; before/after and failure-deleted differential oracles over SDL, canonical read-back, introspection and requests through every name lookup table (fields, enum values, input fields, union members, directives, types); a document valid on its own must get the same verdict after failed loads as in the failure-deleted history",
         "Every history within the bound is replayed on a fresh root; each failing load must leave every observable unchanged and the final state must equal that of the history with the failing loads deleted.",
         "Observables are those reachable through the public API; quick restricts length-3 histories to those starting with two of the valid documents or the first two failures.", "5.14"),
 "C17": ("bounded-exhaustive enumeration of schemas (C13 accepting side incl. explicit schema blocks naming only some roots beside objects called Mutation / Subscription, a root type implementing an interface, an implicit schema extended) x introspection selections (full __schema in 3 includeDeprecated modes; __type for every name and an unknown name, literal and variable) x application strategies (reflection, Resolver, installed root resolver) on the real resolver against an independent reference computed from the abstract schema",
         "Every (schema, strategy, query) in the bound is executed and compared field by field with refintrospect; answers must also agree across strategies since each is compared with the same reference.",
         "Wrapper types: only kind and ofType demanded; string defaults may be reported raw (pinned); default deprecation reason with or without embedded quotes.", "5.17"),
 "C19": ("explicit-state breadth-first search of the subscription registry through the real API: all canonical registry states with <= 2 live subscriptions over the full alphabet and <= 3 over a reduced one (thorough 3 / 4), every operation from every state (successor = shortest-path replay on a fresh root + 1 operation), with subscription requests parsed afresh and through one parsed executable per request text, subscribers giving their own variable values, compared with a reference registry on every transition; all unmerged histories of length 4 (thorough 5) with a probe publish as cross-check of the state merge",
         "Every (state, operation) transition in the bound is executed on the real root: deliveries (who, what message, in which order), returned counts, removal and exactly-once clean-up, silence after unsubscribe.",
         "Canonical state = ordered list of (selection, id, kind, remaining failure script), justified because the implementation's only registry state is that slice; matching semantics are the harness subscriber's.", "5.19"),
 "C12": ("stateless model checking of the real implementation: every interleaving with <= 2 (thorough 3) preemptions of 2-3 goroutines resolving menu requests against one cold root, under a hand-written cooperative scheduler that owns every Mutex operation of pkg/ggql through a build-time sync shim (go build -overlay); oracle = response equals the request's response alone on a cold root, no deadlock (also of a single request against itself, and with resolvers that wait for each other through the scheduler's Await), and NO DATA RACE decided on every explored schedule by vector-clock happens-before checking of every field / package-variable access of pkg/ggql (memory-access overlay generated by mc/cmd/mkinstr); plus a free-running race-detector pass of the same bodies",
         "All schedules within the preemption bound are executed for all request pairs (and binding-heavy triples) under reflection (3 binding modes), Resolver and root-resolver roots and a root whose Subscription type was added by AddTypes after the load; the happens-before race check covers every schedule explored; the free-running race pass (32 goroutines x 150 cold roots per configuration) is sampling, labelled so, and kept for accesses the source instrumentation cannot attribute (aliased slices, map internals).",
         "Lock-only choice points, justified by data-race freedom, which is checked on each explored schedule; 2-3 goroutines under the scheduler; if the instrumented build fails the check falls back to the plain overlay and says so (cap).", "5.12"),
 "C20": ("stateless model checking of the real implementation: every interleaving with <= 2 (thorough 3) preemptions of 2-3 goroutines calling publish / subscribe / unsubscribe on one registry (6 initial registries x all pairs and triples of single-call threads and pairs of two-call threads x Resolver / reflection events), under the cooperative scheduler over the sync shim; oracle = the stated guarantees from logical-clock logs, final registry explained by some real-time-consistent sequential order, full linearizability (brute force) for failure-free histories; no data race on any explored schedule (vector-clock happens-before checking over the memory-access overlay); plus the free-running race-detector pass",
         "All schedules within the preemption bound are executed and every one is checked against the guarantees the property lists; detection was demonstrated on a change that cleans up failed subscribers without the identity re-check (double clean-up found in 7630 schedules).",
         "Lock-only choice points; preemption bounded, not unbounded; happens-before race check on every explored schedule, free-running race pass is sampling.", "5.20"),
 "C03": ("bounded-exhaustive enumeration of inputs on the real entry points: all token strings <= 4 (thorough 5) over a 40-token executable alphabet under three resolver strategies, <= 4 (5) over a 36-token SDL alphabet, <= 5 (6) over a value alphabet; every single-token edit of a corpus of 34 requests and 14 schemas; all byte strings <= 2 (3) over 23 special bytes in 5 placements; all rune strings <= 2 over 21 code-point classes in every text position and through the value writers on Go-built values; all digraphs of directive uses over 3 directive definitions; all fragment spread graphs over 3 fragments; length ladders (15 token classes x 24 lengths around 16 ... 65536 in every reading position); 6 self-referential input schemas x 8 request shapes; every reader fault kind at every Read offset; every variable-shape assignment; printing of whatever loaded. Each case numbered and announced through a shared mapping, so fatal errors and hangs are observations and the worker is restarted past them",
         "Within the stated lengths the input spaces are enumerated completely; the oracle is only that the call returns.",
         "Hang = case counter stalled for 60 s; deep-nesting ladders beyond the corpus are not enumerated.", "5.3"),
}

NOT_YET = {}

def main():
    props = [json.loads(l) for l in open(os.path.join(V, "properties.jsonl"))]
    checks, na = [], []
    for p in props:
        pid = p["id"]
        if pid in CHECKS:
            tech, text, note, ref = CHECKS[pid]
            checks.append({
                "property_id": pid,
                "quick_cmd": f"bin/check.sh {pid} quick",
                "thorough_cmd": f"bin/check.sh {pid} thorough",
                "evidence_file": f"/verif/evidence/{pid}.json",
                "replay_cmd_template": "bin/check.sh replay {path}",
                "engine": "vcheck",
                "level_claimed": {"category": "model_checking", "text": text, "design_ref": f"DESIGN.md section {ref}"},
                "level_note": note,
                "technique": tech,
            })
        else:
            na.append({"property_id": pid, "reason": NOT_YET.get(pid, "check not built yet in this round (planned: see DESIGN.md section 5); not claimed until its check passes on the unchanged tree")})
    m = {
        "version": 1,
        "setup_cmd": "bin/setup.sh",
        "hooks": {
            "guard": "none - no in-tree hooks: instrumentation is a go build -overlay generated from /repo's working tree (sync -> scheduler shim, bin/mkoverlay.py; for C12/C20 additionally every field / package-variable access wrapped, mc/cmd/mkinstr); build tag vsched selects the scheduler-driven checks in the harness only",
            "enable": "bin/build.sh (mkoverlay / mkinstr + go build -overlay build/overlay.json | build/overlay_mem.json)",
            "baseline_off_cmd": "bin/baseline.sh",
            "source_commits": [],
            "add_only": True,
        },
        "engines": [
            {"name": "vcheck", "path": "mc/cmd/vcheck", "serves_properties": sorted(CHECKS),
             "kind_free_text": "hand-written explorer: deviation-bounded choice-sequence DFS, explicit-state BFS over the real API, cooperative scheduler over a sync shim with vector-clock race checking of instrumented memory accesses; workers are OS processes sharded by case hash"},
        ],
        "checks": checks,
        "not_applicable": na,
        "notes": "All checks rebuild the harness against /repo's working tree (bin/build.sh). Known findings: known_findings.jsonl.",
    }
    json.dump(m, open(os.path.join(V, "MANIFEST.json"), "w"), indent=1)
    print("MANIFEST.json:", len(checks), "checks,", len(na), "not_applicable")

if __name__ == "__main__":
    main()
