package world

import (
	"encoding/json"
	"fmt"

	"github.com/uhn/ggql/pkg/ggql"
)

// Strategy of the resolver back end.
type Strategy int

const (
	RS Strategy = iota // objects implementing ggql.Resolver
	AS                 // root (any) resolver over opaque nodes
	FS                 // reflection over Go structs
)

func (s Strategy) String() string { return [...]string{"RS", "AS", "FS"}[s] }

// Carrier selects how lists are handed to ggql (one per branch of resolveList).
type Carrier int

const (
	CarSlice  Carrier = iota // []interface{}
	CarNative                // ListResolver (RS) / opaque list only the any-resolver understands (AS) / typed slice (FS is always typed)
	CarListRes               // AS only: a list that implements ggql.ListResolver itself (it must be asked, not the root resolver)
)

// Binding mode for the reflection strategy.
type Binding int

const (
	BindByName   Binding = iota // cold root, Go type name == GraphQL type name
	BindRegister                // RegisterType for every object type
	BindGoDir                   // @go(type:) directive (schema variant GoDir != 0)
	// RegisterType for every object type AND B.name bound by RegisterField to the method NameB: the struct field B.Name then
	// holds a decoy, so resolving a B with the binding of another type (A.name is the struct field) shows
	BindRegisterFields
)

func (r *Run) fault(k CallKey) error {
	switch r.Faults[k] {
	case FaultErr:
		return fmt.Errorf("%w at %s", ErrInjected, k)
	case FaultGroup:
		return ggql.Errors{fmt.Errorf("%w one at %s", ErrInjected, k), fmt.Errorf("%w two at %s", ErrInjected, k)}
	case FaultNth:
		return nil // not a resolver failure: the list accessor fails later
	case FaultExt:
		// the error carries a position of its own (say, inside some text the resolver parsed): it is not a position in the request
		return &ggql.Error{Base: fmt.Errorf("%w ext at %s", ErrInjected, k), Line: 977, Column: 0, Extensions: map[string]interface{}{"code": "E1"}}
	case FaultSecond:
		if r.Seen == nil {
			r.Seen = map[CallKey]int{}
		}
		if r.Seen[k]++; r.Seen[k] == 2 {
			return fmt.Errorf("%w at the second call of %s", ErrInjected, k)
		}
		return nil
	case FaultValErr:
		return fmt.Errorf("%w (with a value) at %s", ErrInjected, k)
	case FaultWrapped:
		return fmt.Errorf("while resolving %s: %w", k, ggql.Errors{fmt.Errorf("%w one at %s", ErrInjected, k), fmt.Errorf("%w two at %s", ErrInjected, k)})
	case FaultTwoCauses:
		return &twoCauses{msg: fmt.Sprintf("%v with two causes at %s", ErrInjected, k), causes: []error{ErrInjected, fmt.Errorf("another cause")}}
	case FaultTwin:
		return ggql.Errors{fmt.Errorf("%w twin at %s", ErrInjected, k), fmt.Errorf("%w twin at %s", ErrInjected, k)}
	case FaultShared:
		// a sentinel: the SAME *ggql.Error instance for every failing call of the run
		if r.Sentinel == nil {
			r.Sentinel = &ggql.Error{Base: fmt.Errorf("%w sentinel", ErrInjected), Extensions: map[string]interface{}{"code": "S1"}}
		}
		return r.Sentinel
	}
	return nil
}

// twoCauses is one error with two causes.
type twoCauses struct {
	msg    string
	causes []error
}

func (e *twoCauses) Error() string   { return e.msg }
func (e *twoCauses) Unwrap() []error { return e.causes }

func (r *Run) record(n *Node, field string, args map[string]interface{}) {
	if r.NoLog {
		return
	}
	k := CallKey{n.ID, field}
	r.Log = append(r.Log, k)
	r.Args = append(r.Args, ArgRecord{k, args})
}

// BadLeaf is what a resolver under a FaultBadLeaf plan returns where an Int belongs.
const BadLeaf = "notanumber"

// BadLeafFields are the fields a FaultBadLeaf plan may name: Int and [Int] typed (mi is method backed, so reflection can realise it).
var BadLeafFields = map[string]bool{"i": true, "mi": true, "ints": true}

// value is fieldValue under the run's fault plan (only FaultBadLeaf changes the value itself).
func (r *Run) value(n *Node, field string, args map[string]interface{}) interface{} {
	if field == "meet" && r.OnMeet != nil {
		r.OnMeet()
	}
	v := fieldValue(n, field, args)
	if r.Faults[CallKey{n.ID, field}] == FaultBadLeaf && BadLeafFields[field] {
		switch tv := v.(type) {
		case int:
			return BadLeaf
		case []interface{}:
			if len(tv) > 0 {
				cp := append([]interface{}{}, tv...)
				cp[NthFailIndex(len(tv))] = BadLeaf
				return cp
			}
		}
	}
	return v
}

func fieldValue(n *Node, field string, args map[string]interface{}) interface{} {
	switch field {
	case "tri":
		return fmt.Sprintf("%v/%v/%v", args["a"], args["b"], args["c"])
	case "paint":
		return PaintResult(args["c"], args["t"])
	case "rev":
		return fmt.Sprintf("x=%v,y=%v", args["x"], args["y"])
	case "pick":
		return PickResult(args["i"], args["e"], args["in"], args["ids"], args["ss"], args["fs"], args["m"])
	}
	if field == "echo" || field == "set" {
		if field == "set" {
			return fmt.Sprintf("set:%v", args["s"])
		}
		return EchoResult(args["s"], args["b"])
	}
	return n.F[field]
}

// ---------------------------------------------------------------- RS

type rnode struct {
	r   *Run
	n   *Node
	car Carrier
}

type rroot struct {
	r   *Run
	car Carrier
}

func (x *rroot) Resolve(field *ggql.Field, args map[string]interface{}) (interface{}, error) {
	switch field.Name {
	case "query":
		if x.r.Rep != nil {
			return x.r.Rep(x.r.G.Root), nil
		}
		return &rnode{x.r, x.r.G.Root, x.car}, nil
	case "mutation":
		return &rnode{x.r, x.r.G.Mut, x.car}, nil
	}
	return nil, fmt.Errorf("no %s", field.Name)
}

type rlist struct {
	items []interface{}
}

func (l *rlist) Len() int              { return len(l.items) }
func (l *rlist) Nth(i int) interface{} { return l.items[i] }

func (x *rnode) Resolve(field *ggql.Field, args map[string]interface{}) (interface{}, error) {
	x.r.record(x.n, field.Name, args)
	if err := x.r.fault(CallKey{x.n.ID, field.Name}); err != nil {
		if x.r.Faults[CallKey{x.n.ID, field.Name}] == FaultValErr {
			return x.wrap(fieldValue(x.n, field.Name, args)), err // the value AND an error
		}
		return nil, err
	}
	return x.wrap(x.r.value(x.n, field.Name, args)), nil
}

func (x *rnode) wrap(v interface{}) interface{} {
	switch tv := v.(type) {
	case *Node:
		if tv == nil {
			return nil
		}
		if x.r.Rep != nil {
			return x.r.Rep(tv)
		}
		return &rnode{x.r, tv, x.car}
	case EnumVal:
		if x.car == CarNative {
			return ggql.Symbol(tv)
		}
		return string(tv)
	case []interface{}:
		out := make([]interface{}, len(tv))
		allStr, allInt := len(tv) > 0, len(tv) > 0
		for i, e := range tv {
			out[i] = x.wrap(e)
			if _, ok := e.(string); !ok {
				allStr = false
			}
			if _, ok := e.(int); !ok {
				allInt = false
			}
		}
		if x.car == CarNative {
			switch {
			case allStr:
				ss := make([]string, len(tv))
				for i, e := range tv {
					ss[i] = e.(string)
				}
				return ss
			case allInt:
				is := make([]int, len(tv))
				for i, e := range tv {
					is[i] = e.(int)
				}
				return is
			}
			return &rlist{out}
		}
		return out
	}
	return v
}

// ---------------------------------------------------------------- AS

// anyList is a list representation only the harness AnyResolver understands.
type anyList struct {
	items  []interface{}
	failAt int // Nth(failAt) fails (-1: never)
}

// NthFailIndex is the element whose accessor fails under a FaultNth plan: the second element, or the only one.
func NthFailIndex(n int) int {
	if n > 1 {
		return 1
	}
	return 0
}

// AnyRes is the root (any) resolver over opaque *Node values.
type AnyRes struct {
	r   *Run
	car Carrier
}

type anyRootObj struct{}

func (ar *AnyRes) Resolve(obj interface{}, field *ggql.Field, args map[string]interface{}) (interface{}, error) {
	switch to := obj.(type) {
	case *anyRootObj:
		switch field.Name {
		case "query":
			return ar.wrap(ar.r.G.Root), nil
		case "mutation":
			return ar.r.G.Mut, nil
		}
		return nil, fmt.Errorf("no %s", field.Name)
	case *Node:
		ar.r.record(to, field.Name, args)
		if err := ar.r.fault(CallKey{to.ID, field.Name}); err != nil {
			if ar.r.Faults[CallKey{to.ID, field.Name}] == FaultValErr {
				return ar.wrap(fieldValue(to, field.Name, args)), err // the value AND an error
			}
			return nil, err
		}
		w := ar.wrap(ar.r.value(to, field.Name, args))
		if al, ok := w.(*anyList); ok && ar.r.Faults[CallKey{to.ID, field.Name}] == FaultNth {
			al.failAt = NthFailIndex(len(al.items))
		}
		return w, nil
	}
	if n := nodeBehind(obj); n != nil {
		// a reflection struct (or a Resolver object reached although it should have answered itself) under an installed
		// root resolver: answer from the real node; precedence probes compare this with the decoy values in the struct
		ar.r.record(n, field.Name, args)
		ar.r.Probe = append(ar.r.Probe, fmt.Sprintf("any<-%T", obj))
		if err := ar.r.fault(CallKey{n.ID, field.Name}); err != nil {
			if ar.r.Faults[CallKey{n.ID, field.Name}] == FaultValErr {
				return ar.wrap(fieldValue(n, field.Name, args)), err // the value AND an error
			}
			return nil, err
		}
		return ar.wrap(ar.r.value(n, field.Name, args)), nil
	}
	return nil, fmt.Errorf("AnyRes: unexpected %T", obj)
}

func nodeBehind(obj interface{}) *Node {
	switch to := obj.(type) {
	case *A:
		return to.Xn
	case *B:
		return to.Xn
	case *C:
		return to.Xn
	case *Query:
		return to.Xn
	case *rnode:
		return to.n
	case *RF:
		return to.Xn
	}
	return nil
}

func (ar *AnyRes) wrap(v interface{}) interface{} {
	switch tv := v.(type) {
	case *Node:
		if tv == nil {
			return nil
		}
		if ar.r.Rep != nil {
			return ar.r.Rep(tv)
		}
		return tv
	case EnumVal:
		return string(tv)
	case []interface{}:
		out := make([]interface{}, len(tv))
		for i, e := range tv {
			out[i] = ar.wrap(e)
		}
		if ar.car == CarNative {
			return &anyList{out, -1}
		}
		if ar.car == CarListRes {
			return &rlist{out}
		}
		return out
	}
	return v
}

func (ar *AnyRes) Len(list interface{}) int {
	if l, ok := list.(*anyList); ok {
		return len(l.items)
	}
	return 0
}

func (ar *AnyRes) Nth(list interface{}, i int) (interface{}, error) {
	if l, ok := list.(*anyList); ok {
		if i == l.failAt {
			return nil, fmt.Errorf("%w: list accessor at %d", ErrInjected, i)
		}
		return l.items[i], nil
	}
	return nil, fmt.Errorf("not a list: %T", list)
}

// ---------------------------------------------------------------- FS (reflection universe)

// Common carries every field of the universe; A, B, C and Query embed it so that by-name
// binding (Go type name == GraphQL type name) is available for each.
type Common struct {
	Xr *Run  `json:"-"`
	Xn *Node `json:"-"`

	ID   string
	I    int
	S    string
	Name string
	E    string
	Bo   bool
	F    float64

	Kid   *A
	Peer  *B
	Other *C
	Kids  []*A
	VKids []A // struct values
	Peers []*B
	LL    [][]*A

	Named  interface{}
	Nameds []interface{}
	U      interface{}
	Us     []Thing // a slice typed on a Go interface of the application's own (not []interface{}): elements of different concrete types

	Strs []string
	Ints []int

	Title string // GraphQL "title": differs from the Go name by case only
	Dual  string // GraphQL "dual": a field and a method (DUAL) both match; the field must win
}

// Thing is the element type of Common.Us.
type Thing interface{}

// DUAL must never be called: the struct field Dual answers the GraphQL field dual.
func (c *Common) DUAL() string { return "METHOD-MUST-NOT-WIN" }

func (c *Common) Tri(a, b, cc string) (interface{}, error) {
	c.Xr.record(c.Xn, "tri", map[string]interface{}{"a": a, "b": b, "c": cc})
	if err := c.Xr.fault(CallKey{c.Xn.ID, "tri"}); err != nil {
		if c.Xr.Faults[CallKey{c.Xn.ID, "tri"}] == FaultValErr {
			return fmt.Sprintf("%v/%v/%v", a, b, cc), err // the value AND an error
		}
		return nil, err
	}
	return fmt.Sprintf("%v/%v/%v", a, b, cc), nil
}

// TriCAB and TriBCA answer tri when they are registered with RegisterField(type, "tri", "TriCAB", "c", "a", "b") / (..., "TriBCA",
// "b", "c", "a"): the Go parameter orders are the two 3-cycles of the declared order (a swap is its own inverse, a cycle is not).
func (c *Common) TriCAB(cc, a, b string) (interface{}, error) { return c.Tri(a, b, cc) }
func (c *Common) TriBCA(b, cc, a string) (interface{}, error) { return c.Tri(a, b, cc) }

// Pick echoes its arguments (typed loosely so that the coerced request values arrive unchanged).
func (c *Common) Pick(i interface{}, e interface{}, in interface{}, ids interface{}, ss interface{}, fs interface{}, m interface{}) (interface{}, error) {
	c.Xr.record(c.Xn, "pick", map[string]interface{}{"i": i, "e": e, "in": in, "ids": ids, "ss": ss, "fs": fs, "m": m})
	if err := c.Xr.fault(CallKey{c.Xn.ID, "pick"}); err != nil {
		if c.Xr.Faults[CallKey{c.Xn.ID, "pick"}] == FaultValErr {
			return PickResult(i, e, in, ids, ss, fs, m), err // the value AND an error
		}
		return nil, err
	}
	return PickResult(i, e, in, ids, ss, fs, m), nil
}

// PickResult is the value of pick(...) on every back end and in the reference.
func PickResult(i, e, in, ids, ss, fs, m interface{}) string {
	return fmt.Sprintf("%s|%s|%s|%s|%s|%s|%s", CanonText(i), CanonText(e), CanonText(in), CanonText(ids), CanonText(ss), CanonText(fs), CanonText(m))
}

// CanonText prints an argument value independent of its Go carrier (int kinds, Symbol vs string).
func CanonText(v interface{}) string {
	b, err := json.Marshal(Canon(v))
	if err != nil {
		return fmt.Sprintf("%v", v)
	}
	return string(b)
}

// Rev takes its parameters in the opposite order of the GraphQL declaration rev(x, y): correct only
// when registered with RegisterField(type, "rev", "Rev", "y", "x").
// Shade is a named string type: a String argument must be converted to it.
type Shade string

// PaintResult is the value every back end and the reference give for paint(c, t); an argument that was not given prints as "".
func PaintResult(c, t interface{}) string {
	str := func(v interface{}) string {
		if v == nil {
			return ""
		}
		return fmt.Sprint(v)
	}
	return "paint:" + str(c) + "/" + str(t)
}

func (c *Common) Paint(col string, t Shade) (interface{}, error) {
	c.Xr.record(c.Xn, "paint", map[string]interface{}{"c": col, "t": string(t)})
	if err := c.Xr.fault(CallKey{c.Xn.ID, "paint"}); err != nil {
		if c.Xr.Faults[CallKey{c.Xn.ID, "paint"}] == FaultValErr {
			return PaintResult(col, string(t)), err // the value AND an error
		}
		return nil, err
	}
	return PaintResult(col, string(t)), nil
}

func (c *Common) Rev(y, x string) (interface{}, error) {
	c.Xr.record(c.Xn, "rev", map[string]interface{}{"x": x, "y": y})
	return fmt.Sprintf("x=%v,y=%v", x, y), nil
}

type A struct {
	Common
	OnlyA string
	Buddy *A
	Nick  string
}
type B struct {
	Common
	RealName string // the name under BindRegisterFields (Common.Name is a decoy then)
	OnlyB int
	Buddy *B
}
type C struct {
	Common
	OnlyC bool
	Buddy interface{}
	Nick  string
}
type Query struct {
	Common
	A    *A
	B    *B
	C    *C
	As   []*A
	Val  V   // a struct VALUE in a struct field
	Vals []V // and a slice of struct values of a type that is bound as a value
}

// V is bound to the GraphQL type V as a VALUE type (RegisterType(V{}), or its name); its method has a value receiver.
type V struct {
	Xr  *Run  `json:"-"`
	Xn  *Node `json:"-"`
	ID  string
	Vid string
}

func (v V) Vm() (interface{}, error) {
	v.Xr.record(v.Xn, "vm", nil)
	if err := v.Xr.fault(CallKey{v.Xn.ID, "vm"}); err != nil {
		if v.Xr.Faults[CallKey{v.Xn.ID, "vm"}] == FaultValErr {
			return v.Xr.value(v.Xn, "vm", nil), err
		}
		return nil, err
	}
	return v.Xr.value(v.Xn, "vm", nil), nil
}

// Nick answers B.nick: B has no struct field of that name (A and C have), only this method.
func (b *B) Nick() (interface{}, error) { return b.Common.call("nick") }

// NameB answers B.name under BindRegisterFields (RegisterField("B", "name", "NameB")).
func (b *B) NameB() string { return b.RealName }
type Mutation struct {
	Xr *Run
	Xn *Node
	A  *A
	I  int
}
type FSRoot struct {
	Query    *Query
	Mutation *Mutation
}

func (c *Common) Echo(s string, b bool) (interface{}, error) {
	c.Xr.record(c.Xn, "echo", map[string]interface{}{"s": s, "b": b})
	if err := c.Xr.fault(CallKey{c.Xn.ID, "echo"}); err != nil {
		if c.Xr.Faults[CallKey{c.Xn.ID, "echo"}] == FaultValErr {
			return EchoResult(s, b), err // the value AND an error
		}
		return nil, err
	}
	return EchoResult(s, b), nil
}

func (c *Common) call(field string) (interface{}, error) {
	c.Xr.record(c.Xn, field, nil)
	if err := c.Xr.fault(CallKey{c.Xn.ID, field}); err != nil {
		if c.Xr.Faults[CallKey{c.Xn.ID, field}] == FaultValErr {
			return c.Xn.F[field], err // the value AND an error
		}
		return nil, err
	}
	return c.Xr.value(c.Xn, field, nil), nil
}

// The Go names of the method-backed fields differ from the GraphQL names by more than the first letter (mi - MI, mkid - MKid,
// mkids - MKIDS, mnamed - MNamed): reflection finds members case-insensitively, not by capitalising the first letter.
func (c *Common) MI() (interface{}, error)   { return c.call("mi") }
func (c *Common) Meet() (interface{}, error) { return c.call("meet") }
func (c *Common) MKid() (interface{}, error) {
	v, err := c.call("mkid")
	if v == nil {
		return nil, err
	}
	return c.Xr.fsb.rep(v.(*Node)), err
}
func (c *Common) MKIDS() (interface{}, error) {
	v, err := c.call("mkids")
	if v == nil {
		return nil, err
	}
	l := v.([]interface{})
	if c.Xr.Rep != nil {
		return c.Xr.fsb.anys(l), err
	}
	return c.Xr.fsb.as(l), err
}
func (c *Common) MNamed() (interface{}, error) {
	v, err := c.call("mnamed")
	if v == nil {
		return nil, err
	}
	return c.Xr.fsb.rep(v.(*Node)), err
}

func (m *Mutation) Set(s string) (interface{}, error) {
	m.Xr.record(m.Xn, "set", map[string]interface{}{"s": s})
	if err := m.Xr.fault(CallKey{m.Xn.ID, "set"}); err != nil {
		if m.Xr.Faults[CallKey{m.Xn.ID, "set"}] == FaultValErr {
			return fmt.Sprintf("set:%v", s), err // the value AND an error
		}
		return nil, err
	}
	return fmt.Sprintf("set:%v", s), nil
}

type fsBuilder struct {
	decoyB bool // BindRegisterFields: B.Name holds a decoy, B.RealName the name
	r     *Run
	objs  map[*Node]interface{}
	depth int
	pendV []pendingV
}

// pendingV: the struct-value copies of a VKids slice are made when the outermost obj call is done, so that a copy
// never captures a half-built object of a cyclic graph (the slices themselves exist from the start and are shared).
type pendingV struct {
	c     *Common
	nodes []interface{}
}

// rep returns the representation of a node reached through an interface{}-typed slot.
func (b *fsBuilder) rep(n *Node) interface{} {
	if n == nil {
		return nil
	}
	if b.r.Rep != nil {
		return b.r.Rep(n)
	}
	return b.obj(n)
}

func (b *fsBuilder) common(n *Node) *Common {
	switch o := b.obj(n).(type) {
	case *A:
		return &o.Common
	case *B:
		return &o.Common
	case *C:
		return &o.Common
	case *Query:
		return &o.Common
	}
	return nil
}

func (b *fsBuilder) obj(n *Node) interface{} {
	if n == nil {
		return nil
	}
	if o, ok := b.objs[n]; ok {
		return o
	}
	b.depth++
	defer func() {
		if b.depth--; b.depth == 0 {
			for len(b.pendV) > 0 {
				p := b.pendV[0]
				b.pendV = b.pendV[1:]
				for i, e := range p.nodes {
					if a, _ := b.obj(nodeOf(e)).(*A); a != nil {
						p.c.VKids[i] = *a
					}
				}
			}
		}
	}()
	var o interface{}
	var c *Common
	switch n.Type {
	case "A":
		x := &A{}
		o, c = x, &x.Common
		b.objs[n] = o
		x.OnlyA, _ = n.F["onlyA"].(string)
		x.Nick, _ = n.F["nick"].(string)
		x.Buddy, _ = b.obj(nodeOf(n.F["buddy"])).(*A)
	case "B":
		x := &B{}
		o, c = x, &x.Common
		b.objs[n] = o
		x.OnlyB, _ = n.F["onlyB"].(int)
		x.Buddy, _ = b.obj(nodeOf(n.F["buddy"])).(*B)
		x.RealName, _ = n.F["name"].(string)
	case "C":
		x := &C{}
		o, c = x, &x.Common
		b.objs[n] = o
		x.OnlyC, _ = n.F["onlyC"].(bool)
		x.Nick, _ = n.F["nick"].(string)
		x.Buddy = b.rep(nodeOf(n.F["buddy"]))
	case "Query":
		x := &Query{}
		o, c = x, &x.Common
		b.objs[n] = o
		x.A, _ = b.obj(nodeOf(n.F["a"])).(*A)
		x.B, _ = b.obj(nodeOf(n.F["b"])).(*B)
		x.C, _ = b.obj(nodeOf(n.F["c"])).(*C)
		if l, ok := n.F["as"].([]interface{}); ok {
			x.As = b.as(l)
		}
		mkV := func(vn *Node) V {
			vid, _ := vn.F["vid"].(string)
			id, _ := vn.F["id"].(string)
			return V{Xr: b.r, Xn: vn, Vid: vid, ID: id}
		}
		if vn := nodeOf(n.F["val"]); vn != nil {
			x.Val = mkV(vn)
		}
		if l, ok := n.F["vals"].([]interface{}); ok {
			for _, e := range l {
				if vn := nodeOf(e); vn != nil {
					x.Vals = append(x.Vals, mkV(vn))
				}
			}
		}
	case "V":
		vid, _ := n.F["vid"].(string)
		id, _ := n.F["id"].(string)
		x := V{Xr: b.r, Xn: n, Vid: vid, ID: id}
		b.objs[n] = x
		return x
	case "Mutation":
		x := &Mutation{Xr: b.r, Xn: n}
		b.objs[n] = x
		x.A, _ = b.obj(nodeOf(n.F["a"])).(*A)
		x.I, _ = n.F["i"].(int)
		return x
	default:
		panic("fsBuilder: unknown node type " + n.Type)
	}
	b.objs[n] = o
	c.Xr, c.Xn = b.r, n
	if l, ok := n.F["vkids"].([]interface{}); ok {
		c.VKids = make([]A, len(l))
		b.pendV = append(b.pendV, pendingV{c, l})
	}
	c.ID, _ = n.F["id"].(string)
	c.I, _ = n.F["i"].(int)
	c.S, _ = n.F["s"].(string)
	c.Name, _ = n.F["name"].(string)
	if b.decoyB && n.Type == "B" {
		c.Name = "DECOY-the-struct-field-must-not-answer:" + c.Name
	}
	if e, ok := n.F["e"].(EnumVal); ok {
		c.E = string(e)
	}
	c.Title, _ = n.F["title"].(string)
	c.Dual, _ = n.F["dual"].(string)
	c.Bo, _ = n.F["bo"].(bool)
	c.F, _ = n.F["f"].(float64)
	c.Kid, _ = b.obj(nodeOf(n.F["kid"])).(*A)
	c.Peer, _ = b.obj(nodeOf(n.F["peer"])).(*B)
	c.Other, _ = b.obj(nodeOf(n.F["other"])).(*C)
	if l, ok := n.F["kids"].([]interface{}); ok {
		c.Kids = b.as(l)
	}
	if l, ok := n.F["peers"].([]interface{}); ok {
		c.Peers = make([]*B, len(l))
		for i, e := range l {
			c.Peers[i], _ = b.obj(nodeOf(e)).(*B)
		}
	}
	if l, ok := n.F["ll"].([]interface{}); ok {
		c.LL = make([][]*A, len(l))
		for i, e := range l {
			if il, ok := e.([]interface{}); ok {
				c.LL[i] = b.as(il)
			}
		}
	}
	c.Named = b.rep(nodeOf(n.F["named"]))
	c.U = b.rep(nodeOf(n.F["u"]))
	if l, ok := n.F["nameds"].([]interface{}); ok {
		c.Nameds = b.anys(l)
	}
	if l, ok := n.F["us"].([]interface{}); ok {
		c.Us = make([]Thing, len(l))
		for i, e := range b.anys(l) {
			c.Us[i] = e
		}
	}
	if l, ok := n.F["strs"].([]interface{}); ok {
		c.Strs = make([]string, len(l))
		for i, e := range l {
			c.Strs[i], _ = e.(string)
		}
	}
	if l, ok := n.F["ints"].([]interface{}); ok {
		c.Ints = make([]int, len(l))
		for i, e := range l {
			c.Ints[i], _ = e.(int)
		}
	}
	return o
}

func nodeOf(v interface{}) *Node {
	n, _ := v.(*Node)
	return n
}

func (b *fsBuilder) as(l []interface{}) []*A {
	out := make([]*A, len(l))
	for i, e := range l {
		out[i], _ = b.obj(nodeOf(e)).(*A)
	}
	return out
}

func (b *fsBuilder) anys(l []interface{}) []interface{} {
	out := make([]interface{}, len(l))
	for i, e := range l {
		if n := nodeOf(e); n != nil {
			out[i] = b.rep(n)
		}
	}
	return out
}

// ---------------------------------------------------------------- building a root

// Config is everything that decides how a world is served.
type Config struct {
	Strat   Strategy
	Car     Carrier
	Bind    Binding
	Schema  *Schema
	SDLText string // if non-empty, used instead of Schema.SDL()
}

// BuildRoot creates a fresh (cold) ggql root serving graph g under cfg, and the run state.
func BuildRoot(cfg Config, g *Graph) (*ggql.Root, *Run, error) {
	r := NewRun(g)
	var root *ggql.Root
	switch cfg.Strat {
	case RS:
		root = ggql.NewRoot(&rroot{r, cfg.Car})
	case AS:
		root = ggql.NewRoot(&anyRootObj{})
		root.AnyResolver = &AnyRes{r, cfg.Car}
	case FS:
		b := &fsBuilder{r: r, objs: map[*Node]interface{}{}, decoyB: cfg.Bind == BindRegisterFields}
		r.fsb = b
		fr := &FSRoot{}
		fr.Query, _ = b.obj(g.Root).(*Query)
		if g.Mut != nil {
			fr.Mutation, _ = b.obj(g.Mut).(*Mutation)
		}
		root = ggql.NewRoot(fr)
	}
	sdl := cfg.SDLText
	if sdl == "" {
		sdl = cfg.Schema.SDL()
	}
	if err := root.ParseString(sdl); err != nil {
		return nil, nil, err
	}
	if cfg.Strat == FS && (cfg.Bind == BindRegister || cfg.Bind == BindRegisterFields) {
		for _, reg := range []struct {
			sample interface{}
			name   string
		}{{&A{}, "A"}, {&B{}, "B"}, {&C{}, "C"}, {&Query{}, "Query"}, {&Mutation{}, "Mutation"}, {V{}, "V"}} {
			if cfg.Schema == nil || cfg.Schema.Type(reg.name) != nil {
				if err := root.RegisterType(reg.sample, reg.name); err != nil {
					return nil, nil, err
				}
			}
		}
		if cfg.Bind == BindRegisterFields && (cfg.Schema == nil || cfg.Schema.Type("B") != nil) {
			if err := root.RegisterField("B", "name", "NameB"); err != nil {
				return nil, nil, err
			}
		}
	}
	return root, r, nil
}
