package world

// BaseDocs are the hand-written base documents; the checks explore every document within k
// mutations of each (DESIGN 2.2, Appendix A).
func BaseDocs() []*Doc {
	echo := func(s string, b bool) *Sel { return F("echo").WithArgs(Arg{"s", s}, Arg{"b", b}) }
	return []*Doc{
		// B0 minimal
		Q(F("i")),
		// B1 nested objects
		Q(F("a", F("id"), F("kid", F("id"), F("i"), F("kid", F("s"))), F("peer", F("id"))), F("i"), F("s")),
		// B2 aliases + a named fragment shared by two operations
		{Ops: []*Op{
			{Type: "query", Name: "Q1", Sels: []*Sel{F("a", Sp("FA"), Al("x", F("id"))), F("b", F("id"))}},
			{Type: "query", Name: "Q2", Sels: []*Sel{F("kid", Sp("FA")), Al("y", F("i"))}},
		}, Frags: []*Frag{{Name: "FA", Cond: "A", Sels: []*Sel{F("id"), F("kid", F("id"))}}}},
		// B3 lists, lists of lists, scalar lists
		Q(F("as", F("id"), F("kids", F("id")), F("peers", F("id"))), F("kids", F("id"), F("kid", F("kids", F("id")))),
			F("ll", F("id"), F("kid", F("id"))), F("strs"), F("ints")),
		// B4 abstract-typed fields
		Q(F("named", F("name"), F("i")), F("nameds", F("name"), F("kid", F("id"))),
			F("us", In("A", F("id")), In("B", F("s"))), F("u", In("A", F("id")))),
		// B5 methods
		Q(echo("x", true), F("mi"), F("mkid", F("id"), F("mi")), F("mkids", F("id")), F("a", echo("y", false), F("mkid", F("id")))),
		// B6 a query and a mutation
		{Ops: []*Op{
			{Type: "query", Name: "Q", Sels: []*Sel{F("i")}},
			{Type: "mutation", Name: "M", Sels: []*Sel{F("set").WithArgs(Arg{"s", "v"}), F("a", F("id")), F("i")}},
		}},
		// B7 variables in arguments and directives
		{Ops: []*Op{{Type: "query", Name: "V",
			Vars: []VarDef{{Name: "s", Type: "String", HasDefault: true, Default: "d"}, {Name: "b", Type: "Boolean", HasDefault: true, Default: true}, {Name: "t", Type: "Boolean", HasDefault: true, Default: false}},
			Sels: []*Sel{F("echo").WithArgs(Arg{"s", VarRef("s")}, Arg{"b", VarRef("b")}),
				F("a", F("id")).With(Dir{"include", VarRef("b")}), F("s").With(Dir{"skip", VarRef("t")})}}}},
		// B8 duplicate response keys with sub-selections, nested fragments
		Q(F("a", F("id")), F("a", F("s"), In("A", F("kid", F("id")))), In("", F("a", F("kid", F("s"))))),
		// B9 interface-typed fields only (no unions): in-claim for every strategy
		Q(F("named", F("name"), F("i"), F("kid", F("id"))), F("nameds", F("name")), F("a", F("named", F("name")), F("mnamed", F("i")))),
		// B10 per-type fields and covariant field types behind an interface-typed list (abstract dispatch: reflection only)
		Q(F("nameds", F("name"), F("buddy", F("__typename"), F("name"), In("A", F("onlyA")), In("B", F("onlyB")))), F("as", F("onlyA"), F("buddy", F("onlyA"), F("buddy", F("id")))), F("b", F("onlyB"), F("buddy", F("onlyB")))),
		// B11 lists below merged objects and merged lists: every occurrence contributes its sub-selections to every element
		{Ops: []*Op{{Type: "query", Anon: true, Sels: []*Sel{F("a", F("kids", F("id"))), F("a", F("kids", F("s"), F("kid", F("id")))), In("", F("a", F("kids", F("i")))),
			F("as", F("kids", F("id"))), F("as", F("kids", F("s")), F("id")), Sp("FQ")}}},
			Frags: []*Frag{{Name: "FQ", Cond: "Query", Sels: []*Sel{F("a", F("kids", F("name")), F("peers", F("id"))), F("as", F("i"))}}}},
		// B13 a struct value in a struct field and a slice of struct values, of a type bound as a value (methods with value receivers)
		Q(F("val", F("vid"), F("vm")), F("vals", F("vid"), F("vm")), F("as", F("id"))),
		// B12 enum and string arguments that a reflected method takes as Go string / named string parameters
		Q(F("paint").WithArgs(Arg{"c", EnumLit("RED")}, Arg{"t", "matt"}), F("a", Al("p", F("paint").WithArgs(Arg{"c", EnumLit("BLUE")})), Al("q", F("paint").WithArgs(Arg{"t", "gloss"})))),
		// B14 method-backed fields (the ones a fault plan can fail under every strategy) on the elements of typed lists, two levels
		Q(F("kids", F("id"), F("mi")), F("as", F("mi"), F("kids", F("mi"), F("mkid", F("id"))))),
		// B15 an interface field its implementers serve with different kinds of Go members (nick: a struct field on A and C, a
		// method on B), selected on the interface itself, on lists that mix the implementers, and on the objects
		Q(F("nameds", F("nick"), F("name")), F("named", F("nick")), F("a", F("nick"), F("named", F("nick"))), F("b", F("nick"), F("named", F("nick")), F("buddy", F("nick"))), F("c", F("nick"), F("buddy", F("nick")))),
		// B16 fields AFTER fragments in one selection set: the fragments are on other abstract types than the container (an
		// interface under an object, the union under the interface), the fields that follow are ones those types do not declare
		{Ops: []*Op{{Type: "query", Anon: true, Sels: []*Sel{
			F("a", In("Named", F("name")), F("id"), Sp("FN"), F("s"), In("AB", F("__typename")), F("onlyA")),
			F("nameds", In("AB", F("__typename")), F("name"), In("A", F("id")), F("nick")),
			F("b", In("Named", F("nick")), F("onlyB"), F("peers", Sp("FN"), F("id"))),
			F("us", In("Named", F("name")), In("B", F("s"))),
		}}}, Frags: []*Frag{{Name: "FN", Cond: "Named", Sels: []*Sel{F("i")}}}},
	}
}

// OpNames returns the operation-name choices for a document: "", every defined name, an undefined one.
func OpNames(d *Doc) []string {
	out := []string{""}
	for _, o := range d.Ops {
		if o.Name != "" {
			out = append(out, o.Name)
		}
	}
	return append(out, "Nope")
}

// VarMaps returns the variable-map choices for a document.
func VarMaps(d *Doc) []map[string]interface{} {
	has := false
	for _, o := range d.Ops {
		if len(o.Vars) > 0 {
			has = true
		}
	}
	if !has {
		return []map[string]interface{}{nil}
	}
	return []map[string]interface{}{nil, {"s": "w"}, {"b": false}, {"t": true, "s": "w2"}}
}
