package props

import (
	"fmt"
	"sort"
	"strings"
	"time"

	"github.com/uhn/ggql/pkg/ggql"

	"verif/mc/core"
	"verif/mc/world"
)

// C19 — subscription events reach exactly the live, matching subscribers (DESIGN 5.19).
// Explicit-state search of the registry machine: every reachable registry state (bounded number of live
// subscriptions), every operation from every state, real API calls on a fresh root per transition.

func init() {
	Register(&Check{
		ID:  "C19",
		Run: runC19,
		Rule: "operations: subscribe(selection in {name}, {n}, {name n}, {name n @include(if:$v)} x id in {x, y, wildcard} x subscriber kind in {healthy, fails on 1st delivery, fails on 2nd, fails always}), " +
			"publish(id in {x,y,z}, event in {e1,e2}), unsubscribe(id in {x,y,wildcard}); breadth-first search over ALL registry states with <= N live subscriptions (canonical state = the reference's ordered list of (selection,id,kind,deliveries)), " +
			"every operation from every state (successor = replay of the shortest path on a fresh root + the operation); plus all unmerged histories up to a length as a check on the merge, each ended by a wildcard probe publish. " +
			"Oracle: refregistry (ordered list) + expected message per selection: who receives what in which order, returned counts, removal and exactly-once clean-up of failing subscribers, nothing after unsubscribe. " +
			"distinct = (state, operation) transitions and histories; non-trivial = the operation delivers to or removes at least one subscriber",
		Technique:      "explicit-state breadth-first search over the real registry API with a reference model compared on every transition; unmerged history enumeration as cross-check",
		Assumptions:    []string{"matching is defined by the harness subscriber (exact id or wildcard)", "one root field per subscription operation so registration order is deterministic"},
		QuickBudget:    100 * time.Second,
		ThoroughBudget: 25 * time.Minute,
	})
}

// ---- alphabet

type c19Sub struct {
	Sel  int // index into c19Sels
	ID   string
	Kind int // 0 healthy, 1 fails on 1st, 2 fails on 2nd, 3 fails always
}

var c19Sels = []struct {
	text string
	keys []string
	vars bool
	v    interface{} // value given for $v with the subscription request (nil = not given: the default, true, decides)
	// decl / given / want: variables of the sel's own (declaration text, values given with the request) and what the computed
	// field pick then answers - the variables are used INSIDE a list and an object literal only
	decl  string
	given map[string]interface{}
	want  map[string]interface{}
}{
	{"{name}", []string{"name"}, false, nil, "", nil, nil},
	{"{n}", []string{"n"}, false, nil, "", nil, nil},
	{"{name n}", []string{"name", "n"}, false, nil, "", nil, nil},
	{"{name n @include(if: $v)}", []string{"name", "n"}, true, nil, "", nil, nil},
	// the same request text with the variable given as false: this subscriber's own selection leaves n out
	{"{name n @include(if: $v)}", []string{"name"}, true, false, "", nil, nil},
	// variables that appear only nested in literals (a member of a list, a field of an input object): one left to its
	// default, one given with the request
	{"{name pick(only: [$t, \"x\"], w: {size: $z})}", []string{"name", "pick"}, true, nil, "$t: String = \"dt\", $z: Int = 3", map[string]interface{}{"t": "gt"}, map[string]interface{}{"pick": "[gt x]|map[size:3]"}},
}

type c19Op struct {
	Kind  string // subscribe | publish | unsubscribe
	Sub   c19Sub
	ID    string
	Event int
}

func (o c19Op) String() string {
	switch o.Kind {
	case "subscribe":
		return fmt.Sprintf("subscribe(sel=%s,id=%q,kind=%d)", c19Sels[o.Sub.Sel].text, o.Sub.ID, o.Sub.Kind)
	case "publish":
		return fmt.Sprintf("publish(id=%q,e%d)", o.ID, o.Event+1)
	}
	return fmt.Sprintf("unsubscribe(%q)", o.ID)
}

// the third event cannot tell its n: the field resolver reports an error (null in the message, an error back from the publish) -
// a delivered message all the same, and no reason to drop anybody
var c19Events = []map[string]interface{}{{"name": "first", "n": 1}, {"name": "second", "n": 2}, {"name": "third", "n": fmt.Errorf("n is not known")}}

// ---- reference registry

type refSub struct {
	c19Sub
	Deliveries int
	Label      int // registration number, for logs
}

type refReg struct {
	subs []refSub
	next int
}

func (r *refReg) clone() *refReg {
	return &refReg{subs: append([]refSub{}, r.subs...), next: r.next}
}

func refMatch(s refSub, id string) bool { return s.ID == "" || s.ID == id }

func (s refSub) failsNow() bool {
	switch s.Kind {
	case 1:
		return s.Deliveries == 1
	case 2:
		return s.Deliveries == 2
	case 3:
		return true
	}
	return false
}

// key is the canonical state: ordered list of (selection, id, kind, deliveries that still matter).
func (r *refReg) key() string {
	parts := make([]string, len(r.subs))
	for i, s := range r.subs {
		d := 0
		if s.Kind == 2 && s.Deliveries >= 1 {
			d = 1
		}
		parts[i] = fmt.Sprintf("%d/%s/%d/%d", s.Sel, s.ID, s.Kind, d)
	}
	return strings.Join(parts, ";")
}

// expected effects of an operation: the ordered log lines and the returned count.
func (r *refReg) apply(o c19Op) (log []string, cnt int, wantErr bool) {
	switch o.Kind {
	case "subscribe":
		r.next++
		r.subs = append(r.subs, refSub{c19Sub: o.Sub, Label: r.next})
	case "publish":
		var failed []int
		for i := range r.subs {
			s := &r.subs[i]
			if !refMatch(*s, o.ID) {
				continue
			}
			cnt++
			s.Deliveries++
			msg := map[string]interface{}{}
			for _, k := range c19Sels[s.Sel].keys {
				if w, computed := c19Sels[s.Sel].want[k]; computed {
					msg[k] = w
					continue
				}
				if _, bad := c19Events[o.Event][k].(error); bad {
					msg[k] = nil
					wantErr = true
					continue
				}
				msg[k] = world.Canon(c19Events[o.Event][k])
			}
			log = append(log, fmt.Sprintf("send:%d:%s", s.Label, toJSON(msg)))
			if s.failsNow() {
				failed = append(failed, i)
				wantErr = true
			}
		}
		// clean-up of failed subscribers happens after all deliveries, in failure order
		var keep []refSub
		for i, s := range r.subs {
			isFailed := false
			for _, f := range failed {
				if f == i {
					isFailed = true
				}
			}
			if !isFailed {
				keep = append(keep, s)
			}
		}
		for _, f := range failed {
			log = append(log, fmt.Sprintf("cleanup:%d", r.subs[f].Label))
		}
		r.subs = keep
	case "unsubscribe":
		var keep []refSub
		var removed []string
		for i := len(r.subs) - 1; i >= 0; i-- { // clean-up order is not stated: compared as a set
			if refMatch(r.subs[i], o.ID) {
				cnt++
				removed = append(removed, fmt.Sprintf("cleanup:%d", r.subs[i].Label))
			}
		}
		for _, s := range r.subs {
			if !refMatch(s, o.ID) {
				keep = append(keep, s)
			}
		}
		sort.Strings(removed)
		log = removed
		r.subs = keep
	}
	return
}

// ---- harness objects over the real API

type c19H struct {
	root     *ggql.Root
	log      []string
	nextKind int
	nextID   string
	labels   int
	reflectE bool
	prepared bool
	exes     map[string]*ggql.Executable
}

type c19Subscriber struct {
	h          *c19H
	id         string
	kind       int
	label      int
	deliveries int
}

func (s *c19Subscriber) Send(v interface{}) error {
	s.deliveries++
	s.h.log = append(s.h.log, fmt.Sprintf("send:%d:%s", s.label, toJSON(world.Canon(v))))
	fails := s.kind == 3 || (s.kind == 1 && s.deliveries == 1) || (s.kind == 2 && s.deliveries == 2)
	if fails {
		// a plain error, a group, a wrapped group - in turn: a failed delivery is a failed delivery
		switch s.label % 3 {
		case 1:
			return ggql.Errors{fmt.Errorf("subscriber %d fails", s.label), fmt.Errorf("and again")}
		case 2:
			return fmt.Errorf("while sending: %w", ggql.Errors{fmt.Errorf("subscriber %d fails", s.label)})
		}
		return fmt.Errorf("subscriber %d fails", s.label)
	}
	return nil
}
func (s *c19Subscriber) Match(id string) bool { return s.id == "" || s.id == id }
func (s *c19Subscriber) Unsubscribe() {
	s.h.log = append(s.h.log, fmt.Sprintf("cleanup:%d", s.label))
}

type c19RootRes struct{ h *c19H }
type c19SubRes struct{ h *c19H }
type c19EvRes struct{ e map[string]interface{} }
type C19Ev struct {
	Name string
	Num  int
	Bad  bool
}

// N backs the field n: a method, so that an event can fail to tell it.
func (e *C19Ev) N() (interface{}, error) {
	if e.Bad {
		return nil, fmt.Errorf("n is not known")
	}
	return e.Num, nil
}

func c19ReflectEvent(i int) *C19Ev {
	n, ok := c19Events[i]["n"].(int)
	return &C19Ev{Name: c19Events[i]["name"].(string), Num: n, Bad: !ok}
}

func (r *c19RootRes) Resolve(field *ggql.Field, args map[string]interface{}) (interface{}, error) {
	if field.Name == "subscription" {
		return &c19SubRes{r.h}, nil
	}
	return r, nil
}
func (r *c19SubRes) Resolve(field *ggql.Field, args map[string]interface{}) (interface{}, error) {
	id, _ := args["id"].(string)
	// the label is the number of the subscription request (set by do), not of this call: how often the resolver of a root field
	// that is written twice is asked is not part of the statement - what is registered and what it then receives is
	sub := &c19Subscriber{h: r.h, id: id, kind: r.h.nextKind, label: r.h.labels}
	return ggql.NewSubscription(sub, field, args), nil
}
func (e *c19EvRes) Resolve(field *ggql.Field, args map[string]interface{}) (interface{}, error) {
	if field.Name == "pick" {
		return fmt.Sprintf("%v|%v", args["only"], args["w"]), nil
	}
	if err, bad := e.e[field.Name].(error); bad {
		return nil, err
	}
	return e.e[field.Name], nil
}

// (count and evs are used by C20 / the list part of C19: a scalar-typed and a list-typed subscription field)
const c19SDL = "type Query { i: Int }\ntype Subscription { ev(id: String): Ev count(id: String): Int evs(id: String): [Ev] }\ntype Ev { name: String n: Int pick(only: [String], w: W): String }\ninput W { size: Int = 1 }\n"

func newC19H(reflectEvents bool) *c19H {
	h := &c19H{reflectE: reflectEvents, exes: map[string]*ggql.Executable{}}
	h.root = ggql.NewRoot(&c19RootRes{h})
	if err := h.root.ParseString(c19SDL); err != nil {
		panic(core.EngineError{Msg: "C19 schema refused: " + err.Error()})
	}
	return h
}

// do performs one operation on the real root and returns the log lines it produced, the returned count and whether an error came back.
func (h *c19H) do(o c19Op) (log []string, cnt int, gotErr bool, pi *core.PanicInfo) {
	start := len(h.log)
	core.Announce("C19 " + o.String())
	pi = core.Safe(func() {
		switch o.Kind {
		case "subscribe":
			h.nextKind = o.Sub.Kind
			sel := c19Sels[o.Sub.Sel]
			arg := ""
			if o.Sub.ID != "" {
				arg = fmt.Sprintf("(id: %q)", o.Sub.ID)
			}
			// the root field is written plainly, inside an inline fragment on the subscription type, inside a conditional inline
			// fragment, or in a named fragment that is spread, twice, or plainly and through a fragment - in turn, by the number of subscribe requests this root
			// has seen and by what is subscribed to (so that short histories meet every shape)
			body, frag := "ev"+arg+" "+sel.text, ""
			switch (h.labels + 2*o.Sub.Sel + len(o.Sub.ID) + o.Sub.Kind) % 6 {
			case 1:
				body = "... on Subscription { " + body + " }"
			case 2:
				body = "... @skip(if: false) { " + body + " }"
			case 3:
				frag = " fragment FS on Subscription { " + body + " }"
				body = "...FS"
			case 4:
				// the same root field written twice: one response key, one subscription
				body = body + " " + body
			case 5:
				// ... and once plainly, once through a fragment
				frag = " fragment FS on Subscription { " + body + " }"
				body = body + " ...FS"
			}
			h.labels++
			q := "subscription { " + body + " }" + frag
			if sel.vars {
				decl := "$v: Boolean = true"
				if sel.decl != "" {
					decl = sel.decl
				}
				q = "subscription S(" + decl + ") { " + body + " }" + frag
			}
			var res map[string]interface{}
			var svars map[string]interface{}
			if sel.v != nil {
				svars = map[string]interface{}{"v": sel.v}
			}
			if sel.given != nil {
				svars = deepCopyVars(sel.given)
			}
			if h.prepared {
				// one parsed executable per request text, shared by every subscriber that sends that request
				exe := h.exes[q]
				if exe == nil {
					var perr error
					if exe, perr = h.root.ParseExecutableString(q); perr != nil {
						panic(core.EngineError{Msg: "C19 request refused: " + perr.Error()})
					}
					h.exes[q] = exe
				}
				var rerr error
				if res, rerr = h.root.ResolveExecutable(exe, "", svars); res == nil {
					res = map[string]interface{}{}
				}
				if rerr != nil {
					res["errors"] = ggql.FormErrorsResult(rerr)
				}
			} else {
				res = h.root.ResolveString(q, "", svars)
			}
			if res["errors"] != nil {
				gotErr = true
				h.log = append(h.log, fmt.Sprintf("subscribe-error:%v", res["errors"]))
			}
		case "publish":
			var ev interface{} = &c19EvRes{c19Events[o.Event]}
			if h.reflectE {
				ev = c19ReflectEvent(o.Event)
			}
			var err error
			cnt, err = h.root.AddEvent(o.ID, ev)
			gotErr = err != nil
		case "unsubscribe":
			cnt = h.root.Unsubscribe(o.ID)
		}
	})
	log = append([]string{}, h.log[start:]...)
	return
}

func c19Ops(sels, ids, kinds []int) []c19Op {
	idNames := []string{"x", "y", ""}
	var ops []c19Op
	for _, s := range sels {
		for _, i := range ids {
			for _, k := range kinds {
				ops = append(ops, c19Op{Kind: "subscribe", Sub: c19Sub{Sel: s, ID: idNames[i], Kind: k}})
			}
		}
	}
	for _, id := range []string{"x", "y", "z"} {
		for e := 0; e < len(c19Events); e++ {
			if e == 2 && id != "x" {
				continue // the event with a failing field is published on x only
			}
			ops = append(ops, c19Op{Kind: "publish", ID: id, Event: e})
		}
	}
	for _, id := range []string{"x", "y", ""} {
		ops = append(ops, c19Op{Kind: "unsubscribe", ID: id})
	}
	return ops
}

// c19Step replays path on a fresh root (checking nothing), then applies op and compares with the model.
func c19Step(c *core.Ctx, path []c19Op, op c19Op, reflectEvents bool, checkAll bool, prepared bool) (*refReg, bool) {
	h := newC19H(reflectEvents)
	h.prepared = prepared
	model := &refReg{}
	steps := append(append([]c19Op{}, path...), op)
	for si, o := range steps {
		c.Eval()
		wantLog, wantCnt, wantErr := model.apply(o)
		log, cnt, gotErr, pi := h.do(o)
		if si < len(path) && !checkAll {
			continue
		}
		detail := func(msg string) map[string]interface{} {
			hs := make([]string, len(steps[:si+1]))
			for i, x := range steps[:si+1] {
				hs[i] = x.String()
			}
			return map[string]interface{}{"history": hs, "events_carrier": map[bool]string{false: "Resolver", true: "reflection struct"}[reflectEvents], "subscription_requests": map[bool]string{false: "parsed afresh", true: "one parsed executable per request text"}[prepared], "diff": msg, "expected_log": wantLog, "observed_log": log, "expected_count": wantCnt, "observed_count": cnt}
		}
		attrs := map[string]string{"op": o.Kind}
		if prepared {
			attrs["requests"] = "prepared"
		}
		if o.Kind == "subscribe" || len(model.subs) > 0 {
			usesVars := false
			for _, s := range model.subs {
				if c19Sels[s.Sel].vars {
					usesVars = true
				}
			}
			attrs["selection_uses_variable"] = fmt.Sprint(usesVars)
		}
		if pi != nil {
			c.Outcome("panic")
			c.Violation("panic", map[string]string{"site": pi.Site, "class": pi.Class, "op": o.Kind}, detail(pi.Value))
			return nil, false
		}
		if o.Kind == "unsubscribe" {
			sort.Strings(log)
		}
		if strings.Join(log, "\n") != strings.Join(wantLog, "\n") {
			c.Outcome("delivery-diff")
			attrs["what"] = "deliveries-or-cleanups"
			c.Violation("registry-diff", attrs, detail("deliveries / clean-ups differ from the reference registry"))
			return nil, false
		}
		if o.Kind != "subscribe" && cnt != wantCnt {
			c.Outcome("count-diff")
			attrs["what"] = "returned-count"
			c.Violation("registry-diff", attrs, detail("returned count differs"))
			return nil, false
		}
		if o.Kind == "publish" && gotErr != wantErr {
			c.Outcome("error-diff")
			attrs["what"] = "error-presence"
			c.Violation("registry-diff", attrs, detail(fmt.Sprintf("error returned: %v, expected: %v", gotErr, wantErr)))
			return nil, false
		}
		if o.Kind == "subscribe" && gotErr {
			attrs["what"] = "subscribe-refused"
			c.Violation("registry-diff", attrs, detail("a subscription request was refused"))
			return nil, false
		}
	}
	// probe: a wildcard-matching publish on a clone of the model shows the live list and its order
	probe := c19Op{Kind: "publish", ID: "x", Event: 0}
	pm := model.clone()
	wantLog, _, _ := pm.apply(probe)
	log, _, _, pi := h.do(probe)
	if pi == nil && strings.Join(log, "\n") != strings.Join(wantLog, "\n") {
		// only a cross-check of the canonical state (ids x and wildcard are visible to it)
		hs := make([]string, len(steps))
		for i, x := range steps {
			hs[i] = x.String()
		}
		c.Outcome("probe-diff")
		c.Violation("registry-diff", map[string]string{"op": "probe", "what": "live-list"}, map[string]interface{}{"history": hs, "expected_log": wantLog, "observed_log": log, "diff": "probe publish after the history sees a different live list"})
		return nil, false
	}
	return model, true
}

func runC19(c *core.Ctx) {
	type cfg struct {
		name              string
		maxLive           int
		sels, ids, kinds  []int
		reflect           bool
		prepared          bool
	}
	cfgs := []cfg{
		{"full alphabet, <= 2 live", 2, []int{0, 1, 2, 3, 4, 5}, []int{0, 1, 2}, []int{0, 1, 2, 3}, false, false},
		{"reduced alphabet, <= 3 live, reflection events", 3, []int{0, 2}, []int{0, 2}, []int{0, 1, 2}, true, false},
		{"reduced alphabet, <= 3 live, prepared requests", 3, []int{0, 3, 4, 5}, []int{0, 2}, []int{0, 1, 2}, false, true},
	}
	if c.Thorough() {
		cfgs = []cfg{
			{"full alphabet, <= 3 live", 3, []int{0, 1, 2, 3, 4, 5}, []int{0, 1, 2}, []int{0, 1, 2, 3}, false, false},
			{"reduced alphabet, <= 4 live, reflection events", 4, []int{0, 2}, []int{0, 2}, []int{0, 1, 2}, true, false},
			{"reduced alphabet, <= 4 live, prepared requests", 4, []int{0, 3, 4, 5}, []int{0, 2}, []int{0, 1, 2}, false, true},
		}
	}
	completed := true
	for ci, cf := range cfgs {
		ops := c19Ops(cf.sels, cf.ids, cf.kinds)
		// BFS over canonical states; every worker explores the same graph but executes only its share of the transitions
		type node struct {
			path []c19Op
			reg  *refReg
		}
		seen := map[string]bool{"": true}
		frontier := []node{{nil, &refReg{}}}
		states, trans := 1, 0
		for len(frontier) > 0 && completed {
			var next []node
			for _, nd := range frontier {
				for _, op := range ops {
					if c.Expired() {
						completed = false
						break
					}
					m := nd.reg.clone()
					wantLog, _, _ := m.apply(op)
					if len(m.subs) > cf.maxLive {
						continue
					}
					trans++
					k := m.key()
					key := fmt.Sprintf("%d|%s|%s", ci, nd.reg.key(), op)
					if c.Owns(key) {
						if len(wantLog) > 0 {
							c.Nontrivial()
						}
						if _, ok := c19Step(c, nd.path, op, cf.reflect, false, cf.prepared); ok {
							c.Outcome("transition-ok")
						}
						c.Sample(func() interface{} { return map[string]interface{}{"state": nd.reg.key(), "op": op.String(), "config": cf.name} })
					}
					if !seen[k] {
						seen[k] = true
						states++
						next = append(next, node{append(append([]c19Op{}, nd.path...), op), m})
					}
				}
			}
			frontier = next
		}
		c.CountN(fmt.Sprintf("states_cfg%d", ci), 0)
		if c.Shard == 0 {
			c.CountN(fmt.Sprintf("bfs_states_%d", ci), int64(states))
			c.CountN(fmt.Sprintf("bfs_transitions_%d", ci), int64(trans))
		}
	}
	// unmerged histories as a check on the merge (every step compared)
	histLen := 4
	if c.Thorough() {
		histLen = 5
	}
	hops := c19Ops([]int{0, 3, 4}, []int{0, 2}, []int{0, 1, 2})
	var seq []c19Op
	var idx int64
	var rec func()
	rec = func() {
		if !completed {
			return
		}
		if len(seq) == histLen {
			idx++
			if c.OwnsIdx(idx) {
				if c.Expired() {
					completed = false
					return
				}
				c.Nontrivial()
				if _, ok := c19Step(c, seq[:len(seq)-1], seq[len(seq)-1], idx%2 == 0, true, idx%4 >= 2); ok {
					c.Outcome("history-ok")
				}
			}
			return
		}
		for _, o := range hops {
			seq = append(seq, o)
			rec()
			seq = seq[:len(seq)-1]
		}
	}
	rec()
	// ---- list-typed subscription fields: the event is a list, the subscriber's selection applies to every element
	{
		var lidx int64
		for _, sel := range []struct{ text, want string }{
			{"{name}", `[{"name":"one"},{"name":"two"}]`}, {"{n}", `[{"n":1},{"n":2}]`}, {"{name n}", `[{"n":1,"name":"one"},{"n":2,"name":"two"}]`}, {"{n @skip(if: true) name}", `[{"name":"one"},{"name":"two"}]`},
		} {
			for _, reflectE := range []bool{false, true} {
				for _, prepared := range []bool{false, true} {
					lidx++
					if !c.OwnsIdx(1<<46 + lidx) {
						continue
					}
					c.Eval()
					c.R.Distinct++
					c.Nontrivial()
					h := newC19H(reflectE)
					q := `subscription { evs(id: "x") ` + sel.text + ` }`
					var cnt int
					var perr error
					var res map[string]interface{}
					pi := core.Safe(func() {
						if prepared {
							exe, err := h.root.ParseExecutableString(q)
							if err != nil {
								panic(core.EngineError{Msg: "C19 list subscription refused: " + err.Error()})
							}
							res, _ = h.root.ResolveExecutable(exe, "", nil)
						} else {
							res = h.root.ResolveString(q, "", nil)
						}
						var ev interface{} = []interface{}{&c19EvRes{map[string]interface{}{"name": "one", "n": 1}}, &c19EvRes{map[string]interface{}{"name": "two", "n": 2}}}
						if reflectE {
							ev = []*C19Ev{{Name: "one", Num: 1}, {Name: "two", Num: 2}}
						}
						cnt, perr = h.root.AddEvent("x", ev)
					})
					detail := map[string]interface{}{"request": q, "subscribe_response": res, "log": h.log, "want_payload": sel.want}
					got := ""
					for _, l := range h.log {
						if strings.HasPrefix(l, "send:") {
							got = l
						}
					}
					switch {
					case pi != nil:
						c.Violation("panic", map[string]string{"site": pi.Site, "class": pi.Class}, detail)
					case cnt != 1 || perr != nil || !strings.Contains(got, sel.want):
						detail["diff"] = fmt.Sprintf("publish matched %d, error %v, delivered %q", cnt, perr, got)
						c.Outcome("list-event-diff")
						c.Violation("registry-diff", map[string]string{"op": "publish", "what": "list-event-payload", "selection_uses_variable": "false"}, detail)
					default:
						c.Outcome("list-event-agree")
					}
				}
			}
		}
	}
	c.R.Bound = fmt.Sprintf("BFS: %v; unmerged histories of length %d over a reduced alphabet", func() []string {
		var n []string
		for _, cf := range cfgs {
			n = append(n, cf.name)
		}
		return n
	}(), histLen)
	if !completed {
		c.Cap("deadline reached")
	}
}
