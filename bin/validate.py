#!/usr/bin/env python3-vt
import json,jsonschema,glob,sys
ok=True
try:
    jsonschema.validate(json.load(open('/verif/MANIFEST.json')),json.load(open('/root/.vp/MANIFEST.schema.json')))
except Exception as e:
    ok=False; print("MANIFEST invalid:",e)
es=json.load(open('/root/.vp/EVIDENCE.schema.json'))
for f in sorted(glob.glob('/verif/evidence/*.json')):
    try: jsonschema.validate(json.load(open(f)),es)
    except Exception as e:
        ok=False; print(f,"invalid:",str(e)[:300])
print("schemas ok" if ok else "SCHEMA ERRORS")
sys.exit(0 if ok else 1)
