package props

import (
	"github.com/uhn/ggql/pkg/ggql"

	"fmt"
	"sort"
	"strings"
	"time"

	"verif/mc/core"
	"verif/mc/world"
)

// C08 — abstract-typed fields are resolved by each object's concrete type (DESIGN 5.8).

func init() {
	Register(&Check{
		ID:  "C08",
		Run: runC08,
		Rule: "every membership pattern of interface Named and union AB over objects A,B,C (7 x 7 schema variants, data re-typed per variant with mixed concrete lists and null elements) " +
			"x documents within k mutations (menu incl. abstract-dispatch selections) of 7 abstract base documents (__typename, inline and named fragments conditioned on objects / the interface / the union, " +
			"under abstract and object containers, nested) x binding {RegisterType, @go short / pkg.Name / full path, by name on a cold root} for the reflection strategy; " +
			"oracle = reference executor with the standard applicability relation. distinct = (variant, document); non-trivial = some fragment applies and some does not, or __typename under an abstract container",
		Technique:      "bounded-exhaustive enumeration (complete over membership patterns and binding modes, mutation-bounded over documents) on the real resolver against a reference executor",
		Assumptions:    []string{"RS-only graphs are outside the claim (documented limitation)", "reference applicability: same type, implements, member of"},
		QuickBudget:    90 * time.Second,
		ThoroughBudget: 25 * time.Minute,
	})
}

func c08Docs() []*world.Doc {
	F, In, Sp := world.F, world.In, world.Sp
	return []*world.Doc{
		world.Q(F("nameds", F("__typename"), F("name"), In("A", F("id")), In("B", F("s")), In("C", F("i")))),
		world.Q(F("us", F("__typename"), In("A", F("id")), In("B", F("s")), In("Named", F("name")), In("AB", world.Al("t", F("__typename"))))),
		world.Q(F("a", In("Named", F("name")), In("AB", world.Al("t", F("__typename")), In("A", F("id"))), In("B", F("s"))), F("kids", In("Named", F("name"))), F("c", In("Named", F("name")), In("AB", In("B", F("s"))), F("id"))),
		{Ops: []*world.Op{{Type: "query", Anon: true, Sels: []*world.Sel{F("nameds", Sp("FN"), Sp("FA")), F("us", Sp("FN"), Sp("FU")), F("b", Sp("FN"), Sp("FU"))}}},
			Frags: []*world.Frag{{Name: "FN", Cond: "Named", Sels: []*world.Sel{F("name"), F("__typename")}},
				{Name: "FA", Cond: "A", Sels: []*world.Sel{F("id")}},
				{Name: "FU", Cond: "AB", Sels: []*world.Sel{world.Al("t", F("__typename")), In("A", F("s"))}}}},
		world.Q(F("nameds", In("A", F("named", F("__typename"), In("B", F("id"))), F("us", In("Named", F("name")))), In("B", F("u", F("__typename"))))),
		world.Q(F("nameds", F("name"), F("buddy", F("__typename"), F("name"), In("A", F("onlyA")), In("B", F("onlyB")), In("C", F("onlyC")))), F("as", F("buddy", F("onlyA"), F("__typename"))), F("us", In("A", F("buddy", F("onlyA"))), In("B", F("buddy", F("__typename"))))),
		world.Q(F("named", F("__typename"), F("name")), F("u", F("__typename")), F("mnamed", F("__typename"), In("A", F("id"))), F("a", F("named", F("__typename")), F("u", In("B", F("i"))))),
	}
}

// retype rewrites the abstract-typed slots of the base graph so that they are typed by the schema variant.
func retypeGraph(s *world.Schema, variant int) *world.Graph {
	g := world.BaseGraph(variant)
	byType := map[string][]*world.Node{}
	for _, n := range g.Nodes {
		byType[n.Type] = append(byType[n.Type], n)
	}
	var impls, membs []*world.Node
	for _, tn := range []string{"A", "B", "C"} {
		if s.Applies("Named", tn) {
			impls = append(impls, byType[tn]...)
		}
		if s.Applies("AB", tn) {
			membs = append(membs, byType[tn]...)
		}
	}
	pick := func(l []*world.Node, i int) interface{} {
		if len(l) == 0 {
			return nil
		}
		return l[i%len(l)]
	}
	list := func(l []*world.Node, rot int, withNull bool) []interface{} {
		out := []interface{}{}
		for i := range l {
			out = append(out, l[(i+rot)%len(l)])
			if withNull && i == 0 {
				out = append(out, nil)
			}
		}
		return out
	}
	for i, n := range g.Nodes {
		if n.Type == "Mutation" {
			continue
		}
		n.F["named"] = pick(impls, i)
		n.F["mnamed"] = pick(impls, i+1)
		n.F["u"] = pick(membs, i+2)
		if n.Type == "C" {
			n.F["buddy"] = pick(impls, i) // C.buddy is declared Named: the value must be an implementer in this variant
		}
		n.F["nameds"] = list(impls, i, variant == 1)
		n.F["us"] = list(membs, i+1, variant == 1)
	}
	return g
}

func runC08(c *core.Ctx) {
	// quick: every variant at k=0, the 9 corner/default variants at k=1; thorough: every variant at k=1, the default at k=2
	kFor := func(ni, ui int) int {
		corner := func(x int) bool { return x == 1 || x == 3 || x == 7 }
		if c.Thorough() {
			if ni == 3 && ui == 3 {
				return 2
			}
			return 1
		}
		if corner(ni) && corner(ui) {
			return 1
		}
		return 0
	}
	k := 1
	type binding struct {
		name string
		bind world.Binding
		god  int
	}
	bindings := []binding{{"register", world.BindRegister, 0}, {"byname-cold", world.BindByName, 0}, {"go-short", world.BindGoDir, 1}, {"go-pkg", world.BindGoDir, 2}, {"go-full", world.BindGoDir, 3}}
	completed := true
	var idx int64
	for ni := 1; ni <= 7 && completed; ni++ {
		for ui := 1; ui <= 7 && completed; ui++ {
			sBase := world.Universe(world.UniverseOpts{NamedImpl: ni, ABMembers: ui})
			graphs := []*world.Graph{retypeGraph(sBase, 0).FSView(sBase), retypeGraph(sBase, 1).FSView(sBase)}
			docsWithin(c, sBase, c08Docs(), kFor(ni, ui), 1, func(d *world.Doc, dist int) bool {
				if c.Expired() {
					completed = false
					return false
				}
				idx++
				text := d.Render(world.LOneLine)
				if !c.Owns(fmt.Sprintf("%d/%d/%s", ni, ui, text)) {
					return true
				}
				for gi, g := range graphs {
					ex := world.RefExec(sBase, g, d, "", nil, nil, world.RefOpts{})
					if ex.Invalid {
						c.Count("skipped_invalid_document")
						continue
					}
					if (ex.Features["frag-applies"] > 0 && ex.Features["frag-not-applies"] > 0) || ex.Features["typename"] > 0 {
						c.Nontrivial()
					}
					for f, n := range ex.Features {
						c.CountN("expect_"+f, int64(n))
					}
					for _, b := range bindings {
						s := sBase
						if b.god != 0 {
							s = world.Universe(world.UniverseOpts{NamedImpl: ni, ABMembers: ui, GoDir: b.god})
						}
						c.Eval()
						root, run, err := world.BuildRoot(world.Config{Strat: world.FS, Bind: b.bind, Schema: s}, g)
						if err != nil {
							panic(core.EngineError{Msg: "schema rejected: " + err.Error()})
						}
						o := world.Observe(root, run, text, "", nil)
						kind, msg := compareExpect(sBase, g, ex, o, world.FS, true)
						if kind == "" {
							c.Outcome("agree")
							continue
						}
						c.Outcome(kind)
						attrs := map[string]string{"binding": b.name}
						if kind == "panic" {
							attrs["site"], attrs["class"] = o.Panic.Site, o.Panic.Class
						} else if kind == "data-diff" {
							attrs["what"] = diffClass(msg)
						}
						c.Violation(kind, attrs, worldCase{Config: "FS/" + b.name, Graph: gi, SDL: s.SDL(), Query: text,
							Expected: map[string]interface{}{"data": ex.Data, "err_paths": ex.ErrPaths}, Observed: o, Diff: msg})
					}
				}
				sample(c, func() interface{} {
					return map[string]interface{}{"query": text, "named_implementers_mask": ni, "union_members_mask": ui}
				})
				return true
			})
		}
	}
	// ---- Part B: request histories on ONE root. Lazily cached bindings (Object.meta, FieldDef.goField/method) make the second
	// request's answer a function of the first unless the caches are right: every ordered pair (d1, d2), d1 from the abstract
	// bases plus two warm-up documents (a list of struct VALUES of A, plain object edges), d2 from the abstract bases.
	warm := []*world.Doc{
		world.Q(world.F("vkids", world.F("id"), world.F("i")), world.F("as", world.F("id"))), // the struct values come first
		world.Q(world.F("a", world.F("id"), world.F("kid", world.F("id"))), world.F("b", world.F("id")), world.F("c", world.F("id"))),
		world.Q(world.F("as", world.F("id")), world.F("vkids", world.F("id"), world.F("i"))), // pointers first, the struct values last
	}
	firsts := append(append([]*world.Doc{}, warm...), c08Docs()...)
	corner := func(x int) bool { return x == 1 || x == 3 || x == 7 }
	for ni := 1; ni <= 7 && completed; ni++ {
		for ui := 1; ui <= 7 && completed; ui++ {
			if !c.Thorough() && !(corner(ni) && corner(ui)) {
				continue
			}
			sBase := world.Universe(world.UniverseOpts{NamedImpl: ni, ABMembers: ui})
			g := retypeGraph(sBase, 0).FSView(sBase)
			for fi, d1 := range firsts {
				for si, d2 := range c08Docs() {
					if c.Expired() {
						completed = false
						break
					}
					t1, t2 := d1.Render(world.LOneLine), d2.Render(world.LOneLine)
					if !c.Owns(fmt.Sprintf("B/%d/%d/%d/%d", ni, ui, fi, si)) {
						continue
					}
					ex1 := world.RefExec(sBase, g, d1, "", nil, nil, world.RefOpts{})
					ex2 := world.RefExec(sBase, g, d2, "", nil, nil, world.RefOpts{})
					if ex1.Invalid || ex2.Invalid {
						continue
					}
					c.Nontrivial()
					c.R.Distinct++
					agree := map[string]bool{}
					type bad struct {
						b         binding
						kind, msg string
						step      int
						o         *world.Obs
						ex        *world.Expect
					}
					var bads []bad
					for _, b := range bindings {
						s := sBase
						if b.god != 0 {
							s = world.Universe(world.UniverseOpts{NamedImpl: ni, ABMembers: ui, GoDir: b.god})
						}
						c.Eval()
						root, run, err := world.BuildRoot(world.Config{Strat: world.FS, Bind: b.bind, Schema: s}, g)
						if err != nil {
							panic(core.EngineError{Msg: "schema rejected: " + err.Error()})
						}
						o1 := world.Observe(root, run, t1, "", nil)
						run.Log, run.Args = nil, nil
						o2 := world.Observe(root, run, t2, "", nil)
						if kind, msg := compareExpect(sBase, g, ex1, o1, world.FS, true); kind != "" {
							bads = append(bads, bad{b, kind, msg, 1, o1, ex1})
						} else if kind, msg := compareExpect(sBase, g, ex2, o2, world.FS, true); kind != "" {
							bads = append(bads, bad{b, kind, msg, 2, o2, ex2})
						} else {
							agree[b.name] = true
							c.Outcome("history-agree")
						}
					}
					for _, x := range bads {
						c.Outcome("history-" + x.kind)
						// mechanism attribution for finding C08-F1: only the second request differs, only after the struct-value
						// warm-up, only under a lazy binding, and the same pair is right on a root with registered types
						model := "none"
						if x.step == 2 && fi == 0 && x.b.name != "register" && agree["register"] {
							model = "value-bound-first"
						}
						attrs := map[string]string{"part": "history", "binding": x.b.name, "model": model, "step": fmt.Sprint(x.step)}
						if x.kind == "panic" {
							attrs["site"], attrs["class"] = x.o.Panic.Site, x.o.Panic.Class
						}
						c.Violation(x.kind, attrs, worldCase{Config: "FS/" + x.b.name, SDL: sBase.SDL(), Query: t1 + "   THEN   " + t2,
							Expected: map[string]interface{}{"data": x.ex.Data, "err_paths": x.ex.ErrPaths}, Observed: x.o, Diff: fmt.Sprintf("request %d of the history: %s", x.step, x.msg)})
					}
				}
			}
		}
	}
	// ---- Part C: schema growth. A root serves requests, then a later load makes one more object type implement the
	// interface (extend type X implements Named) or join the union (extend union AB = X); every abstract base is resolved
	// before and after and compared with the reference for the schema in force.
	for ni := 1; ni <= 7 && completed; ni++ {
		for ui := 1; ui <= 7 && completed; ui++ {
			if !c.Thorough() && !(corner(ni) && corner(ui)) {
				continue
			}
			for bit := 0; bit < 3; bit++ {
				for which := 0; which < 2; which++ {
					ni2, ui2 := ni, ui
					tn := []string{"A", "B", "C"}[bit]
					var ext string
					if which == 0 {
						if ni&(1<<uint(bit)) != 0 {
							continue
						}
						ni2 |= 1 << uint(bit)
						ext = "extend type " + tn + " implements Named"
					} else {
						if ui&(1<<uint(bit)) != 0 {
							continue
						}
						ui2 |= 1 << uint(bit)
						ext = "extend union AB = " + tn
					}
					if !c.Owns(fmt.Sprintf("C/%d/%d/%s", ni, ui, ext)) {
						continue
					}
					if c.Expired() {
						completed = false
						break
					}
					sBefore := world.Universe(world.UniverseOpts{NamedImpl: ni, ABMembers: ui})
					sAfter := world.Universe(world.UniverseOpts{NamedImpl: ni2, ABMembers: ui2})
					g := retypeGraph(sBefore, 0).FSView(sBefore)
					for _, b := range bindings[:2] {
						c.Eval()
						c.R.Distinct++
						c.Nontrivial()
						root, run, err := world.BuildRoot(world.Config{Strat: world.FS, Bind: b.bind, Schema: sBefore}, g)
						if err != nil {
							panic(core.EngineError{Msg: "schema rejected: " + err.Error()})
						}
						// in between: the same extension written so that it fails INSIDE the block, after its new interface / member was
						// added (the name a second time): refused, and the requests answer as before
						refused := strings.Replace(strings.Replace(ext, "implements Named", "implements Named & Named", 1), "= "+tn, "= "+tn+" | "+tn, 1)
						for phase, sch := range []*world.Schema{sBefore, sBefore, sAfter} {
							if phase == 1 {
								if err := root.ParseString(refused); err == nil {
									c.Count("refused_extension_was_accepted") // then it is a valid way to write it: nothing to check
									continue
								}
							}
							if phase == 2 {
								if err := root.ParseString(ext); err != nil {
									c.Violation("extension-refused", map[string]string{"part": "growth", "binding": b.name}, map[string]interface{}{"sdl": sBefore.SDL(), "extension": ext, "error": err.Error()})
									break
								}
							}
							for _, d := range c08Docs() {
								ex := world.RefExec(sch, g, d, "", nil, nil, world.RefOpts{})
								if ex.Invalid {
									continue
								}
								text := d.Render(world.LOneLine)
								run.Log, run.Args = nil, nil
								o := world.Observe(root, run, text, "", nil)
								kind, msg := compareExpect(sch, g, ex, o, world.FS, true)
								if kind == "" {
									c.Outcome("growth-agree")
									continue
								}
								c.Outcome("growth-" + kind)
								attrs := map[string]string{"part": "growth", "binding": b.name, "phase": []string{"before", "after-refused-extension", "after"}[phase]}
								if kind == "panic" {
									attrs["site"], attrs["class"] = o.Panic.Site, o.Panic.Class
								}
								c.Violation(kind, attrs, worldCase{Config: "FS/" + b.name, SDL: sBefore.SDL() + "\n# later load:\n" + ext, Query: text,
									Expected: map[string]interface{}{"data": ex.Data, "err_paths": ex.ErrPaths}, Observed: o, Diff: msg})
							}
						}
					}
				}
			}
		}
	}
	c08NameProbes(c)
	c08LateRegistration(c)
	c08MoreProbes(c)
	c08RootNamedObjects(c)
	c08InputTwin(c)
	_ = k
	c.R.Bound = "49 membership variants x 7 abstract bases x 5 binding modes x 2 graphs; mutation depth per variant: quick 0 (9 corner variants 1), thorough 1 (default variant 2); + all ordered request pairs on one root (10 x 7 documents) and every single implements / union-member extension loaded between requests, for the 9 corner variants (thorough: all 49); + Go type names containing one another x 5 bindings x all member and value orders x {SDL, AddTypes} x {union first, interface first}; + every sequence <= 5 (thorough 7) of 3 requests and 2 RegisterType calls on one root (types that bind by registration only); + typed slices / arrays of struct values behind abstract lists and one Go type bound to two object types x 3 bindings"
	if !completed {
		c.Cap("deadline reached")
	}
}

// ---- Part D: Go type names that contain one another (suffix, prefix). Binding by name or by @go must go by the whole
// name: Lynx, SnowLynx and LynxCub are three different types however they reach a cold root.

type Lynx struct{ Name string }
type SnowLynx struct{ Name string }
type LynxCub struct{ Name string }
type c08NQuery struct {
	Cats   []interface{}
	Beasts []interface{}
}
type c08NRoot struct{ Query *c08NQuery }

func c08NameProbes(c *core.Ctx) {
	names := []string{"Lynx", "SnowLynx", "LynxCub"}
	mk := func(n string) interface{} {
		switch n {
		case "Lynx":
			return &Lynx{Name: "l"}
		case "SnowLynx":
			return &SnowLynx{Name: "s"}
		}
		return &LynxCub{Name: "c"}
	}
	val := map[string]string{"Lynx": "l", "SnowLynx": "s", "LynxCub": "c"}
	bindings := []string{"byname-cold", "go-short", "go-pkg", "go-full", "register"}
	var idx int64
	for _, b := range bindings {
		for _, mperm := range permutations(3) {
			for _, dperm := range permutations(3) {
				for _, route := range []string{"sdl", "addtypes"} {
					for _, beastsFirst := range []bool{false, true} {
						idx++
						if !c.OwnsIdx(idx) {
							continue
						}
						c.Eval()
						c.R.Distinct++
						c.Nontrivial()
						var sdl strings.Builder
						sdl.WriteString("type Query { cats: [Cats] beasts: [Beast] }\ninterface Beast { name: String }\n")
						for _, n := range names {
							god := ""
							switch b {
							case "go-short":
								god = fmt.Sprintf(" @go(type: %q)", n)
							case "go-pkg":
								god = fmt.Sprintf(" @go(type: %q)", "props."+n)
							case "go-full":
								god = fmt.Sprintf(" @go(type: %q)", "verif/mc/props."+n)
							}
							fmt.Fprintf(&sdl, "type %s implements Beast%s { name: String }\n", n, god)
						}
						fmt.Fprintf(&sdl, "union Cats = %s | %s | %s\n", names[mperm[0]], names[mperm[1]], names[mperm[2]])
						q := &c08NQuery{}
						var want []interface{}
						for _, di := range dperm {
							q.Cats = append(q.Cats, mk(names[di]))
							q.Beasts = append(q.Beasts, mk(names[di]))
							want = append(want, map[string]interface{}{"__typename": names[di], "name": val[names[di]]})
						}
						root := ggql.NewRoot(&c08NRoot{Query: q})
						if route == "sdl" {
							if err := root.ParseString(sdl.String()); err != nil {
								panic(core.EngineError{Msg: "C08 name probe schema refused: " + err.Error()})
							}
						} else {
							// the same schema built with the Go API and handed over by AddTypes (nothing the SDL parser fills in is there)
							ref := func(n string) ggql.Type { return &ggql.Ref{Base: ggql.Base{N: n}} }
							nameField := func() *ggql.FieldDef { return &ggql.FieldDef{Base: ggql.Base{N: "name"}, Type: ref("String")} }
							beast := &ggql.Interface{Base: ggql.Base{N: "Beast"}}
							_ = beast.AddField(nameField())
							cats := &ggql.Union{Base: ggql.Base{N: "Cats"}}
							for _, mi := range mperm {
								cats.Members = append(cats.Members, ref(names[mi]))
							}
							qt := &ggql.Object{Base: ggql.Base{N: "Query"}}
							_ = qt.AddField(&ggql.FieldDef{Base: ggql.Base{N: "cats"}, Type: &ggql.List{Base: ref("Cats")}})
							_ = qt.AddField(&ggql.FieldDef{Base: ggql.Base{N: "beasts"}, Type: &ggql.List{Base: ref("Beast")}})
							types := []ggql.Type{qt, beast, cats}
							for _, n := range names {
								o := &ggql.Object{Base: ggql.Base{N: n}}
								switch b {
								case "go-short":
									o.Dirs = []*ggql.DirectiveUse{{Directive: ref("go"), Args: map[string]*ggql.ArgValue{"type": {Arg: "type", Value: n}}}}
								case "go-pkg":
									o.Dirs = []*ggql.DirectiveUse{{Directive: ref("go"), Args: map[string]*ggql.ArgValue{"type": {Arg: "type", Value: "props." + n}}}}
								case "go-full":
									o.Dirs = []*ggql.DirectiveUse{{Directive: ref("go"), Args: map[string]*ggql.ArgValue{"type": {Arg: "type", Value: "verif/mc/props." + n}}}}
								}
								o.Interfaces = append(o.Interfaces, ref("Beast"))
								_ = o.AddField(nameField())
								types = append(types, o)
							}
							if err := root.AddTypes(types...); err != nil {
								panic(core.EngineError{Msg: "C08 name probe schema refused by AddTypes: " + err.Error()})
							}
						}
						if b == "register" {
							for _, n := range names {
								if err := root.RegisterType(mk(n), n); err != nil {
									panic(core.EngineError{Msg: err.Error()})
								}
							}
						}
						// the interface list first on every other case: its values then meet a root that has bound nothing yet
						text := "{cats{__typename ... on Lynx{name} ... on SnowLynx{name} ... on LynxCub{name}} beasts{__typename name ... on LynxCub{n2: name}}}"
						if beastsFirst {
							text = "{beasts{__typename name ... on LynxCub{n2: name}} cats{__typename ... on Lynx{name} ... on SnowLynx{name} ... on LynxCub{name}}}"
						}
						var res map[string]interface{}
						pi := core.Safe(func() { res = root.ResolveString(text, "", nil) })
						detail := map[string]interface{}{"sdl": sdl.String(), "route": route, "query": text, "go_values_in_order": fmt.Sprint(dperm), "binding": b}
						if pi != nil {
							c.Violation("panic", map[string]string{"site": pi.Site, "class": pi.Class, "part": "names"}, detail)
							continue
						}
						wantB := make([]interface{}, len(want))
						for i, w := range want {
							m := map[string]interface{}{}
							for k, v := range w.(map[string]interface{}) {
								m[k] = v
							}
							if m["__typename"] == "LynxCub" {
								m["n2"] = m["name"]
							}
							wantB[i] = m
						}
						wantData := map[string]interface{}{"cats": want, "beasts": wantB}
						got := world.Canon(res["data"])
						if dd := world.Diff(world.Canon(wantData), got, ""); dd != "" || res["errors"] != nil {
							c.Outcome("names-diff")
							detail["diff"], detail["errors"], detail["data"] = dd, res["errors"], got
							c.Violation("data-diff", map[string]string{"part": "names", "binding": b, "route": route}, detail)
							continue
						}
						c.Outcome("names-agree")
					}
				}
			}
		}
	}
}

// ---- Part E: late registration. Go types that bind to their object types by RegisterType only (the names differ, no @go):
// every sequence of requests and RegisterType calls on one root, up to 5 steps. From the moment a Go type is registered an
// object of it is resolved as its concrete type, whatever the root was asked before (what an object of an unregistered type
// gives is not stated and not compared).

type c08Hound struct{ Name string }
type c08Tabby struct{ Name string }
type c08LQuery struct {
	Animals []interface{}
	Pets    []interface{}
	Animal  interface{}
	Pet     interface{}
}
type c08LRoot struct{ Query *c08LQuery }

func c08LateRegistration(c *core.Ctx) {
	const sdl = "type Query { animals: [Animal] pets: [Pet] animal: Animal pet: Pet }\ninterface Animal { name: String }\n" +
		"type Dog implements Animal { name: String }\ntype Cat implements Animal { name: String }\nunion Pet = Dog | Cat\n"
	type step struct {
		name  string
		query string
		reg   string
	}
	alphabet := []step{
		{name: "animals", query: "{animals{__typename name ... on Dog{d: name} ... on Cat{c: name}}}"},
		{name: "pets", query: "{pets{__typename ... on Dog{name} ... on Cat{name}}}"},
		{name: "single", query: "{animal{__typename name ... on Animal{n2: name}} pet{__typename ... on Cat{name}}}"},
		{name: "register-Dog", reg: "Dog"},
		{name: "register-Cat", reg: "Cat"},
	}
	// expected element per (field, GraphQL type)
	elem := func(field, tn string) map[string]interface{} {
		nm := map[string]string{"Dog": "rex", "Cat": "tom"}[tn]
		m := map[string]interface{}{"__typename": tn, "name": nm}
		switch field {
		case "animals":
			m[map[string]string{"Dog": "d", "Cat": "c"}[tn]] = nm
		case "animal":
			m["n2"] = nm
		case "pet":
			if tn != "Cat" {
				delete(m, "name")
			}
		}
		return m
	}
	var idx int64
	var rec func(seq []int)
	rec = func(seq []int) {
		if len(seq) > 0 && alphabet[seq[len(seq)-1]].query != "" {
			idx++
			if c.OwnsIdx(idx) {
				c.Eval()
				c.R.Distinct++
				c.Nontrivial()
				q := &c08LQuery{
					Animals: []interface{}{&c08Hound{Name: "rex"}, &c08Tabby{Name: "tom"}, &c08Hound{Name: "rex"}},
					Pets:    []interface{}{&c08Tabby{Name: "tom"}, &c08Hound{Name: "rex"}},
					Animal:  &c08Hound{Name: "rex"},
					Pet:     &c08Tabby{Name: "tom"},
				}
				goOf := map[string]string{"Dog": "c08Hound", "Cat": "c08Tabby"}
				root := ggql.NewRoot(&c08LRoot{Query: q})
				if err := root.ParseString(sdl); err != nil {
					panic(core.EngineError{Msg: "C08 late registration schema refused: " + err.Error()})
				}
				registered := map[string]bool{}
				var names []string
				var res map[string]interface{}
				var regErr error
				pi := core.Safe(func() {
					for _, si := range seq {
						st := alphabet[si]
						names = append(names, st.name)
						if st.reg != "" {
							var v interface{} = &c08Hound{}
							if st.reg == "Cat" {
								v = &c08Tabby{}
							}
							if regErr = root.RegisterType(v, st.reg); regErr != nil {
								return
							}
							registered[goOf[st.reg]] = true
							continue
						}
						res = root.ResolveString(st.query, "", nil)
					}
				})
				detail := map[string]interface{}{"sdl": sdl, "steps": names, "last_response": res}
				switch {
				case pi != nil:
					detail["panic"] = pi.Value
					c.Violation("panic", map[string]string{"site": pi.Site, "class": pi.Class, "part": "late-registration"}, detail)
				case regErr != nil:
					detail["error"] = regErr.Error()
					c.Outcome("late-registration-refused")
					c.Violation("registration-refused", map[string]string{"part": "late-registration"}, detail)
				default:
					// compare what the last request says about every object whose Go type is registered by now
					data, _ := res["data"].(map[string]interface{})
					var diffs []string
					check := func(field string, goVal interface{}, got interface{}, where string) {
						tn, goName := "Dog", "c08Hound"
						if _, isCat := goVal.(*c08Tabby); isCat {
							tn, goName = "Cat", "c08Tabby"
						}
						if !registered[goName] {
							return
						}
						if dd := world.Diff(world.Canon(elem(field, tn)), world.Canon(got), where); dd != "" {
							diffs = append(diffs, dd)
						}
					}
					for field, vals := range map[string][]interface{}{"animals": q.Animals, "pets": q.Pets} {
						l, has := data[field].([]interface{})
						if _, asked := data[field]; !asked && !has {
							continue
						}
						if len(l) != len(vals) {
							diffs = append(diffs, fmt.Sprintf("%s: %d elements, want %d", field, len(l), len(vals)))
							continue
						}
						for i := range vals {
							check(field, vals[i], l[i], fmt.Sprintf("%s[%d]", field, i))
						}
					}
					if got, asked := data["animal"]; asked {
						check("animal", q.Animal, got, "animal")
					}
					if got, asked := data["pet"]; asked {
						check("pet", q.Pet, got, "pet")
					}
					if len(registered) == 2 && res["errors"] != nil {
						diffs = append(diffs, fmt.Sprintf("both types registered, yet errors: %v", res["errors"]))
					}
					if len(diffs) > 0 {
						sort.Strings(diffs)
						detail["diff"] = diffs
						c.Outcome("late-registration-diff")
						c.Violation("data-diff", map[string]string{"part": "late-registration", "registered": fmt.Sprint(len(registered))}, detail)
					} else {
						c.Outcome("late-registration-agree")
					}
				}
			}
		}
		if maxLen := map[bool]int{false: 5, true: 7}[c.Thorough()]; len(seq) == maxLen {
			return
		}
		for ai, st := range alphabet {
			dup := false
			for _, si := range seq {
				if st.reg != "" && si == ai {
					dup = true
				}
			}
			if !dup {
				rec(append(append([]int{}, seq...), ai))
			}
		}
	}
	rec(nil)
}

// ---- Part F: (1) a typed Go slice of struct VALUES behind a list of an interface / union type, the struct bound as a value type
// by registration or by name; (2) one Go type bound to two object types (a struct that serves Employee and Contractor): under
// an object-typed field the declared type decides, whatever else the Go type is bound to.

type Pug struct{ Name string }
type Tabby struct{ Name string }
type c08Worker struct{ Name string }
type c08FQuery struct {
	Kennel     []Pug
	Found      []Pug
	Pugs       [2]Pug
	One        Pug
	Employee   *c08Worker
	Contractor *c08Worker
	Staff      []*c08Worker
}
type c08FRoot struct{ Query *c08FQuery }

func c08MoreProbes(c *core.Ctx) {
	const sdl = "interface Pet { name: String }\ntype Pug implements Pet { name: String }\ntype Tabby implements Pet { name: String }\nunion PT = Pug | Tabby\n" +
		"type Employee { name: String }\ntype Contractor { name: String }\n" +
		"type Query { kennel: [Pet] found: [PT] pugs: [Pet] one: Pet employee: Employee contractor: Contractor staff: [Employee] }\n"
	el := func(tn, name string, extra ...string) map[string]interface{} {
		m := map[string]interface{}{"__typename": tn, "name": name}
		for i := 0; i+1 < len(extra); i += 2 {
			m[extra[i]] = extra[i+1]
		}
		return m
	}
	type probe struct {
		name string
		q    string
		want map[string]interface{}
	}
	probes := []probe{
		{"value-slice-under-interface", "{ kennel { __typename name ... on Pug { p: name } ... on Tabby { t: name } } }",
			map[string]interface{}{"kennel": []interface{}{el("Pug", "a", "p", "a"), el("Pug", "b", "p", "b")}}},
		{"value-slice-under-union", "{ found { __typename ... on Pug { name } } }", map[string]interface{}{"found": []interface{}{el("Pug", "c")}}},
		{"value-array-under-interface", "{ pugs { __typename name } one { __typename name } }",
			map[string]interface{}{"pugs": []interface{}{el("Pug", "d"), el("Pug", "e")}, "one": el("Pug", "f")}},
		{"one-go-type-two-object-types", "{ contractor { __typename name ... on Contractor { c: name } ... on Employee { e: name } } employee { __typename name ... on Employee { e: name } ... on Contractor { c: name } } staff { __typename ... on Employee { name } } }",
			map[string]interface{}{"contractor": el("Contractor", "con", "c", "con"), "employee": el("Employee", "emp", "e", "emp"), "staff": []interface{}{el("Employee", "emp")}}},
		{"one-go-type-two-object-types-other-order", "{ employee { __typename ... on Employee { e: name } ... on Contractor { c: name } } contractor { __typename ... on Contractor { c: name } ... on Employee { e: name } } }",
			map[string]interface{}{"employee": map[string]interface{}{"__typename": "Employee", "e": "emp"}, "contractor": map[string]interface{}{"__typename": "Contractor", "c": "con"}}},
	}
	// (registering *Pug does not bind the VALUE type Pug: not asked)
	for bi, binding := range []string{"register-values", "byname-cold", "byname-after-a-single-value"} {
		for pi2, pr := range probes {
			if !c.OwnsIdx(1<<44 + int64(bi*10+pi2)) {
				continue
			}
			c.Eval()
			c.R.Distinct++
			c.Nontrivial()
			q := &c08FQuery{Kennel: []Pug{{"a"}, {"b"}}, Found: []Pug{{"c"}}, Pugs: [2]Pug{{"d"}, {"e"}}, One: Pug{"f"},
				Employee: &c08Worker{"emp"}, Contractor: &c08Worker{"con"}, Staff: []*c08Worker{{"emp"}}}
			root := ggql.NewRoot(&c08FRoot{Query: q})
			if err := root.ParseString(sdl); err != nil {
				panic(core.EngineError{Msg: "C08 part F schema refused: " + err.Error()})
			}
			var res map[string]interface{}
			var regErr error
			pi := core.Safe(func() {
				switch binding {
				case "register-values":
					regErr = root.RegisterType(Pug{}, "Pug")
				case "byname-after-a-single-value":
					_ = root.ResolveString("{ one { name } }", "", nil)
				}
				if regErr == nil {
					if regErr = root.RegisterType(&c08Worker{}, "Employee"); regErr == nil {
						regErr = root.RegisterType(&c08Worker{}, "Contractor")
					}
				}
				res = root.ResolveString(pr.q, "", nil)
			})
			detail := map[string]interface{}{"sdl": sdl, "binding": binding, "query": pr.q, "response": res, "want_data": pr.want}
			attrs := map[string]string{"part": "values-and-double-bindings", "binding": binding, "probe": pr.name}
			switch {
			case pi != nil:
				detail["panic"] = pi.Value
				c.Violation("panic", map[string]string{"site": pi.Site, "class": pi.Class, "part": "values-and-double-bindings"}, detail)
			case regErr != nil:
				c.Outcome("part-F-registration-refused") // one Go type for two object types may be refused: then there is nothing to ask
			default:
				if dd := world.Diff(world.Canon(pr.want), world.Canon(res["data"]), ""); dd != "" || res["errors"] != nil {
					detail["diff"] = dd
					c.Outcome("part-F-diff")
					c.Violation("data-diff", attrs, detail)
				} else {
					c.Outcome("part-F-agree")
				}
			}
		}
	}
}

// ---- Part G: object types that are CALLED Query, Mutation or Subscription and are members like any other: the query root
// implements the interface it hands out (Relay's "type Query implements Node"), a domain type is called Subscription while the
// schema names no subscription root. Every order of the four objects behind an interface list, a union list and single fields,
// bound by registration and by @go (the Go types are not called like the object types, so binding by name is not in it).

type C08GQuery struct {
	Name  string
	Named []interface{}
	Us    []interface{}
	Me    interface{}
	U     interface{}
}
type C08GSubscription struct{ Name, Plan string }
type C08GMutation struct{ Name string }
type C08GCat struct{ Name string }
type c08GRoot struct{ Query *C08GQuery }

func c08RootNamedObjects(c *core.Ctx) {
	const sdl = "schema { query: Query }\ninterface Named { name: String }\n" +
		"type Query implements Named { name: String named: [Named] us: [U] me: Named u: U }\n" +
		"type Subscription implements Named { name: String plan: String }\ntype Mutation implements Named { name: String }\ntype Cat implements Named { name: String }\n" +
		"union U = Subscription | Cat | Mutation | Query\n"
	const sel = "{ __typename ... on Named { name } ... on Subscription { plan } ... on Query { q: name } ... on Mutation { m: name } ... on Cat { c: name } }"
	query := "{ named " + sel + " us " + sel + " me " + sel + " u " + sel + " }"
	perms := [][]int{}
	var rec func(cur []int, used int)
	rec = func(cur []int, used int) {
		if len(cur) == 4 {
			perms = append(perms, append([]int{}, cur...))
			return
		}
		for i := 0; i < 4; i++ {
			if used&(1<<i) == 0 {
				rec(append(cur, i), used|1<<i)
			}
		}
	}
	rec(nil, 0)
	for bi, binding := range []string{"registered", "go-directive"} {
		for pi2, perm := range perms {
			if !c.OwnsIdx(1<<45 + int64(bi*100+pi2)) {
				continue
			}
			c.Eval()
			c.R.Distinct++
			c.Nontrivial()
			q := &C08GQuery{Name: "root"}
			objs := []interface{}{q, &C08GSubscription{"sub", "monthly"}, &C08GMutation{"mut"}, &C08GCat{"cat"}}
			wants := []map[string]interface{}{
				{"__typename": "Query", "name": "root", "q": "root"},
				{"__typename": "Subscription", "name": "sub", "plan": "monthly"},
				{"__typename": "Mutation", "name": "mut", "m": "mut"},
				{"__typename": "Cat", "name": "cat", "c": "cat"},
			}
			var wl []interface{}
			for _, i := range perm {
				q.Named = append(q.Named, objs[i])
				q.Us = append(q.Us, objs[i])
				wl = append(wl, wants[i])
			}
			q.Me, q.U = objs[perm[0]], objs[perm[1]]
			want := map[string]interface{}{"named": wl, "us": wl, "me": wants[perm[0]], "u": wants[perm[1]]}
			text := sdl
			if binding == "go-directive" {
				text = strings.Replace(text, "type Subscription implements Named {", "type Subscription implements Named @go(type: \"C08GSubscription\") {", 1)
				text = strings.Replace(text, "type Mutation implements Named {", "type Mutation implements Named @go(type: \"C08GMutation\") {", 1)
				text = strings.Replace(text, "type Cat implements Named {", "type Cat implements Named @go(type: \"C08GCat\") {", 1)
				text = strings.Replace(text, "type Query implements Named {", "type Query implements Named @go(type: \"C08GQuery\") {", 1)
			}
			root := ggql.NewRoot(&c08GRoot{Query: q})
			if err := root.ParseString(text); err != nil {
				panic(core.EngineError{Msg: "C08 part G schema refused: " + err.Error()})
			}
			var res map[string]interface{}
			var regErr error
			pi := core.Safe(func() {
				if binding == "registered" {
					for _, rt := range []struct {
						v interface{}
						n string
					}{{&C08GQuery{}, "Query"}, {&C08GSubscription{}, "Subscription"}, {&C08GMutation{}, "Mutation"}, {&C08GCat{}, "Cat"}} {
						if regErr == nil {
							regErr = root.RegisterType(rt.v, rt.n)
						}
					}
				}
				res = root.ResolveString(query, "", nil)
			})
			detail := map[string]interface{}{"sdl": text, "binding": binding, "order": perm, "query": query, "response": res, "want_data": want}
			attrs := map[string]string{"part": "objects-named-like-roots", "binding": binding}
			switch {
			case pi != nil:
				detail["panic"] = pi.Value
				c.Violation("panic", map[string]string{"site": pi.Site, "class": pi.Class, "part": "objects-named-like-roots"}, detail)
			case regErr != nil:
				panic(core.EngineError{Msg: "C08 part G registration refused: " + regErr.Error()})
			default:
				if dd := world.Diff(world.Canon(want), world.Canon(res["data"]), ""); dd != "" || res["errors"] != nil {
					detail["diff"] = dd
					c.Outcome("part-G-diff")
					c.Violation("data-diff", attrs, detail)
				} else {
					c.Outcome("part-G-agree")
				}
			}
		}
	}
}

// ---- Part H: one Go struct serves as an output object (bound by @go, lazily) AND is registered for an input type: behind an
// interface list, a union list and single fields the object is still the object.

type C08HDog struct {
	Name   string
	Tricks int
}
type C08HCat struct{ Name string }
type C08HQuery struct {
	Pets  []interface{}
	Found []interface{}
	Best  interface{}
}
type c08HRoot struct{ Query *C08HQuery }

func c08InputTwin(c *core.Ctx) {
	const sdl = "interface Pet { name: String }\ntype Dog implements Pet @go(type: \"C08HDog\") { name: String tricks: Int }\ntype Cat implements Pet @go(type: \"C08HCat\") { name: String }\n" +
		"union PT = Cat | Dog\ninput DogInput { name: String tricks: Int }\ninput CatInput { name: String }\ntype Query { pets: [Pet] found: [PT] best: Pet }\n"
	const sel = "{ __typename ... on Pet { name } ... on Dog { tricks } }"
	dog := map[string]interface{}{"__typename": "Dog", "name": "rex", "tricks": 3}
	cat := map[string]interface{}{"__typename": "Cat", "name": "tom"}
	for oi, order := range [][]int{{0, 1}, {1, 0}, {0, 0}, {1, 1}} {
		for ri, reg := range []string{"inputs-registered-first", "inputs-registered-after-a-request", "no-inputs-registered"} {
			for qi, query := range []string{"{ pets " + sel + " }", "{ found " + sel + " }", "{ best " + sel + " pets " + sel + " }"} {
				if !c.OwnsIdx(1<<46 + int64(oi*100+ri*10+qi)) {
					continue
				}
				c.Eval()
				c.R.Distinct++
				c.Nontrivial()
				objs := []interface{}{&C08HDog{"rex", 3}, &C08HCat{"tom"}}
				wants := []interface{}{dog, cat}
				q := &C08HQuery{Best: objs[order[0]]}
				var wl []interface{}
				for _, i := range order {
					q.Pets, q.Found = append(q.Pets, objs[i]), append(q.Found, objs[i])
					wl = append(wl, wants[i])
				}
				want := map[string]interface{}{}
				switch qi {
				case 0:
					want["pets"] = wl
				case 1:
					want["found"] = wl
				default:
					want["best"], want["pets"] = wants[order[0]], wl
				}
				root := ggql.NewRoot(&c08HRoot{Query: q})
				if err := root.ParseString(sdl); err != nil {
					panic(core.EngineError{Msg: "C08 part H schema refused: " + err.Error()})
				}
				var res map[string]interface{}
				var regErr error
				register := func() {
					if regErr = root.RegisterType(&C08HDog{}, "DogInput"); regErr == nil {
						regErr = root.RegisterType(&C08HCat{}, "CatInput")
					}
				}
				pi := core.Safe(func() {
					switch reg {
					case "inputs-registered-first":
						register()
					case "inputs-registered-after-a-request":
						_ = root.ResolveString("{ best { name } }", "", nil)
						register()
					}
					res = root.ResolveString(query, "", nil)
				})
				detail := map[string]interface{}{"sdl": sdl, "registration": reg, "order": order, "query": query, "response": res, "want_data": want}
				attrs := map[string]string{"part": "go-type-also-registered-for-an-input", "binding": reg}
				switch {
				case pi != nil:
					detail["panic"] = pi.Value
					c.Violation("panic", map[string]string{"site": pi.Site, "class": pi.Class, "part": attrs["part"]}, detail)
				case regErr != nil:
					c.Outcome("part-H-registration-refused")
				default:
					if dd := world.Diff(world.Canon(want), world.Canon(res["data"]), ""); dd != "" || res["errors"] != nil {
						detail["diff"] = dd
						c.Outcome("part-H-diff")
						c.Violation("data-diff", attrs, detail)
					} else {
						c.Outcome("part-H-agree")
					}
				}
			}
		}
	}
}
