//go:build vsched

// Package sched is the controlled cooperative scheduler: real goroutines, one runnable at a time; every
// Mutex.Lock in pkg/ggql (routed here by the sync shim) is a choice point taken BEFORE acquisition, and a
// thread is enabled only while the mutex it wants is free. The explorer enumerates the choices.
package sched

import (
	"fmt"
	"runtime/debug"

	"github.com/uhn/ggql/pkg/vsync"

	"verif/mc/core"
)

type thread struct {
	id    int
	wake  chan struct{}
	want  interface{} // mutex the thread is about to acquire (nil = none)
	done  bool
	fn    func()
	panic string
}

// Result describes one complete execution.
type Result struct {
	Deadlock    bool
	Blocked     []int // thread ids blocked at deadlock
	Steps       int
	Horizon     bool
	Panics      map[int]string
	Contended   int   // Lock points reached while the mutex was held by another thread
	Preemptions int   // choices that switched away from a thread that could have continued
	Schedule    []int // thread ids in the order they were given the CPU
}

type Sched struct {
	ch       *core.Chooser
	threads  []*thread
	cur      *thread
	held     map[interface{}]int
	yield    chan struct{}
	clock    int
	res      Result
	FineMode bool // Unlock is a choice point too (cross-check of the Lock-only reduction)
	MaxSteps int
}

// Now returns the logical clock and advances it; harness logs use it to order events exactly.
func (s *Sched) Now() int { s.clock++; return s.clock }

// Cur returns the id of the thread that is running.
func (s *Sched) Cur() int {
	if s.cur == nil {
		return -1
	}
	return s.cur.id
}

func (s *Sched) hook(op int, m interface{}) {
	t := s.cur
	switch op {
	case vsync.OpLock, vsync.OpRLock:
		if owner, isHeld := s.held[m]; isHeld && owner != t.id {
			s.res.Contended++
		}
		t.want = m
		s.yield <- struct{}{} // hand control to the scheduler: who runs next is a choice
		<-t.wake              // resumed only when the mutex is free
		t.want = nil
		s.held[m] = t.id
	case vsync.OpUnlock, vsync.OpRUnlock:
		if _, ok := s.held[m]; !ok {
			panic("sched: unlock of a mutex that is not held")
		}
		delete(s.held, m)
		if s.FineMode {
			s.yield <- struct{}{}
			<-t.wake
		}
	}
}

// Run executes the thread bodies under the schedule dictated by ch and returns what happened.
// It must be called with no other goroutine touching pkg/ggql.
func Run(ch *core.Chooser, fine bool, fns ...func(s *Sched)) *Result {
	s := &Sched{ch: ch, held: map[interface{}]int{}, yield: make(chan struct{}), FineMode: fine, MaxSteps: 10000}
	s.res.Panics = map[int]string{}
	for i, fn := range fns {
		t := &thread{id: i, wake: make(chan struct{})}
		fn := fn
		t.fn = func() { fn(s) }
		s.threads = append(s.threads, t)
	}
	if vsync.Hook != nil {
		panic(core.EngineError{Msg: "sched: a scheduler is already installed"})
	}
	vsync.Hook = s.hook
	defer func() { vsync.Hook = nil }()
	for _, t := range s.threads {
		t := t
		go func() {
			<-t.wake
			defer func() {
				if r := recover(); r != nil {
					if ee, ok := r.(core.EngineError); ok {
						t.panic = "ENGINE: " + ee.Msg
					} else {
						t.panic = fmt.Sprintf("%v\n%s", r, debug.Stack())
					}
				}
				t.done = true
				s.yield <- struct{}{}
			}()
			t.fn()
		}()
	}
	var last *thread
	for {
		var enabled []*thread
		allDone := true
		for _, t := range s.threads {
			if t.done {
				continue
			}
			allDone = false
			if t.want != nil {
				if _, isHeld := s.held[t.want]; isHeld {
					continue
				}
			}
			enabled = append(enabled, t)
		}
		if allDone {
			break
		}
		if len(enabled) == 0 {
			s.res.Deadlock = true
			for _, t := range s.threads {
				if !t.done {
					s.res.Blocked = append(s.res.Blocked, t.id)
				}
			}
			// the blocked goroutines are abandoned (they stay parked on their wake channel)
			break
		}
		if s.res.Steps >= s.MaxSteps {
			s.res.Horizon = true
			break
		}
		// canonical order: the thread that just ran first if still enabled, then ascending ids
		cost := 0
		if last != nil && !last.done {
			for i, t := range enabled {
				if t == last {
					enabled[0], enabled[i] = enabled[i], enabled[0]
					// keep the rest in ascending id order
					for a := 1; a < len(enabled); a++ {
						for b := a + 1; b < len(enabled); b++ {
							if enabled[b].id < enabled[a].id {
								enabled[a], enabled[b] = enabled[b], enabled[a]
							}
						}
					}
					cost = 1
					break
				}
			}
		}
		idx := 0
		if len(enabled) > 1 {
			idx = s.ch.Costed(len(enabled), cost, "sched")
		}
		next := enabled[idx]
		if cost == 1 && idx != 0 {
			s.res.Preemptions++
		}
		s.res.Steps++
		s.res.Schedule = append(s.res.Schedule, next.id)
		s.cur = next
		last = next
		next.wake <- struct{}{}
		<-s.yield
	}
	for _, t := range s.threads {
		if t.panic != "" {
			s.res.Panics[t.id] = t.panic
		}
	}
	s.cur = nil
	return &s.res
}
