//go:build vsched

package props

import (
	"bytes"
	"encoding/json"
	"fmt"
	"os"
	"sync"

	"github.com/uhn/ggql/pkg/vsync"

	"verif/mc/sched"
	"os/exec"
	"path/filepath"
	"regexp"
	"sort"
	"strings"
	"time"

	"verif/mc/core"
)

var raceFuncRe = regexp.MustCompile(`(?m)^\s+(github\.com/uhn/ggql/pkg/ggql\.\S+?)\(\)\s*$`)

// racePass runs the free-running -race binary (build/vrace) and turns every race report into a violation
// keyed by the unordered pair of the innermost pkg/ggql functions of the two accesses.
func racePass(c *core.Ctx, mode string) {
	bin := filepath.Join(verifDirProps(), "build", "vrace")
	reps := "150"
	if c.Thorough() {
		reps = "1500"
	}
	cmd := exec.Command(bin, mode, reps)
	cmd.Env = append(cmd.Environ(), "GOMAXPROCS=16", "GORACE=halt_on_error=0 history_size=4")
	var out bytes.Buffer
	cmd.Stdout, cmd.Stderr = &out, &out
	start := time.Now()
	err := cmd.Run()
	text := out.String()
	if !strings.Contains(text, "RACEPASS "+mode) && !strings.Contains(text, "DATA RACE") {
		c.Note("race pass did not run: " + strings.TrimSpace(text) + " " + errString(err))
		c.Cap("race pass unavailable (build/vrace missing or failed): the data-race conjunct was not checked in this run")
		return
	}
	for _, line := range strings.Split(text, "\n") {
		if strings.HasPrefix(line, "RACEPASS") {
			c.Note(line + " wall=" + time.Since(start).Round(time.Millisecond).String() + " (sampling; complements the exhaustive schedule exploration)")
		}
	}
	reports := strings.Split(text, "WARNING: DATA RACE")
	for _, rep := range reports[1:] {
		fns := raceFuncRe.FindAllStringSubmatch(rep, -1)
		var top []string
		seen := map[string]bool{}
		for _, f := range fns {
			name := strings.TrimPrefix(f[1], "github.com/uhn/ggql/pkg/ggql.")
			if !seen[name] {
				seen[name] = true
				top = append(top, name)
			}
			if len(top) == 2 {
				break
			}
		}
		sort.Strings(top)
		if len(rep) > 3000 {
			rep = rep[:3000]
		}
		c.Violation("race", map[string]string{"functions": strings.Join(top, " ~ "), "pass": mode}, map[string]interface{}{"report": rep})
	}
	c.CountN("race_reports", int64(len(reports)-1))
}

func errString(err error) string {
	if err == nil {
		return ""
	}
	return err.Error()
}

// ---- happens-before race checking on every explored schedule (memory-access overlay, DESIGN 10.8) ----

type memSite struct {
	ID    int    `json:"id"`
	File  string `json:"file"`
	Line  int    `json:"line"`
	Expr  string `json:"expr"`
	Field string `json:"field"`
	Write bool   `json:"write"`
}

var (
	memSitesOnce sync.Once
	memSites     []memSite
)

func siteOf(i int) memSite {
	memSitesOnce.Do(func() {
		b, err := os.ReadFile(filepath.Join(verifDirProps(), "build", "sites.json"))
		if err == nil {
			_ = json.Unmarshal(b, &memSites)
		}
	})
	if i >= 0 && i < len(memSites) {
		return memSites[i]
	}
	return memSite{ID: i, Field: "?", File: "?"}
}

// memTrackOn switches the scheduler's vector-clock race checker on when the harness was built over the
// memory-access overlay; otherwise it records the cap and leaves the data-race conjunct to the sampling pass.
func memTrackOn(c *core.Ctx) bool {
	if !vsync.MemOverlay {
		sched.MemTrack = false
		c.Cap("memory-access overlay not built for this tree (see build/vcheck_mem.err): happens-before race checking of the explored schedules was not done; the free-running race pass still ran")
		return false
	}
	sched.MemTrack = true
	return true
}

// reportRaces turns the races of one execution into violations keyed by the field and the two source sites.
func reportRaces(c *core.Ctx, res *sched.Result, attrs map[string]string, detail func() map[string]interface{}) {
	c.CountN("mem_accesses", int64(res.Accesses))
	c.CountN("mem_shared_addresses", int64(res.SharedAddrs))
	for _, r := range res.Races {
		a, b := siteOf(r.PrevSite), siteOf(r.Site)
		at := map[string]string{"field": b.Field, "sites": fmt.Sprintf("%s:%d ~ %s:%d", a.File, a.Line, b.File, b.Line)}
		for k, v := range attrs {
			at[k] = v
		}
		d := detail()
		d["race"] = map[string]interface{}{
			"previous": map[string]interface{}{"thread": r.PrevThread, "write": r.PrevWrite, "site": a},
			"current":  map[string]interface{}{"thread": r.Thread, "write": r.Write, "site": b},
			"why":      "two accesses to the same address from different threads, at least one a write, not ordered by any mutex release->acquire chain in this schedule",
		}
		c.Outcome("data-race")
		c.Violation("data-race", at, d)
	}
}
