package sgen

import (
	"fmt"
	"sort"
	"strings"

	"github.com/uhn/ggql/pkg/ggql"

	"verif/mc/world"
)

// refintrospect: the expected answer to introspection, computed from the abstract schema alone.

// TypeRefJSON unrolls a type expression through ofType.
func TypeRefJSON(s *Schema, t *T) map[string]interface{} {
	switch t.K {
	case world.TList:
		return map[string]interface{}{"kind": "LIST", "ofType": TypeRefJSON(s, t.Of)}
	case world.TNonNull:
		return map[string]interface{}{"kind": "NON_NULL", "ofType": TypeRefJSON(s, t.Of)}
	}
	return map[string]interface{}{"kind": string(s.kindOf(t.Name)), "name": t.Name, "ofType": nil}
}

func deprecation(ds []DirUse) (bool, interface{}) {
	for _, d := range ds {
		if d.Name == "deprecated" {
			for _, a := range d.Args {
				if a.Name == "reason" {
					return true, a.Value
				}
			}
			return true, "<default-reason>"
		}
	}
	return false, nil
}

func argsJSON(s *Schema, as []*Arg) []interface{} {
	out := []interface{}{}
	for _, a := range as {
		var dv interface{}
		if a.HasDef {
			dv = canonVal(a.Default)
		}
		out = append(out, map[string]interface{}{"name": a.Name, "description": descOrNil(a.Desc), "type": TypeRefJSON(s, a.Type), "defaultValue": dv})
	}
	return out
}

func descOrNil(d string) interface{} {
	if d == "" {
		return nil
	}
	return d
}

// ExpectedType returns the expected __Type answer for a named type (nil if undefined and not built in).
func ExpectedType(s0 *Schema, name string, includeDeprecated bool) map[string]interface{} {
	s := s0.Merged()
	if builtinScalars[name] && s.Def(name) == nil {
		return map[string]interface{}{"kind": "SCALAR", "name": name, "builtin": true}
	}
	d := s.Def(name)
	if d == nil {
		return nil
	}
	out := map[string]interface{}{"kind": string(d.Kind), "name": d.Name, "description": descOrNil(d.Desc),
		"fields": nil, "interfaces": nil, "possibleTypes": nil, "enumValues": nil, "inputFields": nil, "ofType": nil}
	switch d.Kind {
	case KObject, KInterface:
		fs := []interface{}{}
		for _, f := range d.Fields {
			dep, reason := deprecation(f.Dirs)
			if dep && !includeDeprecated {
				continue
			}
			fs = append(fs, map[string]interface{}{"name": f.Name, "description": descOrNil(f.Desc), "args": argsJSON(s, f.Args), "type": TypeRefJSON(s, f.Type), "isDeprecated": dep, "deprecationReason": reason})
		}
		out["fields"] = fs
		if d.Kind == KObject {
			is := []interface{}{}
			for _, i := range d.Implements {
				is = append(is, map[string]interface{}{"name": i})
			}
			out["interfaces"] = is
		} else {
			ps := []interface{}{}
			for _, o := range s.Defs {
				if o.Kind == KObject {
					for _, i := range o.Implements {
						if i == d.Name {
							ps = append(ps, map[string]interface{}{"name": o.Name})
						}
					}
				}
			}
			out["possibleTypes"] = ps
		}
	case KUnion:
		ps := []interface{}{}
		for _, m := range d.Members {
			ps = append(ps, map[string]interface{}{"name": m})
		}
		out["possibleTypes"] = ps
	case KEnum:
		vs := []interface{}{}
		for _, v := range d.Values {
			dep, reason := deprecation(v.Dirs)
			if dep && !includeDeprecated {
				continue
			}
			vs = append(vs, map[string]interface{}{"name": v.Name, "description": descOrNil(v.Desc), "isDeprecated": dep, "deprecationReason": reason})
		}
		out["enumValues"] = vs
	case KInput:
		fs := []interface{}{}
		for _, f := range d.Fields {
			var dv interface{}
			if f.HasDef {
				dv = canonVal(f.Default)
			}
			fs = append(fs, map[string]interface{}{"name": f.Name, "description": descOrNil(f.Desc), "type": TypeRefJSON(s, f.Type), "defaultValue": dv})
		}
		out["inputFields"] = fs
	}
	return out
}

// ExpectedDirective returns the expected __Directive answer.
func ExpectedDirective(s0 *Schema, name string) map[string]interface{} {
	s := s0.Merged()
	d := s.Directive(name)
	if d == nil {
		return nil
	}
	locs := []interface{}{}
	for _, l := range d.Locations {
		locs = append(locs, l)
	}
	return map[string]interface{}{"name": d.Name, "description": descOrNil(d.Desc), "locations": locs, "args": argsJSON(s, d.Args)}
}

// ---- comparison

func asList(v interface{}) ([]interface{}, bool) {
	if v == nil {
		return nil, true
	}
	l, ok := v.([]interface{})
	return l, ok
}

func byName(l []interface{}) map[string]map[string]interface{} {
	out := map[string]map[string]interface{}{}
	for _, e := range l {
		if m, ok := e.(map[string]interface{}); ok {
			n, _ := m["name"].(string)
			out[n] = m
		}
	}
	return out
}

// CompareTypeRef: wrappers need kind and ofType only; the named type needs kind and name.
func CompareTypeRef(want, got interface{}, path string) string {
	w, _ := want.(map[string]interface{})
	g, ok := got.(map[string]interface{})
	if !ok {
		return fmt.Sprintf("%s: type reference missing (got %v)", path, got)
	}
	if w["kind"] != g["kind"] {
		return fmt.Sprintf("%s.kind: want %v got %v", path, w["kind"], g["kind"])
	}
	if w["ofType"] != nil {
		return CompareTypeRef(w["ofType"], g["ofType"], path+".ofType")
	}
	if w["name"] != g["name"] {
		return fmt.Sprintf("%s.name: want %v got %v", path, w["name"], g["name"])
	}
	if g["ofType"] != nil {
		return fmt.Sprintf("%s.ofType: want null got %v", path, g["ofType"])
	}
	return ""
}

func compareDefault(want, got interface{}, path string) string {
	if want == nil {
		if got != nil {
			return fmt.Sprintf("%s: want no default, got %v", path, got)
		}
		return ""
	}
	gs, ok := got.(string)
	if !ok {
		return fmt.Sprintf("%s: want default %v, got %v", path, want, got)
	}
	if want.(string) == fmt.Sprintf("%q", gs) {
		return "" // raw string default
	}
	v, err := ggql.ParseValueString(gs)
	if err != nil {
		return fmt.Sprintf("%s: defaultValue %q does not parse: %v", path, gs, err)
	}
	if c := canonVal(fromVal(v)); c != want.(string) {
		// a string default is reported raw, without quotes (pinned by TestResolveInterfaceInput): accepted as well
		if want.(string) == fmt.Sprintf("%q", gs) {
			return ""
		}
		return fmt.Sprintf("%s: want default %s, got %s (text %q)", path, want, c, gs)
	}
	return ""
}

func compareDesc(want, got interface{}, path string) string {
	ws, _ := want.(string)
	gs, _ := got.(string)
	if ws != gs {
		return fmt.Sprintf("%s: want %q got %q", path, ws, gs)
	}
	return ""
}

func compareArgs(want, got interface{}, path string) string {
	wl, _ := asList(want)
	gl, ok := asList(got)
	if !ok {
		return fmt.Sprintf("%s: args is not a list: %v", path, got)
	}
	if len(wl) != len(gl) {
		return fmt.Sprintf("%s: want %d args got %d", path, len(wl), len(gl))
	}
	gm := byName(gl)
	for _, we := range wl {
		w := we.(map[string]interface{})
		n := w["name"].(string)
		g, has := gm[n]
		if !has {
			return fmt.Sprintf("%s: argument %s missing", path, n)
		}
		if s := compareDesc(w["description"], g["description"], path+"."+n+".description"); s != "" {
			return s
		}
		if s := CompareTypeRef(w["type"], g["type"], path+"."+n+".type"); s != "" {
			return s
		}
		if s := compareDefault(w["defaultValue"], g["defaultValue"], path+"."+n+".defaultValue"); s != "" {
			return s
		}
	}
	return ""
}

func compareDeprecation(w, g map[string]interface{}, path string) string {
	if w["isDeprecated"] != g["isDeprecated"] {
		return fmt.Sprintf("%s.isDeprecated: want %v got %v", path, w["isDeprecated"], g["isDeprecated"])
	}
	switch wr := w["deprecationReason"].(type) {
	case nil:
		if g["deprecationReason"] != nil {
			return fmt.Sprintf("%s.deprecationReason: want null got %v", path, g["deprecationReason"])
		}
	case string:
		gr, _ := g["deprecationReason"].(string)
		if wr == "<default-reason>" {
			if strings.Trim(gr, `"`) != "No longer supported" {
				return fmt.Sprintf("%s.deprecationReason: want the default reason got %q", path, gr)
			}
		} else if gr != wr {
			return fmt.Sprintf("%s.deprecationReason: want %q got %q", path, wr, gr)
		}
	}
	return ""
}

func compareNameSet(want, got interface{}, path string) string {
	wl, _ := asList(want)
	gl, ok := asList(got)
	if !ok {
		return fmt.Sprintf("%s: not a list: %v", path, got)
	}
	names := func(l []interface{}) []string {
		var out []string
		for _, e := range l {
			if m, ok := e.(map[string]interface{}); ok {
				out = append(out, fmt.Sprint(m["name"]))
			} else {
				out = append(out, fmt.Sprint(e))
			}
		}
		sort.Strings(out)
		return out
	}
	w, g := names(wl), names(gl)
	if strings.Join(w, ",") != strings.Join(g, ",") {
		return fmt.Sprintf("%s: want {%s} got {%s}", path, strings.Join(w, ","), strings.Join(g, ","))
	}
	return ""
}

// CompareType compares an observed __Type answer with the expectation. "" = faithful.
func CompareType(want map[string]interface{}, got interface{}) string {
	path := fmt.Sprint(want["name"])
	g, ok := got.(map[string]interface{})
	if !ok {
		return fmt.Sprintf("%s: type missing from the answer (got %v)", path, got)
	}
	if want["kind"] != g["kind"] {
		return fmt.Sprintf("%s.kind: want %v got %v", path, want["kind"], g["kind"])
	}
	if want["builtin"] == true {
		return ""
	}
	if s := compareDesc(want["description"], g["description"], path+".description"); s != "" {
		return s
	}
	// fields
	wf, _ := asList(want["fields"])
	gf, ok := asList(g["fields"])
	if !ok || len(wf) != len(gf) {
		return fmt.Sprintf("%s.fields: want %d got %v", path, len(wf), g["fields"])
	}
	gm := byName(gf)
	for _, we := range wf {
		w := we.(map[string]interface{})
		n := w["name"].(string)
		gg, has := gm[n]
		if !has {
			return fmt.Sprintf("%s.fields: %s missing", path, n)
		}
		p := path + "." + n
		if s := compareDesc(w["description"], gg["description"], p+".description"); s != "" {
			return s
		}
		if s := compareArgs(w["args"], gg["args"], p+".args"); s != "" {
			return s
		}
		if s := CompareTypeRef(w["type"], gg["type"], p+".type"); s != "" {
			return s
		}
		if s := compareDeprecation(w, gg, p); s != "" {
			return s
		}
	}
	if s := compareNameSet(want["interfaces"], g["interfaces"], path+".interfaces"); s != "" {
		return s
	}
	if s := compareNameSet(want["possibleTypes"], g["possibleTypes"], path+".possibleTypes"); s != "" {
		return s
	}
	// enum values
	wv, _ := asList(want["enumValues"])
	gv, ok := asList(g["enumValues"])
	if !ok || len(wv) != len(gv) {
		return fmt.Sprintf("%s.enumValues: want %d got %v", path, len(wv), g["enumValues"])
	}
	gvm := byName(gv)
	for _, we := range wv {
		w := we.(map[string]interface{})
		n := w["name"].(string)
		gg, has := gvm[n]
		if !has {
			return fmt.Sprintf("%s.enumValues: %s missing", path, n)
		}
		if s := compareDesc(w["description"], gg["description"], path+"."+n+".description"); s != "" {
			return s
		}
		if s := compareDeprecation(w, gg, path+"."+n); s != "" {
			return s
		}
	}
	// input fields
	wi, _ := asList(want["inputFields"])
	gi, ok := asList(g["inputFields"])
	if !ok || len(wi) != len(gi) {
		return fmt.Sprintf("%s.inputFields: want %d got %v", path, len(wi), g["inputFields"])
	}
	if s := compareArgs(want["inputFields"], g["inputFields"], path+".inputFields"); s != "" {
		return s
	}
	if g["ofType"] != nil {
		return fmt.Sprintf("%s.ofType: want null got %v", path, g["ofType"])
	}
	return ""
}

// CompareDirective compares an observed __Directive answer with the expectation.
func CompareDirective(want map[string]interface{}, got interface{}) string {
	path := "@" + fmt.Sprint(want["name"])
	g, ok := got.(map[string]interface{})
	if !ok {
		return path + ": directive missing from the answer"
	}
	if s := compareDesc(want["description"], g["description"], path+".description"); s != "" {
		return s
	}
	if s := compareNameSet(want["locations"], g["locations"], path+".locations"); s != "" {
		return s
	}
	return compareArgs(want["args"], g["args"], path+".args")
}
