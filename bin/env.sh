# sourced by every script: offline Go environment, nothing under /tmp
export GOFLAGS=-mod=mod GOPROXY=off GOSUMDB=off GOTOOLCHAIN=local
export VERIF_DIR="${VERIF_DIR:-/verif}"
export VERIF_REPO="${VERIF_REPO:-/repo}"
export GOCACHE="$VERIF_DIR/.gocache"
export GOTMPDIR="$VERIF_DIR/build/tmp"
mkdir -p "$VERIF_DIR/build/tmp" "$GOCACHE"
