package props

import (
	"fmt"
	"math"
	"sort"
	"strconv"
	"strings"
	"time"

	"github.com/uhn/ggql/pkg/ggql"

	"verif/mc/core"
	"verif/mc/world"
)

// C04 — resolvers only receive arguments that conform to the declared input types (DESIGN 5.4).
// The whole product type expression x client value x delivery mode x strategy is enumerated.

func init() {
	Register(&Check{
		ID:  "C04",
		Run: runC04,
		Rule: "complete product: 10 base input types {Int, Float, String, Boolean, ID, Int64, Float64, enum E, input I, Time} x 7 wrappers {T, T!, [T], [T!], [T]!, [T!]!, [[T]]} x client values " +
			"(integers around +-2^31, 2^32, 2^53; floats incl. 1e40; strings; booleans; null; enum member/non-member; lists; input objects complete / missing required / unknown field / null in non-null / nested) " +
			"x delivery {literal, JSON-decoded variable, native Go numeric kinds, variable default, variable over default, variable nested in list literal, variable nested in input-object literal} x {RS, AS, FS}; " +
			"oracle one-directional: if the resolver was invoked the argument conforms to T and denotes the client's value; a clearly uncoercible value yields an error and no invocation. " +
			"distinct = (type, value, delivery, strategy) cells; non-trivial = value is not null and the type has a wrapper or the value's kind differs from the base type",
		Technique:      "complete enumeration of a finite product on the real resolver against an independent input-coercion reference (refcoerce)",
		Assumptions:    []string{"over-rejection is allowed (statement is one-directional)", "explicit-null variable with a default is outside the claim (reading recorded in DESIGN 5.4)", "ggql.Relaxed=false"},
		QuickBudget:    90 * time.Second,
		ThoroughBudget: 10 * time.Minute,
	})
}

// ---- client values

type cvKind int

const (
	cvNull cvKind = iota
	cvInt
	cvFloat
	cvStr
	cvBool
	cvEnum
	cvList
	cvObj
	cvBig // an integer above the int64 range: CV.U
)

type CV struct {
	K    cvKind
	I    int64
	U    uint64
	F    float64
	S    string
	B    bool
	L    []CV
	O    map[string]CV
	Text string // literal spelling override (e.g. 1e40)
}

func cvI(n int64) CV     { return CV{K: cvInt, I: n} }
func cvF(f float64) CV   { return CV{K: cvFloat, F: f} }
func cvS(s string) CV    { return CV{K: cvStr, S: s} }
func cvB(b bool) CV      { return CV{K: cvBool, B: b} }
func cvE(s string) CV    { return CV{K: cvEnum, S: s} }
func cvL(l ...CV) CV     { return CV{K: cvList, L: append([]CV{}, l...)} }
func cvO(kv ...interface{}) CV {
	m := map[string]CV{}
	for i := 0; i < len(kv); i += 2 {
		m[kv[i].(string)] = kv[i+1].(CV)
	}
	return CV{K: cvObj, O: m}
}

var cvNul = CV{K: cvNull}

// cvU is an integer above the int64 range (only Go's unsigned kinds and JSON numbers can carry it).
func cvU(u uint64) CV { return CV{K: cvBig, U: u} }

func (v CV) Literal() string {
	switch v.K {
	case cvNull:
		return "null"
	case cvInt:
		return strconv.FormatInt(v.I, 10)
	case cvBig:
		return strconv.FormatUint(v.U, 10)
	case cvFloat:
		if v.Text != "" {
			return v.Text
		}
		s := strconv.FormatFloat(v.F, 'g', -1, 64)
		if !strings.ContainsAny(s, ".e") {
			s += ".0"
		}
		return strings.Replace(s, "e+", "e", 1)
	case cvStr:
		return strconv.Quote(v.S)
	case cvBool:
		return strconv.FormatBool(v.B)
	case cvEnum:
		return v.S
	case cvList:
		parts := make([]string, len(v.L))
		for i, e := range v.L {
			parts[i] = e.Literal()
		}
		return "[" + strings.Join(parts, ", ") + "]"
	case cvObj:
		keys := make([]string, 0, len(v.O))
		for k := range v.O {
			keys = append(keys, k)
		}
		sort.Strings(keys)
		parts := make([]string, len(keys))
		for i, k := range keys {
			parts[i] = k + ": " + v.O[k].Literal()
		}
		return "{" + strings.Join(parts, ", ") + "}"
	}
	return "?"
}

// JSON returns the value as encoding/json would decode it (numbers are float64).
func (v CV) JSON() interface{} {
	switch v.K {
	case cvInt:
		return float64(v.I)
	case cvBig:
		return float64(v.U)
	case cvFloat:
		return v.F
	case cvStr, cvEnum:
		return v.S
	case cvBool:
		return v.B
	case cvList:
		out := make([]interface{}, len(v.L))
		for i, e := range v.L {
			out[i] = e.JSON()
		}
		return out
	case cvObj:
		out := map[string]interface{}{}
		for k, e := range v.O {
			out[k] = e.JSON()
		}
		return out
	}
	return nil
}

// Native returns the value with numbers in a native Go kind (kind index selects which).
func (v CV) Native(kind int) (interface{}, bool) {
	switch v.K {
	case cvInt:
		switch kind {
		case 0:
			return int(v.I), true
		case 1:
			return v.I, true
		case 2:
			if v.I >= math.MinInt32 && v.I <= math.MaxInt32 {
				return int32(v.I), true
			}
		case 3:
			if v.I >= 0 {
				return uint64(v.I), true
			}
		case 4:
			if v.I >= 0 && v.I <= math.MaxUint32 {
				return uint32(v.I), true
			}
		case 5:
			if v.I >= math.MinInt16 && v.I <= math.MaxInt16 {
				return int16(v.I), true
			}
		case 6:
			if v.I >= 0 {
				return uint(v.I), true
			}
		}
	case cvBig:
		switch kind {
		case 3:
			return v.U, true
		case 6:
			return uint(v.U), true
		}
	case cvFloat:
		switch kind {
		case 0:
			return float32(v.F), !math.IsInf(float64(float32(v.F)), 0) && float64(float32(v.F)) == v.F
		case 1:
			return v.F, true
		}
	case cvList:
		out := make([]interface{}, len(v.L))
		any := false
		for i, e := range v.L {
			n, ok := e.Native(kind)
			if ok {
				any = true
				out[i] = n
			} else {
				out[i] = e.JSON()
			}
		}
		return out, any
	}
	return nil, false
}

// ---- the schema

type c04Schema struct {
	enumVals []string
}

var c04Bases = []string{"Int", "Float", "String", "Boolean", "ID", "Int64", "Float64", "E", "I", "Time"}

func c04Wrap(base string, w int) *world.T {
	n := world.N(base)
	switch w {
	case 0:
		return n
	case 1:
		return world.NN(n)
	case 2:
		return world.L(n)
	case 3:
		return world.L(world.NN(n))
	case 4:
		return world.NN(world.L(n))
	case 5:
		return world.NN(world.L(world.NN(n)))
	}
	return world.L(world.L(n))
}

const c04NWrappers = 7

func c04SDL() string {
	var b strings.Builder
	b.WriteString("enum E { RED GREEN BLUE }\n")
	b.WriteString("input I { req: Int! def: String = \"dflt\" list: [Int!] nested: I en: E fl: Float }\n")
	b.WriteString("type Query {\n")
	for bi, base := range c04Bases {
		for w := 0; w < c04NWrappers; w++ {
			fmt.Fprintf(&b, "  f%d_%d(x: %s): String\n", bi, w, c04Wrap(base, w))
			// the same argument declared with a default value, next to an unrelated second argument
			fmt.Fprintf(&b, "  d%d_%d(x: %s = %s, y: Int): String\n", bi, w, c04Wrap(base, w), validLit(c04Wrap(base, w)))
		}
	}
	b.WriteString("}\n")
	return b.String()
}

// input type I as the reference sees it
type c04Field struct {
	T       *world.T
	Default *CV
}

func c04InputFields() map[string]c04Field {
	d := cvS("dflt")
	return map[string]c04Field{
		"req":    {T: world.NN(world.N("Int"))},
		"def":    {T: world.N("String"), Default: &d},
		"list":   {T: world.L(world.NN(world.N("Int")))},
		"nested": {T: world.N("I")},
		"en":     {T: world.N("E")},
		"fl":     {T: world.N("Float")},
	}
}

var c04Enum = map[string]bool{"RED": true, "GREEN": true, "BLUE": true}

// ---- refcoerce

func inInt32(n int64) bool { return n >= math.MinInt32 && n <= math.MaxInt32 }

// mustFail: the client's value clearly cannot be coerced to t.
func mustFail(t *world.T, v CV) bool {
	switch t.K {
	case world.TNonNull:
		if v.K == cvNull {
			return true
		}
		return mustFail(t.Of, v)
	case world.TList:
		if v.K == cvNull {
			return false
		}
		if v.K == cvList {
			for _, e := range v.L {
				if mustFail(t.Of, e) {
					return true
				}
			}
			return false
		}
		return mustFail(t.Of, v)
	}
	if v.K == cvNull {
		return false
	}
	switch t.Name {
	case "Int":
		switch v.K {
		case cvInt:
			return !inInt32(v.I)
		case cvFloat:
			return v.F != math.Trunc(v.F) || v.F > math.MaxInt32 || v.F < math.MinInt32
		}
		return true // includes cvBig
	case "Int64":
		switch v.K {
		case cvBig:
			return true // above the int64 range
		case cvInt:
			return false
		case cvFloat:
			return v.F != math.Trunc(v.F)
		case cvStr:
			// a custom scalar: the decimal string form is a legitimate spelling of a 64-bit integer
			_, err := strconv.ParseInt(v.S, 10, 64)
			return err != nil
		}
		return true
	case "Float64":
		if v.K == cvStr {
			_, err := strconv.ParseFloat(v.S, 64)
			return err != nil
		}
		return v.K != cvInt && v.K != cvFloat && v.K != cvBig
	case "Float":
		return v.K != cvInt && v.K != cvFloat && v.K != cvBig
	case "String":
		return v.K == cvList || v.K == cvObj
	case "ID":
		return v.K == cvList || v.K == cvObj
	case "Boolean":
		return v.K == cvList || v.K == cvObj
	case "Time":
		// a custom scalar: an RFC 3339 text is its spelling; what a number means (seconds since 1970 in ggql) is the scalar's
		// own business and demanded neither way; anything else is no time
		switch v.K {
		case cvStr:
			_, err := time.Parse(time.RFC3339Nano, v.S)
			return err != nil
		case cvInt, cvFloat, cvBig:
			return false
		}
		return true
	case "E":
		switch v.K {
		case cvEnum, cvStr:
			return !c04Enum[v.S]
		}
		return true
	case "I":
		if v.K != cvObj {
			return true
		}
		fields := c04InputFields()
		for k, fv := range v.O {
			f, ok := fields[k]
			if !ok {
				return true
			}
			if mustFail(f.T, fv) {
				return true
			}
		}
		for k, f := range fields {
			if _, has := v.O[k]; !has && f.Default == nil && f.T.K == world.TNonNull {
				return true
			}
		}
		return false
	}
	return false
}

func asInt64(d interface{}) (int64, bool) {
	switch tv := d.(type) {
	case int:
		return int64(tv), true
	case int8:
		return int64(tv), true
	case int16:
		return int64(tv), true
	case int32:
		return int64(tv), true
	case int64:
		return tv, true
	case uint8:
		return int64(tv), true
	case uint16:
		return int64(tv), true
	case uint32:
		return int64(tv), true
	case uint:
		return int64(tv), tv <= math.MaxInt64
	case uint64:
		return int64(tv), tv <= math.MaxInt64
	}
	return 0, false
}

// conform: the delivered argument value d conforms to t and denotes the client's value v. "" = yes.
func conform(t *world.T, v CV, d interface{}) string {
	switch t.K {
	case world.TNonNull:
		if d == nil {
			return "null delivered for a non-null type"
		}
		return conform(t.Of, v, d)
	case world.TList:
		if v.K == cvNull {
			if d != nil {
				return fmt.Sprintf("client wrote null, resolver got %#v", d)
			}
			return ""
		}
		if d == nil {
			return "client's list became null"
		}
		dl, ok := d.([]interface{})
		if !ok {
			return fmt.Sprintf("list type but resolver got %T", d)
		}
		if v.K == cvList {
			if len(dl) != len(v.L) {
				return fmt.Sprintf("list length %d, client wrote %d", len(dl), len(v.L))
			}
			for i := range dl {
				if s := conform(t.Of, v.L[i], dl[i]); s != "" {
					return fmt.Sprintf("[%d]: %s", i, s)
				}
			}
			return ""
		}
		if len(dl) != 1 {
			return "single value for a list type must arrive as a one-element list"
		}
		return conform(t.Of, v, dl[0])
	}
	if v.K == cvNull {
		if d != nil {
			return fmt.Sprintf("client wrote null, resolver got %#v", d)
		}
		return ""
	}
	if d == nil {
		return "client's value became null"
	}
	switch t.Name {
	case "Int", "Int64":
		n, ok := asInt64(d)
		if !ok {
			return fmt.Sprintf("%s argument arrived as %T", t.Name, d)
		}
		if t.Name == "Int" && !inInt32(n) {
			return fmt.Sprintf("Int argument %d outside 32 bits", n)
		}
		switch v.K {
		case cvStr:
			if pn, err := strconv.ParseInt(v.S, 10, 64); err != nil || pn != n || t.Name != "Int64" {
				return fmt.Sprintf("client wrote %q, resolver got %d", v.S, n)
			}
		case cvInt:
			if n != v.I {
				return fmt.Sprintf("client wrote %d, resolver got %d", v.I, n)
			}
		case cvFloat:
			if float64(n) != v.F {
				return fmt.Sprintf("client wrote %v, resolver got %d", v.F, n)
			}
		default:
			return fmt.Sprintf("client wrote %s, resolver got %d", v.Literal(), n)
		}
		return ""
	case "Float", "Float64":
		var cf float64
		switch v.K {
		case cvInt:
			cf = float64(v.I)
		case cvBig:
			cf = float64(v.U)
		case cvFloat:
			cf = v.F
		case cvStr:
			pf, err := strconv.ParseFloat(v.S, 64)
			if err != nil || t.Name != "Float64" {
				return fmt.Sprintf("client wrote %s for a %s", v.Literal(), t.Name)
			}
			cf = pf
		default:
			return fmt.Sprintf("client wrote %s for a Float", v.Literal())
		}
		switch tv := d.(type) {
		case float32:
			if math.IsInf(float64(tv), 0) || math.IsNaN(float64(tv)) {
				return fmt.Sprintf("Float argument is not finite (%v), client wrote %v", tv, cf)
			}
			if float32(cf) != tv {
				return fmt.Sprintf("client wrote %v, resolver got %v", cf, tv)
			}
		case float64:
			if math.IsInf(tv, 0) || math.IsNaN(tv) {
				return "Float argument is not finite"
			}
			if cf != tv {
				return fmt.Sprintf("client wrote %v, resolver got %v", cf, tv)
			}
		default:
			if n, ok := asInt64(d); ok && float64(n) == cf {
				return ""
			}
			if u, ok := d.(uint64); ok && float64(u) == cf {
				return ""
			}
			if u, ok := d.(uint); ok && float64(u) == cf {
				return ""
			}
			return fmt.Sprintf("Float argument arrived as %T(%v)", d, d)
		}
		return ""
	case "Time":
		tt, ok := d.(time.Time)
		if !ok {
			return fmt.Sprintf("Time argument arrived as %T(%v)", d, d)
		}
		switch v.K {
		case cvStr:
			want, err := time.Parse(time.RFC3339Nano, v.S)
			if err != nil || !want.Equal(tt) {
				return fmt.Sprintf("client wrote %q, resolver got %s", v.S, tt.Format(time.RFC3339Nano))
			}
		// (numbers are seconds since 1970 in ggql; demanded only where the nanosecond count fits 64 bits - beyond that what
		// instant a number names is not something the statement settles)
		case cvInt:
			if v.I > -9e9 && v.I < 9e9 && tt.Unix() != v.I {
				return fmt.Sprintf("client wrote %d, resolver got %s", v.I, tt.Format(time.RFC3339Nano))
			}
		case cvFloat:
			if v.F > -9e9 && v.F < 9e9 && math.Abs(float64(tt.UnixNano())/1e9-v.F) > 1e-3 {
				return fmt.Sprintf("client wrote %v, resolver got %s", v.F, tt.Format(time.RFC3339Nano))
			}
		case cvBig:
			// above int64 seconds: whatever instant that is, it is not demanded
		default:
			return fmt.Sprintf("client wrote %s, resolver got %s", v.Literal(), tt.Format(time.RFC3339Nano))
		}
		return ""
	case "String", "ID":
		s, ok := d.(string)
		if !ok {
			return fmt.Sprintf("%s argument arrived as %T", t.Name, d)
		}
		switch v.K {
		case cvStr:
			if s != v.S {
				return fmt.Sprintf("client wrote %q, resolver got %q", v.S, s)
			}
		case cvInt:
			if s != strconv.FormatInt(v.I, 10) {
				return fmt.Sprintf("client wrote %d, resolver got %q", v.I, s)
			}
		case cvBig:
			if t.Name == "ID" && s != strconv.FormatUint(v.U, 10) && s != strconv.FormatFloat(float64(v.U), 'g', -1, 64) && s != strconv.FormatFloat(float64(v.U), 'f', -1, 64) {
				return fmt.Sprintf("client wrote %d, resolver got %q", v.U, s)
			}
		}
		return ""
	case "Boolean":
		b, ok := d.(bool)
		if !ok {
			return fmt.Sprintf("Boolean argument arrived as %T", d)
		}
		if v.K == cvBool && b != v.B {
			return "boolean flipped"
		}
		return ""
	case "E":
		var s string
		switch tv := d.(type) {
		case string:
			s = tv
		case ggql.Symbol:
			s = string(tv)
		default:
			return fmt.Sprintf("enum argument arrived as %T", d)
		}
		if !c04Enum[s] {
			return "enum argument " + s + " is not a declared member"
		}
		if (v.K == cvEnum || v.K == cvStr) && v.S != s {
			return fmt.Sprintf("client wrote %s, resolver got %s", v.S, s)
		}
		return ""
	case "I":
		m, ok := d.(map[string]interface{})
		if !ok {
			return fmt.Sprintf("input object arrived as %T", d)
		}
		if v.K != cvObj {
			return "client did not write an object"
		}
		fields := c04InputFields()
		for k := range m {
			if _, ok := fields[k]; !ok {
				return "undeclared input field " + k + " delivered"
			}
		}
		for k, f := range fields {
			fv, has := v.O[k]
			dv := m[k]
			switch {
			case has && fv.K == cvNull && f.Default != nil:
				// explicit null for a defaulted field: null or the default are both accepted (reading recorded in DESIGN 5.4)
				if dv != nil {
					if s := conform(f.T, *f.Default, dv); s != "" {
						return k + ": " + s
					}
				}
			case has:
				if s := conform(f.T, fv, dv); s != "" {
					return k + ": " + s
				}
			case f.Default != nil:
				if s := conform(f.T, *f.Default, dv); s != "" {
					return k + ": default not filled in: " + s
				}
			case f.T.K == world.TNonNull:
				return "required input field " + k + " missing"
			default:
				if dv != nil {
					return fmt.Sprintf("absent field %s delivered as %#v", k, dv)
				}
			}
		}
		return ""
	}
	return ""
}

// ---- value menu

func c04Scalars() []CV {
	return []CV{
		cvNul, cvI(0), cvI(1), cvI(-1), cvI(math.MaxInt32), cvI(math.MaxInt32 + 1), cvI(math.MinInt32), cvI(math.MinInt32 - 1), cvI(4294967297), cvI(9007199254740993),
		cvU(math.MaxUint64), cvU(math.MaxUint64 - 6), cvU(1 << 63), // wrap to -1, -7 and MinInt64 when narrowed through int64
		cvF(1.5), cvF(2.0), cvF(0.1), {K: cvFloat, F: 1e40, Text: "1e40"}, cvF(-2147483649.0),
		cvS("a"), cvS("12"), cvS(""), cvS("RED"), cvB(true), cvB(false), cvE("RED"), cvE("PURPLE"),
		// texts of instants (with and without a fraction and an offset) and a date that is no RFC 3339 instant
		cvS("2020-01-02T03:04:05Z"), cvS("2020-01-02T03:04:05.123456789+02:00"), cvS("2020-01-02"),
	}
}

func c04Objects() []CV {
	return []CV{
		cvO("req", cvI(1)), cvO("req", cvI(1), "def", cvS("x")), cvO(), cvO("req", cvI(1), "zz", cvI(2)), cvO("req", cvNul), cvO("req", cvI(1), "def", cvNul),
		cvO("req", cvI(1), "list", cvL(cvI(1), cvNul)), cvO("req", cvI(1), "list", cvL(cvI(1), cvI(4294967297))), cvO("req", cvI(1), "nested", cvO("req", cvI(2))),
		cvO("req", cvI(1), "nested", cvO()), cvO("req", cvS("a")), cvO("req", cvI(4294967297)), cvO("req", cvI(1), "en", cvE("RED")), cvO("req", cvI(1), "en", cvE("PURPLE")),
		cvO("req", cvI(1), "fl", CV{K: cvFloat, F: 1e40, Text: "1e40"}), cvO("req", cvF(1.5)),
		// an undeclared field whose value is null (at the top and one level down): undeclared all the same
		cvO("req", cvI(1), "zz", cvNul), cvO("req", cvI(1), "nested", cvO("req", cvI(2), "zz", cvNul)), cvO("zz", cvNul),
	}
}

func c04Values(t *world.T, thorough bool) []CV {
	switch t.K {
	case world.TNonNull:
		return c04Values(t.Of, thorough)
	case world.TList:
		out := []CV{cvNul, cvL(), cvI(1), cvS("a"), cvL(cvI(1), cvL(), cvI(3))} // the last: an EMPTY list where an element belongs
		for _, e := range c04Values(t.Of, thorough) {
			out = append(out, cvL(e))
			if e.K != cvNull {
				out = append(out, cvL(e, cvNul), cvL(cvI(1), e))
			}
		}
		return out
	}
	out := append([]CV{}, c04Scalars()...)
	out = append(out, cvL(cvI(1)), cvL()) // a list, and an empty list, where no list belongs
	if t.Name == "I" {
		out = append(out, c04Objects()...)
	} else {
		out = append(out, cvO("req", cvI(1)))
	}
	return out
}

// validLit: a valid literal for t different from anything in the menu (used as a variable default that must lose).
func validLit(t *world.T) string {
	switch t.K {
	case world.TNonNull:
		return validLit(t.Of)
	case world.TList:
		return "[" + validLit(t.Of) + "]"
	}
	switch t.Name {
	case "Int", "Int64":
		return "77"
	case "Float", "Float64":
		return "77.5"
	case "String", "ID":
		return "\"dd\""
	case "Boolean":
		return "false"
	case "E":
		return "BLUE"
	case "Time":
		return "\"2001-02-03T04:05:06Z\""
	}
	return "{req: 77}"
}

// validCV is the client value validLit spells.
func validCV(t *world.T) CV {
	switch t.K {
	case world.TNonNull:
		return validCV(t.Of)
	case world.TList:
		return cvL(validCV(t.Of))
	}
	switch t.Name {
	case "Int", "Int64":
		return cvI(77)
	case "Float", "Float64":
		return cvF(77.5)
	case "String", "ID":
		return cvS("dd")
	case "Boolean":
		return cvB(false)
	case "E":
		return cvE("BLUE")
	case "Time":
		return cvS("2001-02-03T04:05:06Z")
	}
	return cvO("req", cvI(77))
}

// validJSON: a valid variable value for t as a JSON decoder would deliver it, different from anything in the menu.
func validJSON(t *world.T) interface{} {
	switch t.K {
	case world.TNonNull:
		return validJSON(t.Of)
	case world.TList:
		return []interface{}{validJSON(t.Of)}
	}
	switch t.Name {
	case "Int", "Int64":
		return float64(77)
	case "Float", "Float64":
		return 77.5
	case "String", "ID":
		return "dd"
	case "Boolean":
		return false
	case "E":
		return "BLUE"
	case "Time":
		return "2001-02-03T04:05:06Z"
	}
	return map[string]interface{}{"req": float64(77)}
}

// ---- recording back ends

type c04Rec struct {
	invoked int
	args    map[string]interface{}
}

type c04RSRoot struct{ rec *c04Rec }
type c04RSQuery struct{ rec *c04Rec }

func (r *c04RSRoot) Resolve(field *ggql.Field, args map[string]interface{}) (interface{}, error) {
	return &c04RSQuery{r.rec}, nil
}
func (q *c04RSQuery) Resolve(field *ggql.Field, args map[string]interface{}) (interface{}, error) {
	q.rec.invoked++
	q.rec.args = args
	return "ok", nil
}

type c04Any struct{ rec *c04Rec }
type c04AnyRoot struct{}
type c04AnyQuery struct{}

func (a *c04Any) Resolve(obj interface{}, field *ggql.Field, args map[string]interface{}) (interface{}, error) {
	if _, ok := obj.(*c04AnyRoot); ok {
		return &c04AnyQuery{}, nil
	}
	a.rec.invoked++
	a.rec.args = args
	return "ok", nil
}
func (a *c04Any) Len(list interface{}) int                         { return 0 }
func (a *c04Any) Nth(list interface{}, i int) (interface{}, error) { return nil, nil }

type C04FSQuery struct{ xr *c04Rec }
type C04FSRoot struct{ Query *C04FSQuery }

func (q *C04FSQuery) Rec2(x interface{}, y interface{}) (interface{}, error) {
	q.xr.invoked++
	q.xr.args = map[string]interface{}{"x": x}
	return "ok", nil
}

func (q *C04FSQuery) Rec(x interface{}) (interface{}, error) {
	q.xr.invoked++
	q.xr.args = map[string]interface{}{"x": x}
	return "ok", nil
}

func c04Root(strat world.Strategy, sdl string) (*ggql.Root, *c04Rec) {
	rec := &c04Rec{}
	var root *ggql.Root
	switch strat {
	case world.RS:
		root = ggql.NewRoot(&c04RSRoot{rec})
	case world.AS:
		root = ggql.NewRoot(&c04AnyRoot{})
		root.AnyResolver = &c04Any{rec}
	case world.FS:
		root = ggql.NewRoot(&C04FSRoot{Query: &C04FSQuery{xr: rec}})
	}
	if err := root.ParseString(sdl); err != nil {
		panic(core.EngineError{Msg: "C04 schema rejected: " + err.Error()})
	}
	if strat == world.FS {
		if err := root.RegisterType(&C04FSQuery{}, "Query"); err != nil {
			panic(core.EngineError{Msg: err.Error()})
		}
		for bi := range c04Bases {
			for w := 0; w < c04NWrappers; w++ {
				if err := root.RegisterField("Query", fmt.Sprintf("f%d_%d", bi, w), "Rec"); err != nil {
					panic(core.EngineError{Msg: err.Error()})
				}
				if err := root.RegisterField("Query", fmt.Sprintf("d%d_%d", bi, w), "Rec2", "x", "y"); err != nil {
					panic(core.EngineError{Msg: err.Error()})
				}
			}
		}
	}
	return root, rec
}

type c04Case struct {
	Type     string                 `json:"type"`
	Value    string                 `json:"client_value"`
	Delivery string                 `json:"delivery"`
	Strategy string                 `json:"strategy"`
	Query    string                 `json:"query"`
	Vars     string                 `json:"vars"`
	Invoked  bool                   `json:"invoked"`
	Got      string                 `json:"resolver_got"`
	Errors   interface{}            `json:"errors"`
	Diff     string                 `json:"diff"`
	Raw      map[string]interface{} `json:"-"`
}

func valueClass(v CV) string {
	switch v.K {
	case cvNull:
		return "null"
	case cvBig:
		return "int-above-int64"
	case cvInt:
		if !inInt32(v.I) {
			return "int-out-of-32-bits"
		}
		return "int"
	case cvFloat:
		if math.Abs(v.F) > math.MaxFloat32 {
			return "float-out-of-float32"
		}
		if v.F == math.Trunc(v.F) {
			return "integral-float"
		}
		return "float"
	case cvStr:
		return "string"
	case cvBool:
		return "bool"
	case cvEnum:
		return "enum"
	case cvList:
		cls := map[string]bool{}
		for _, e := range v.L {
			cls[valueClass(e)] = true
		}
		ks := make([]string, 0, len(cls))
		for k := range cls {
			ks = append(ks, k)
		}
		sort.Strings(ks)
		return "list(" + strings.Join(ks, ",") + ")"
	}
	return "object"
}

func runC04(c *core.Ctx) {
	ggql.Relaxed = false
	sdl := c04SDL()
	strats := []world.Strategy{world.RS, world.AS, world.FS}
	var idx int64
	for bi, base := range c04Bases {
		for w := 0; w < c04NWrappers; w++ {
			t := c04Wrap(base, w)
			field := fmt.Sprintf("f%d_%d", bi, w)
			for _, v := range c04Values(t, c.Thorough()) {
				type delivery struct {
					name  string
					query string
					vars  map[string]interface{}
					ok    bool
					vt    *world.T // declared type of $v (prepared twins need a valid warm-up value of it); nil = no twin
					prep  bool     // resolve the parsed executable once with a valid warm-up value first, then with vars
				}
				// by name: "warm-root+..." = the root has already served a request that supplied a valid literal for this very
				// argument; "...argument-omitted" = the argument is not written at all (must be refused where the type is non-null)
				isWarm := func(d delivery) bool { return strings.HasPrefix(d.name, "warm-root+") }
				isOmit := func(d delivery) bool { return strings.HasSuffix(d.name, "argument-omitted") }
				var dels []delivery
				lit := v.Literal()
				dels = append(dels, delivery{"literal", fmt.Sprintf("{ %s(x: %s) }", field, lit), nil, true, nil, false})
				hasEnumLit := strings.Contains(lit, "RED") || strings.Contains(lit, "PURPLE")
				_ = hasEnumLit
				dels = append(dels, delivery{"variable-json", fmt.Sprintf("query Q($v: %s) { %s(x: $v) }", t, field), map[string]interface{}{"v": v.JSON()}, v.K != cvNull, t, false})
				for kind := 0; kind < 7; kind++ {
					if nv, ok := v.Native(kind); ok {
						dels = append(dels, delivery{fmt.Sprintf("variable-native-%T", nativeLeaf(nv)), fmt.Sprintf("query Q($v: %s) { %s(x: $v) }", t, field), map[string]interface{}{"v": nv}, true, nil, false})
					}
				}
				if v.K != cvNull {
					dels = append(dels, delivery{"variable-default", fmt.Sprintf("query Q($v: %s = %s) { %s(x: $v) }", t, lit, field), nil, true, nil, false})
					dels = append(dels, delivery{"variable-over-default", fmt.Sprintf("query Q($v: %s = %s) { %s(x: $v) }", t, validLit(t), field), map[string]interface{}{"v": v.JSON()}, true, t, false})
				}
				// variable nested in a list literal: [T...] with a one-element client list
				if lt := stripNN(t); lt.K == world.TList && v.K == cvList && len(v.L) == 1 && v.L[0].K != cvNull {
					dels = append(dels, delivery{"variable-in-list-literal", fmt.Sprintf("query Q($v: %s) { %s(x: [$v]) }", lt.Of, field), map[string]interface{}{"v": v.L[0].JSON()}, true, lt.Of, false})
					// two levels down: [[$v]]
					if it := stripNN(lt.Of); it.K == world.TList && v.L[0].K == cvList && len(v.L[0].L) == 1 && v.L[0].L[0].K != cvNull {
						dels = append(dels, delivery{"variable-in-list-of-list-literal", fmt.Sprintf("query Q($v: %s) { %s(x: [[$v]]) }", it.Of, field), map[string]interface{}{"v": v.L[0].L[0].JSON()}, true, it.Of, false})
					}
				}
				// variable nested in an input-object literal
				if bt := stripNN(t); bt.K == world.TNamed && bt.Name == "I" && v.K == cvObj {
					if rv, has := v.O["req"]; has && rv.K != cvNull {
						rest := CV{K: cvObj, O: map[string]CV{}}
						for k, e := range v.O {
							if k != "req" {
								rest.O[k] = e
							}
						}
						rl := rest.Literal()
						rl = "{req: $v" + map[bool]string{true: ", ", false: ""}[len(rest.O) > 0] + rl[1:]
						dels = append(dels, delivery{"variable-in-object-literal", fmt.Sprintf("query Q($v: Int!) { %s(x: %s) }", field, rl), map[string]interface{}{"v": rv.JSON()}, true, world.NN(world.N("Int")), false})
					}
					// two levels down: {nested: {req: $v}} and {list: [$v, ...]}
					if nv, has := v.O["nested"]; has && nv.K == cvObj {
						if rv, has := nv.O["req"]; has && rv.K != cvNull {
							inner := CV{K: cvObj, O: map[string]CV{}}
							for k, e := range nv.O {
								if k != "req" {
									inner.O[k] = e
								}
							}
							il := inner.Literal()
							il = "{req: $v" + map[bool]string{true: ", ", false: ""}[len(inner.O) > 0] + il[1:]
							outer := CV{K: cvObj, O: map[string]CV{}}
							for k, e := range v.O {
								if k != "nested" {
									outer.O[k] = e
								}
							}
							ol := outer.Literal()
							ol = "{nested: " + il + map[bool]string{true: ", ", false: ""}[len(outer.O) > 0] + ol[1:]
							dels = append(dels, delivery{"variable-in-nested-object-literal", fmt.Sprintf("query Q($v: Int!) { %s(x: %s) }", field, ol), map[string]interface{}{"v": rv.JSON()}, true, world.NN(world.N("Int")), false})
						}
					}
					if lv, has := v.O["list"]; has && lv.K == cvList && len(lv.L) > 0 && lv.L[0].K != cvNull {
						parts := []string{"$v"}
						for _, e := range lv.L[1:] {
							parts = append(parts, e.Literal())
						}
						outer := CV{K: cvObj, O: map[string]CV{}}
						for k, e := range v.O {
							if k != "list" {
								outer.O[k] = e
							}
						}
						ol := outer.Literal()
						ol = "{list: [" + strings.Join(parts, ", ") + "]" + map[bool]string{true: ", ", false: ""}[len(outer.O) > 0] + ol[1:]
						dels = append(dels, delivery{"variable-in-list-in-object-literal", fmt.Sprintf("query Q($v: Int!) { %s(x: %s) }", field, ol), map[string]interface{}{"v": lv.L[0].JSON()}, true, world.NN(world.N("Int")), false})
					}
				}
				// an unset variable (no value, no default) as the value of an input field that declares a default, inside an object
				// literal (directly, or as the one member of a list literal): the field counts as left out, its default applies
				{
					ov, wrapL := v, false
					if lt := stripNN(t); lt.K == world.TList && v.K == cvList && len(v.L) == 1 {
						ov, wrapL = v.L[0], true
					}
					bt := stripNN(t)
					if wrapL {
						bt = stripNN(bt.Of)
					}
					if _, has := ov.O["def"]; bt.K == world.TNamed && bt.Name == "I" && ov.K == cvObj && !has {
						inner := strings.TrimSuffix(strings.TrimPrefix(ov.Literal(), "{"), "}")
						if strings.TrimSpace(inner) != "" {
							inner += ", "
						}
						ol := "{" + inner + "def: $v}"
						if wrapL {
							ol = "[" + ol + "]"
						}
						dels = append(dels, delivery{"unset-variable-in-defaulted-field-of-object-literal", fmt.Sprintf("query Q($v: String) { %s(x: %s) }", field, ol), nil, true, nil, false})
					}
				}
				// a variable declared with the nullable version of the type, left unset or set to null, used where the
				// argument type is T: ggql does not validate variable usage, so only coercion at the argument can refuse it
				if v.K == cvNull {
					dels = append(dels, delivery{"variable-unset-declared-nullable", fmt.Sprintf("query Q($v: %s) { %s(x: $v) }", stripNN(t), field), nil, true, nil, false})
					dels = append(dels, delivery{"variable-null-declared-nullable", fmt.Sprintf("query Q($v: %s) { %s(x: $v) }", stripNN(t), field), map[string]interface{}{"v": nil}, true, stripNN(t), false})
				}
				// an unset variable as the null element of a list literal
				if lt := stripNN(t); lt.K == world.TList && v.K == cvList && len(v.L) == 2 && v.L[1].K == cvNull && v.L[0].K != cvNull && v.L[0].K != cvList && v.L[0].K != cvObj {
					dels = append(dels, delivery{"unset-variable-in-list-literal", fmt.Sprintf("query Q($v: %s) { %s(x: [%s, $v]) }", stripNN(lt.Of), field, v.L[0].Literal()), nil, true, stripNN(lt.Of), false})
				}
				// the argument left out altogether (once per type), and the same on a root that has just served a valid request for it
				if v.K == cvNull {
					dels = append(dels, delivery{name: "argument-omitted", query: fmt.Sprintf("{ %s }", field), ok: true})
					dels = append(dels, delivery{name: "warm-root+argument-omitted", query: fmt.Sprintf("{ %s }", field), ok: true})
				}
				// the argument declared with a default value (field d..): left out, left out next to another argument, and given an
				// unset variable - whatever the library does about the default, a resolver that runs gets the default or (nullable
				// types only) nothing, never a null in a non-null position
				if v.K == cvNull {
					dfield := "d" + field[1:]
					dels = append(dels, delivery{name: "default-declared+omitted", query: fmt.Sprintf("{ %s }", dfield), ok: true})
					dels = append(dels, delivery{name: "default-declared+omitted-beside-other", query: fmt.Sprintf("{ %s(y: 1) }", dfield), ok: true})
					dels = append(dels, delivery{name: "default-declared+unset-variable", query: fmt.Sprintf("query Q($v: %s) { %s(x: $v, y: 1) }", stripNN(t), dfield), ok: true})
					dels = append(dels, delivery{name: "default-declared+literal-null", query: fmt.Sprintf("{ %s(x: null) }", dfield), ok: true})
				}
				dels = append(dels, delivery{name: "warm-root+literal", query: fmt.Sprintf("{ %s(x: %s) }", field, lit), ok: true})
				// ggql.Relaxed = true (the package switch that lets JSON strings stand for enum values - what a JSON client has to
				// send): the same demands, a member is still a declared member
				if base == "E" || base == "I" {
					dels = append(dels, delivery{name: "relaxed+literal", query: fmt.Sprintf("{ %s(x: %s) }", field, lit), ok: true})
					dels = append(dels, delivery{"relaxed+variable-json", fmt.Sprintf("query Q($v: %s) { %s(x: $v) }", t, field), map[string]interface{}{"v": v.JSON()}, v.K != cvNull, t, false})
					if v.K != cvNull {
						dels = append(dels, delivery{"relaxed+variable-over-default", fmt.Sprintf("query Q($v: %s = %s) { %s(x: $v) }", t, validLit(t), field), map[string]interface{}{"v": v.JSON()}, true, t, false})
					}
				}
				// prepared twins: the same request as a parsed executable that was already resolved once with a valid value
				for _, dl := range append([]delivery{}, dels...) {
					if dl.vt != nil && dl.ok {
						dl.prep = true
						dl.name = "prepared+" + dl.name
						dels = append(dels, dl)
					}
				}
				mf0 := mustFail(t, v)
				for _, dl := range dels {
					mf := mf0
					if isOmit(dl) {
						mf = t.K == world.TNonNull
					}
					isDflt := strings.HasPrefix(dl.name, "default-declared+")
					if isDflt {
						mf = dl.name == "default-declared+literal-null" && t.K == world.TNonNull
					}
					if !dl.ok {
						continue
					}
					for _, st := range strats {
						idx++
						if !c.OwnsIdx(idx) {
							continue
						}
						if v.K != cvNull && (w > 0 || mf) {
							c.Nontrivial()
						}
						if mf {
							c.Count("expect_must_fail")
						}
						c.Eval()
						root, rec := c04Root(st, sdl)
						var res map[string]interface{}
						varsCopy := deepCopy(dl.vars)
						vm, _ := varsCopy.(map[string]interface{})
						pi := core.Safe(func() {
							if strings.Contains(dl.name, "relaxed+") {
								ggql.Relaxed = true
								defer func() { ggql.Relaxed = false }()
							}
							if isWarm(dl) {
								_ = root.ResolveString(fmt.Sprintf("{ %s(x: %s) }", field, validLit(t)), "", nil)
								rec.invoked, rec.args = 0, nil
							}
							if !dl.prep {
								res = root.ResolveString(dl.query, "", vm)
								return
							}
							exe, perr := root.ParseExecutableString(dl.query)
							if perr != nil {
								res = map[string]interface{}{"errors": ggql.FormErrorsResult(perr)}
								return
							}
							_, _ = root.ResolveExecutable(exe, "", map[string]interface{}{"v": validJSON(dl.vt)})
							rec.invoked, rec.args = 0, nil
							var rerr error
							if res, rerr = root.ResolveExecutable(exe, "", vm); res == nil {
								res = map[string]interface{}{"data": nil}
							}
							if rerr != nil {
								res["errors"] = ggql.FormErrorsResult(rerr)
							}
						})
						cs := c04Case{Type: t.String(), Value: lit, Delivery: dl.name, Strategy: st.String(), Query: dl.query, Vars: fmt.Sprintf("%#v", dl.vars)}
						attrs := map[string]string{"base": base, "wrapper": fmt.Sprint(w), "value": valueClass(v), "delivery": dl.name}
						if pi != nil {
							cs.Diff = pi.Value
							c.Outcome("panic")
							c.Violation("panic", map[string]string{"site": pi.Site, "class": pi.Class}, cs)
							continue
						}
						cs.Invoked = rec.invoked > 0
						cs.Errors = res["errors"]
						got, hasX := rec.args["x"]
						_ = hasX
						cs.Got = fmt.Sprintf("%#v", got)
						_, hasErr := res["errors"]
						if strings.HasPrefix(dl.name, "relaxed+literal") && mf && !mustFail(t, c04MembersForStrings(v, base == "E")) {
							// the only thing wrong with the value is a string that is no member of the enum (finding C04-F1)
							attrs["what"] = "relaxed-string-non-member"
						}
						switch {
						case mf && rec.invoked > 0:
							cs.Diff = "uncoercible value, but the resolver was invoked"
							c.Outcome("uncoercible-invoked")
							c.Violation("resolver-invoked", attrs, cs)
						case mf && !hasErr:
							cs.Diff = "uncoercible value, but no error"
							c.Outcome("uncoercible-no-error")
							c.Violation("missing-error", attrs, cs)
						case mf:
							c.Outcome("rejected-as-required")
						case rec.invoked == 0:
							c.Outcome("over-rejected(allowed)")
							c.Count("over_rejections")
						case isDflt && dl.name != "default-declared+literal-null":
							// the default, or nothing at all where null is a value of the type
							if s := conform(t, validCV(t), got); s != "" && !(got == nil && t.K != world.TNonNull) {
								cs.Diff = "argument declared with the default " + validLit(t) + " and not given: " + s
								c.Outcome("nonconforming")
								c.Violation("arg-nonconforming", attrs, cs)
							} else {
								c.Outcome("conforming")
							}
						case isOmit(dl):
							if got != nil {
								cs.Diff = fmt.Sprintf("the argument was not written, the resolver got %#v", got)
								c.Outcome("nonconforming")
								c.Violation("arg-nonconforming", attrs, cs)
							} else {
								c.Outcome("conforming")
							}
						default:
							if s := conform(t, v, got); s != "" {
								cs.Diff = s
								c.Outcome("nonconforming")
								c.Violation("arg-nonconforming", attrs, cs)
							} else {
								c.Outcome("conforming")
							}
						}
						c.Sample(func() interface{} { return cs })
					}
				}
			}
		}
	}
	c04Growth(c, sdl, strats)
	c04RefusedGrowth(c, sdl, strats)
	c04RegisteredStruct(c)
	c.R.Bound = "complete product (10 bases x 7 wrappers x value menu x deliveries x 3 strategies); input type extended by a later load (3 extensions x cold / warm root x 4 deliveries x 3 strategies)"
}

// c04Growth: the input type I gains fields through a later load ("extend input I {...}") on a root that has (warm) or has not
// (cold) coerced a value of I before. From then on a value that leaves a new required field out is refused and the resolver
// not invoked; a new defaulted field left out arrives filled in.
func c04Growth(c *core.Ctx, sdl string, strats []world.Strategy) {
	bi := -1
	for i, b := range c04Bases {
		if b == "I" {
			bi = i
		}
	}
	exts := []struct {
		name, sdl string
		required  bool
	}{
		{"required-field", "extend input I { extra: Int! }\n", true},
		{"defaulted-field", "extend input I { extra: Int = 7 }\n", false},
		{"required-and-defaulted", "extend input I { more: String = \"m\" extra: Int = 7 must: Boolean! }\n", true},
	}
	dels := []struct {
		name, query string
		vars        map[string]interface{}
	}{
		{"literal", "{ f%d_0(x: {req: 2}) }", nil},
		{"literal-in-list", "{ f%d_2(x: [{req: 2}]) }", nil},
		{"variable-json", "query Q($v: I) { f%d_0(x: $v) }", map[string]interface{}{"v": map[string]interface{}{"req": 2.0}}},
		{"variable-default", "query Q($v: I = {req: 2}) { f%d_0(x: $v) }", nil},
	}
	var idx int64
	for _, st := range strats {
		for _, ext := range exts {
			for _, warm := range []bool{false, true} {
				for _, dl := range dels {
					idx++
					if !c.OwnsIdx(1<<40 + idx) {
						continue
					}
					c.Eval()
					c.Nontrivial()
					root, rec := c04Root(st, sdl)
					query := fmt.Sprintf(dl.query, bi)
					var res map[string]interface{}
					var lerr error
					pi := core.Safe(func() {
						if warm {
							_ = root.ResolveString(query, "", deepCopyVars(dl.vars))
							_ = root.ResolveString(fmt.Sprintf("{ f%d_0(x: {req: 1, def: \"s\"}) }", bi), "", nil)
						}
						if lerr = root.ParseString(ext.sdl); lerr != nil {
							return
						}
						rec.invoked, rec.args = 0, nil
						res = root.ResolveString(query, "", deepCopyVars(dl.vars))
					})
					cs := c04Case{Type: "I + " + strings.TrimSpace(ext.sdl), Value: "{req: 2}", Delivery: dl.name + map[bool]string{true: "+warm-root", false: "+cold-root"}[warm], Strategy: st.String(), Query: query, Vars: fmt.Sprintf("%#v", dl.vars)}
					attrs := map[string]string{"base": "I", "wrapper": "growth:" + ext.name, "value": "object", "delivery": cs.Delivery}
					switch {
					case pi != nil:
						cs.Diff = pi.Value
						c.Violation("panic", map[string]string{"site": pi.Site, "class": pi.Class}, cs)
						continue
					case lerr != nil:
						panic(core.EngineError{Msg: "C04 growth: extension refused: " + lerr.Error()})
					}
					cs.Invoked, cs.Errors = rec.invoked > 0, res["errors"]
					got := rec.args["x"]
					if l, ok := got.([]interface{}); ok && len(l) == 1 {
						got = l[0]
					}
					cs.Got = fmt.Sprintf("%#v", got)
					_, hasErr := res["errors"]
					switch {
					case ext.required && rec.invoked > 0:
						cs.Diff = "a required field added by the later load is missing, but the resolver was invoked"
						c.Outcome("uncoercible-invoked")
						c.Violation("resolver-invoked", attrs, cs)
					case ext.required && !hasErr:
						cs.Diff = "a required field added by the later load is missing, but no error"
						c.Violation("missing-error", attrs, cs)
					case ext.required:
						c.Outcome("rejected-as-required")
					case rec.invoked == 0:
						c.Outcome("over-rejected(allowed)")
					default:
						m, _ := got.(map[string]interface{})
						n, isInt := asInt64(m["extra"])
						if m == nil || !isInt || n != 7 || m["def"] != "dflt" {
							cs.Diff = "the defaulted field added by the later load (extra: Int = 7) is not filled in"
							c.Outcome("nonconforming")
							c.Violation("arg-nonconforming", attrs, cs)
						} else {
							c.Outcome("conforming")
						}
					}
				}
			}
		}
	}
}

func stripNN(t *world.T) *world.T {
	if t.K == world.TNonNull {
		return t.Of
	}
	return t
}

func nativeLeaf(v interface{}) interface{} {
	if l, ok := v.([]interface{}); ok {
		for _, e := range l {
			if _, isF := e.(float64); !isF {
				if e != nil {
					return nativeLeaf(e)
				}
			}
		}
		if len(l) > 0 {
			return l[0]
		}
	}
	return v
}

func deepCopy(v interface{}) interface{} {
	switch tv := v.(type) {
	case map[string]interface{}:
		if tv == nil {
			return map[string]interface{}(nil)
		}
		out := make(map[string]interface{}, len(tv))
		for k, e := range tv {
			out[k] = deepCopy(e)
		}
		return out
	case []interface{}:
		out := make([]interface{}, len(tv))
		for i, e := range tv {
			out[i] = deepCopy(e)
		}
		return out
	}
	return v
}

func deepCopyVars(v map[string]interface{}) map[string]interface{} {
	if v == nil {
		return nil
	}
	m, _ := deepCopy(v).(map[string]interface{})
	return m
}

// c04RefusedGrowth: a later load that extends the enum E and the input type I and is then REFUSED (a failure behind the extend
// blocks) declares nothing: values and fields it would have added are still undeclared, and no default it would have added is
// filled in - literal, JSON variable and variable default, on a cold and on a warm root.
func c04RefusedGrowth(c *core.Ctx, sdl string, strats []world.Strategy) {
	bi, ei := -1, -1
	for i, b := range c04Bases {
		switch b {
		case "I":
			bi = i
		case "E":
			ei = i
		}
	}
	refused := []struct{ name, sdl string }{
		{"fails-in-a-later-extend", "extend enum E { PURPLE }\nextend input I { extra: Int = 7 deep: Boolean = true }\nextend type Nowhere { a: Int }\n"},
		{"fails-validation", "extend enum E { PURPLE }\nextend input I { extra: Int = 7 deep: Boolean = true }\ntype __Reserved { a: Int }\n"},
		{"fails-in-the-same-kind", "extend input I { extra: Int = 7 deep: Boolean = true }\nextend enum E { PURPLE }\nextend enum E { RED }\nextend input I { req: Int }\n"},
	}
	reqs := []struct {
		name, query string
		vars        map[string]interface{}
		ghost       bool // uses something only the refused load declares: must be rejected
		field       int
	}{
		{"declared-object-literal", "{ f%d_0(x: {req: 2}) }", nil, false, bi},
		{"declared-object-variable", "query Q($v: I) { f%d_0(x: $v) }", map[string]interface{}{"v": map[string]interface{}{"req": 2.0}}, false, bi},
		{"ghost-field-literal", "{ f%d_0(x: {req: 2, extra: 3}) }", nil, true, bi},
		{"ghost-field-variable", "query Q($v: I) { f%d_0(x: $v) }", map[string]interface{}{"v": map[string]interface{}{"req": 2.0, "deep": false}}, true, bi},
		{"ghost-field-variable-default", "query Q($v: I = {req: 2, extra: 1}) { f%d_0(x: $v) }", nil, true, bi},
		{"ghost-enum-literal", "{ f%d_0(x: PURPLE) }", nil, true, ei},
		{"ghost-enum-variable", "query Q($v: E) { f%d_0(x: $v) }", map[string]interface{}{"v": "PURPLE"}, true, ei},
		{"ghost-enum-variable-default", "query Q($v: E = PURPLE) { f%d_0(x: $v) }", nil, true, ei},
		{"ghost-enum-in-object", "{ f%d_0(x: {req: 2, en: PURPLE}) }", nil, true, bi},
		{"declared-enum-literal", "{ f%d_0(x: GREEN) }", nil, false, ei},
	}
	var idx int64
	for _, st := range strats {
		for _, rf := range refused {
			for _, warm := range []bool{false, true} {
				for _, rq := range reqs {
					idx++
					if !c.OwnsIdx(1<<41 + idx) {
						continue
					}
					c.Eval()
					c.Nontrivial()
					root, rec := c04Root(st, sdl)
					query := fmt.Sprintf(rq.query, rq.field)
					var res map[string]interface{}
					var lerr error
					pi := core.Safe(func() {
						if warm {
							_ = root.ResolveString(fmt.Sprintf("{ f%d_0(x: {req: 1, def: \"s\", en: RED}) }", bi), "", nil)
						}
						lerr = root.ParseString(rf.sdl)
						rec.invoked, rec.args = 0, nil
						res = root.ResolveString(query, "", deepCopyVars(rq.vars))
					})
					cs := c04Case{Type: "after the refused load: " + strings.TrimSpace(rf.sdl), Value: rq.name, Delivery: rq.name + map[bool]string{true: "+warm-root", false: "+cold-root"}[warm], Strategy: st.String(), Query: query, Vars: fmt.Sprintf("%#v", rq.vars)}
					attrs := map[string]string{"base": c04Bases[rq.field], "wrapper": "refused-growth:" + rf.name, "value": rq.name, "delivery": map[bool]string{true: "warm-root", false: "cold-root"}[warm]}
					switch {
					case pi != nil:
						cs.Diff = pi.Value
						c.Violation("panic", map[string]string{"site": pi.Site, "class": pi.Class}, cs)
						continue
					case lerr == nil:
						panic(core.EngineError{Msg: "C04 refused growth: the load was accepted: " + rf.sdl})
					}
					cs.Invoked, cs.Errors = rec.invoked > 0, res["errors"]
					got := rec.args["x"]
					cs.Got = fmt.Sprintf("%#v", got)
					_, hasErr := res["errors"]
					switch {
					case rq.ghost && rec.invoked > 0:
						cs.Diff = "a value / field only the refused load declares reached the resolver"
						c.Outcome("uncoercible-invoked")
						c.Violation("resolver-invoked", attrs, cs)
					case rq.ghost && !hasErr:
						cs.Diff = "a value / field only the refused load declares gave no error"
						c.Violation("missing-error", attrs, cs)
					case rq.ghost:
						c.Outcome("rejected-as-required")
					case rec.invoked == 0:
						c.Outcome("over-rejected(allowed)")
					case rq.field == bi:
						m, _ := got.(map[string]interface{})
						n, isInt := asInt64(m["req"])
						_, hasExtra := m["extra"]
						_, hasDeep := m["deep"]
						if m == nil || !isInt || n != 2 || m["def"] != "dflt" || hasExtra || hasDeep {
							cs.Diff = "the input object is not {req: 2, def: \"dflt\"}: a default of the refused load was filled in, or a declared one was not"
							c.Outcome("nonconforming")
							c.Violation("arg-nonconforming", attrs, cs)
						} else {
							c.Outcome("conforming")
						}
					default:
						if fmt.Sprint(got) != "GREEN" {
							cs.Diff = "the enum value is not GREEN"
							c.Outcome("nonconforming")
							c.Violation("arg-nonconforming", attrs, cs)
						} else {
							c.Outcome("conforming")
						}
					}
				}
			}
		}
	}
}

// c04MembersForStrings is v with every string that stands where an enum value belongs (everywhere for the base E; under the key
// "en" for the base I) replaced by a member of the enum.
func c04MembersForStrings(v CV, enumPos bool) CV {
	switch v.K {
	case cvStr:
		if enumPos {
			return cvE("RED")
		}
	case cvList:
		out := CV{K: cvList}
		for _, e := range v.L {
			out.L = append(out.L, c04MembersForStrings(e, enumPos))
		}
		return out
	case cvObj:
		out := CV{K: cvObj, O: map[string]CV{}}
		for k, e := range v.O {
			out.O[k] = c04MembersForStrings(e, k == "en")
		}
		return out
	}
	return v
}

// ---- an input type bound to a Go STRUCT (RegisterType): the value reaches a reflected method as that struct. Every numeric field
// is given numbers around the limits of its Go type; a resolver that runs must find the number the client wrote in the field - a
// number the Go type cannot hold is an error, not another number.

type C04Reg struct {
	Req    int32
	Def    string
	List   []int32
	Nested *C04Reg
	Fl     float64
	Small  int8
	Tiny   uint8
	Mid    int16
	Wide   int64
	Word   uint32
	F32    float32
}
type C04RegQuery struct{ got *C04Reg }
type c04RegRoot struct{ Query *C04RegQuery }

func (q *C04RegQuery) F(x *C04Reg) string { q.got = x; return "ok" }

func c04RegisteredStruct(c *core.Ctx) {
	const sdl = "input R { req: Int! def: String = \"dflt\" list: [Int!] nested: R fl: Float small: Int tiny: Int mid: Int wide: Int64 word: Int64 f32: Float }\ntype Query { f(x: R): String }\n"
	ints := []int64{0, 1, -1, 127, 128, -128, -129, 255, 256, 300, 32767, 32768, -32769, 65536, math.MaxInt32, math.MinInt32, 4294967295, 4294967296, 1 << 40, -(1 << 40)}
	floats := []string{"1.5", "0.1", "3.5e38", "-3.5e38", "1e39", "1e-50", "16777217"}
	type cse struct {
		field string
		lit   string
		json  interface{}
		want  float64
	}
	var cases []cse
	for _, f := range []string{"req", "small", "tiny", "mid", "wide", "word", "fl", "f32"} {
		for _, n := range ints {
			if (f != "wide" && f != "word") && (n > math.MaxInt32 || n < math.MinInt32) {
				continue // not an Int: refused by the scalar before the struct is looked at (the main product covers that)
			}
			cases = append(cases, cse{f, fmt.Sprint(n), float64(n), float64(n)})
		}
	}
	for _, f := range []string{"fl", "f32"} {
		for _, t := range floats {
			v, _ := strconv.ParseFloat(t, 64)
			cases = append(cases, cse{f, t, v, v})
		}
	}
	fieldOf := func(r *C04Reg, f string) float64 {
		switch f {
		case "req":
			return float64(r.Req)
		case "small":
			return float64(r.Small)
		case "tiny":
			return float64(r.Tiny)
		case "mid":
			return float64(r.Mid)
		case "wide":
			return float64(r.Wide)
		case "word":
			return float64(r.Word)
		case "fl":
			return r.Fl
		}
		return float64(r.F32)
	}
	for ci, cs0 := range cases {
		for di, del := range []string{"literal", "variable-json", "variable-default", "nested-literal", "in-list-literal"} {
			if !c.OwnsIdx(1<<43 + int64(ci*8+di)) {
				continue
			}
			if del == "in-list-literal" && cs0.field != "req" {
				continue
			}
			c.Eval()
			c.Nontrivial()
			obj := "{req: 1, " + cs0.field + ": " + cs0.lit + "}"
			jobj := map[string]interface{}{"req": 1.0, cs0.field: cs0.json}
			if cs0.field == "req" {
				obj, jobj = "{req: "+cs0.lit+"}", map[string]interface{}{"req": cs0.json}
			}
			query, vars := "", map[string]interface{}(nil)
			look := func(r *C04Reg) (float64, bool) { return fieldOf(r, cs0.field), true }
			switch del {
			case "literal":
				query = "{ f(x: " + obj + ") }"
			case "variable-json":
				query, vars = "query Q($v: R) { f(x: $v) }", map[string]interface{}{"v": jobj}
			case "variable-default":
				query = "query Q($v: R = " + obj + ") { f(x: $v) }"
			case "nested-literal":
				query = "{ f(x: {req: 7, nested: " + obj + "}) }"
				look = func(r *C04Reg) (float64, bool) {
					if r.Nested == nil {
						return 0, false
					}
					return fieldOf(r.Nested, cs0.field), true
				}
			case "in-list-literal":
				query = "{ f(x: {req: 7, list: [1, " + cs0.lit + "]}) }"
				look = func(r *C04Reg) (float64, bool) {
					if len(r.List) != 2 || r.List[0] != 1 {
						return 0, false
					}
					return float64(r.List[1]), true
				}
			}
			q := &C04RegQuery{}
			root := ggql.NewRoot(&c04RegRoot{Query: q})
			if err := root.ParseString(sdl); err != nil {
				panic(core.EngineError{Msg: "C04 registered-struct schema refused: " + err.Error()})
			}
			if err := root.RegisterType(&C04Reg{}, "R"); err != nil {
				panic(core.EngineError{Msg: "C04 registered-struct registration refused: " + err.Error()})
			}
			var res map[string]interface{}
			pi := core.Safe(func() { res = root.ResolveString(query, "", deepCopyVars(vars)) })
			cs := c04Case{Type: "R bound to the Go struct C04Reg, field " + cs0.field, Value: cs0.lit, Delivery: del, Strategy: "FS", Query: query, Vars: fmt.Sprintf("%#v", vars)}
			attrs := map[string]string{"base": "registered-struct", "wrapper": cs0.field, "value": "number", "delivery": del}
			switch {
			case pi != nil:
				cs.Diff = pi.Value
				c.Violation("panic", map[string]string{"site": pi.Site, "class": pi.Class}, cs)
			case q.got == nil:
				if res["errors"] == nil {
					cs.Diff = "the resolver did not run and there is no error"
					c.Violation("missing-error", attrs, cs)
				} else {
					c.Outcome("over-rejected(allowed)")
				}
			default:
				cs.Invoked, cs.Got = true, fmt.Sprintf("%+v", *q.got)
				got, ok := look(q.got)
				// the scalar Float is 32 bits wide in ggql (Float64 is the wide one): both Float fields hold the nearest float32 of
				// the client's number, whatever the width of the Go field; a number beyond that range is no Float
				want := cs0.want
				if cs0.field == "f32" || cs0.field == "fl" {
					want = float64(float32(want))
				}
				if !ok || got != want || math.IsInf(got, 0) {
					cs.Diff = fmt.Sprintf("client wrote %s for %s, the struct holds %v", cs0.lit, cs0.field, got)
					c.Outcome("nonconforming")
					c.Violation("arg-nonconforming", attrs, cs)
				} else {
					c.Outcome("conforming")
				}
			}
		}
	}
}
