package core

import (
	"encoding/binary"
	"os"
	"syscall"
)

// The worker publishes the case it is about to run by a store into a small file-backed shared mapping
// (no system call per case). If the worker hangs or dies the driver reads it back: the announced case is
// the observation.

const annSize = 8192

var annBuf []byte

// InitAnnounce maps the file at path (created by the driver).
func InitAnnounce(path string) {
	f, err := os.OpenFile(path, os.O_RDWR, 0o644)
	if err != nil {
		return
	}
	defer f.Close()
	if b, err := syscall.Mmap(int(f.Fd()), 0, annSize, syscall.PROT_READ|syscall.PROT_WRITE, syscall.MAP_SHARED); err == nil {
		annBuf = b
	}
}

// Announce records what is about to be executed.
func Announce(s string) {
	if annBuf == nil {
		return
	}
	n := copy(annBuf[8:], s)
	binary.LittleEndian.PutUint32(annBuf, uint32(n))
}

// NewAnnounceFile creates an empty announce file.
func NewAnnounceFile(path string) error {
	return os.WriteFile(path, make([]byte, annSize), 0o644)
}

// ReadAnnounce returns the last announcement stored in the file.
func ReadAnnounce(path string) string {
	b, err := os.ReadFile(path)
	if err != nil || len(b) < 8 {
		return ""
	}
	n := int(binary.LittleEndian.Uint32(b))
	if n > len(b)-8 {
		n = len(b) - 8
	}
	return string(b[8 : 8+n])
}
