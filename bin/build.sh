#!/bin/bash
# Builds the harness against $VERIF_REPO's current working tree (default /repo):
#   build/vcheck  - every check; pkg/ggql compiled through the overlay (sync -> scheduler shim)
#   build/vrace   - free-running race pass (no overlay, real sync, -race)        [only with RACE=1]
source "$(dirname "$0")/env.sh"
cd "$VERIF_DIR/mc" || exit 2
MODFILE="$VERIF_DIR/build/go.mod"
exec 9>"$VERIF_DIR/build/.lock"; flock 9
sed "s#=> /repo#=> $VERIF_REPO#" go.mod > "$MODFILE"
[ -f go.sum ] && cp go.sum "$VERIF_DIR/build/go.sum"
python3 "$VERIF_DIR/bin/mkoverlay.py" || exit 2
go build -modfile="$MODFILE" -overlay "$VERIF_DIR/build/overlay.json" -tags vsched -o "$VERIF_DIR/build/vcheck" ./cmd/vcheck || exit 2
if [ "${RACE:-1}" = "1" ]; then
  go build -modfile="$MODFILE" -race -o "$VERIF_DIR/build/vrace" ./cmd/vrace || exit 2
fi
