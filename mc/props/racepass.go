//go:build vsched

package props

import (
	"bytes"
	"os/exec"
	"path/filepath"
	"regexp"
	"sort"
	"strings"
	"time"

	"verif/mc/core"
)

var raceFuncRe = regexp.MustCompile(`(?m)^\s+(github\.com/uhn/ggql/pkg/ggql\.\S+?)\(\)\s*$`)

// racePass runs the free-running -race binary (build/vrace) and turns every race report into a violation
// keyed by the unordered pair of the innermost pkg/ggql functions of the two accesses.
func racePass(c *core.Ctx, mode string) {
	bin := filepath.Join(verifDirProps(), "build", "vrace")
	reps := "150"
	if c.Thorough() {
		reps = "1500"
	}
	cmd := exec.Command(bin, mode, reps)
	cmd.Env = append(cmd.Environ(), "GOMAXPROCS=16", "GORACE=halt_on_error=0 history_size=4")
	var out bytes.Buffer
	cmd.Stdout, cmd.Stderr = &out, &out
	start := time.Now()
	err := cmd.Run()
	text := out.String()
	if !strings.Contains(text, "RACEPASS "+mode) && !strings.Contains(text, "DATA RACE") {
		c.Note("race pass did not run: " + strings.TrimSpace(text) + " " + errString(err))
		c.Cap("race pass unavailable (build/vrace missing or failed): the data-race conjunct was not checked in this run")
		return
	}
	for _, line := range strings.Split(text, "\n") {
		if strings.HasPrefix(line, "RACEPASS") {
			c.Note(line + " wall=" + time.Since(start).Round(time.Millisecond).String() + " (sampling; complements the exhaustive schedule exploration)")
		}
	}
	reports := strings.Split(text, "WARNING: DATA RACE")
	for _, rep := range reports[1:] {
		fns := raceFuncRe.FindAllStringSubmatch(rep, -1)
		var top []string
		seen := map[string]bool{}
		for _, f := range fns {
			name := strings.TrimPrefix(f[1], "github.com/uhn/ggql/pkg/ggql.")
			if !seen[name] {
				seen[name] = true
				top = append(top, name)
			}
			if len(top) == 2 {
				break
			}
		}
		sort.Strings(top)
		if len(rep) > 3000 {
			rep = rep[:3000]
		}
		c.Violation("race", map[string]string{"functions": strings.Join(top, " ~ "), "pass": mode}, map[string]interface{}{"report": rep})
	}
	c.CountN("race_reports", int64(len(reports)-1))
}

func errString(err error) string {
	if err == nil {
		return ""
	}
	return err.Error()
}
