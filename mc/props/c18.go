package props

import (
	"bytes"
	"encoding/json"
	"fmt"
	"math"
	"reflect"
	"strings"
	"time"
	"unicode/utf8"

	"github.com/uhn/ggql/pkg/ggql"

	"verif/mc/core"
)

// C18 — value text formats round-trip; the JSON writer emits valid JSON.
//
// Three complete enumerations (DESIGN 5.18): A1 all value trees up to N nodes
// over leaf classes x indent x Sort x format; A2 all strings up to 3 runes
// over a nasty alphabet in three placements (+ map keys); A3 a number set.

func init() {
	Register(&Check{
		ID:  "C18",
		Run: runC18,
		Rule: "A1: every value tree with <= N nodes (leaf classes int/float/string/bool/null/Symbol/Var, lists, maps keyed a,b,c; leaves numbered so reordering shows) x indent {-1,0,2} x Sort {on,off} x {SDL,JSON}; " +
			"A2: every string of <= 3 runes over a 20-rune alphabet x placement {top, list element, map value, map key}; A3: number set. " +
			"distinct = distinct (value,indent,sort,format) cases; non-trivial = value has >= 2 nodes or a string needing an escape",
		Technique:      "bounded-exhaustive enumeration of inputs against the real writer/parser with encoding/json and a structural-equality reference",
		Assumptions:    []string{"encoding/json is a correct JSON parser", "ggql.Sort is only changed by the single-threaded worker"},
		QuickBudget:    90 * time.Second,
		ThoroughBudget: 20 * time.Minute,
		Replay:         replayC18,
	})
}

type vgen struct {
	memo map[int][]interface{}
}

type leafClass int

const (
	lcInt leafClass = iota
	lcFloat
	lcString
	lcBool
	lcNull
	lcSym
	lcVar
)

func (g *vgen) treesMemo(n int) []interface{} {
	if t, ok := g.memo[n]; ok {
		return t
	}
	var out []interface{}
	g.trees(n, func(v interface{}) { out = append(out, v) })
	g.memo[n] = out
	return out
}

func (g *vgen) trees(n int, emit func(v interface{})) {
	if n == 1 {
		for c := lcInt; c <= lcVar; c++ {
			emit(c)
		}
	}
	g.forests(n-1, func(f []interface{}) {
		l := make([]interface{}, len(f))
		copy(l, f)
		emit(l)
	})
	g.forests(n-1, func(f []interface{}) {
		if len(f) > 3 {
			return
		}
		m := map[string]interface{}{}
		for i, v := range f {
			m[string(rune('a'+i))] = v
		}
		emit(m)
	})
}

func (g *vgen) forests(n int, emit func(f []interface{})) {
	if n == 0 {
		emit(nil)
		return
	}
	for k := 1; k <= n; k++ {
		each := func(t interface{}) {
			g.forests(n-k, func(rest []interface{}) {
				f := make([]interface{}, 0, 1+len(rest))
				f = append(f, t)
				f = append(f, rest...)
				emit(f)
			})
		}
		if k <= 5 {
			for _, t := range g.treesMemo(k) {
				each(t)
			}
		} else {
			g.trees(k, each)
		}
	}
}

// concretize copies a class tree into a real value, numbering the leaves.
func concretize(v interface{}, ctr *int) interface{} {
	switch tv := v.(type) {
	case leafClass:
		*ctr++
		k := *ctr
		switch tv {
		case lcInt:
			return int64(k)
		case lcFloat:
			return float64(k) + 0.5
		case lcString:
			return fmt.Sprintf("s%d", k)
		case lcBool:
			return k%2 == 0
		case lcNull:
			return nil
		case lcSym:
			return ggql.Symbol(fmt.Sprintf("E%d", k))
		default:
			return ggql.Var(fmt.Sprintf("v%d", k))
		}
	case []interface{}:
		l := make([]interface{}, len(tv))
		for i, e := range tv {
			l[i] = concretize(e, ctr)
		}
		return l
	case map[string]interface{}:
		m := make(map[string]interface{}, len(tv))
		for _, k := range []string{"a", "b", "c"} {
			if e, ok := tv[k]; ok {
				m[k] = concretize(e, ctr)
			}
		}
		return m
	}
	panic("concretize")
}

// jsonProjection: Symbol/Var as strings, invalid UTF-8 as U+FFFD.
func jsonProjection(v interface{}) interface{} {
	switch tv := v.(type) {
	case ggql.Symbol:
		return string(tv)
	case ggql.Var:
		return "$" + string(tv)
	case string:
		return toValidEach(tv)
	case []interface{}:
		l := make([]interface{}, len(tv))
		for i, e := range tv {
			l[i] = jsonProjection(e)
		}
		return l
	case map[string]interface{}:
		m := make(map[string]interface{}, len(tv))
		for k, e := range tv {
			m[toValidEach(k)] = jsonProjection(e)
		}
		return m
	}
	return v
}

// toValidEach replaces every invalid byte by U+FFFD (what ranging over a Go string yields).
func toValidEach(s string) string {
	if utf8.ValidString(s) {
		return s
	}
	var b strings.Builder
	for _, r := range s {
		b.WriteRune(r)
	}
	return b.String()
}

// valEqual compares parsed values: integers as int64, floats as float64.
func valEqual(a, b interface{}) bool {
	switch ta := a.(type) {
	case nil:
		return b == nil
	case []interface{}:
		tb, ok := b.([]interface{})
		if !ok || len(ta) != len(tb) {
			return false
		}
		for i := range ta {
			if !valEqual(ta[i], tb[i]) {
				return false
			}
		}
		return true
	case map[string]interface{}:
		tb, ok := b.(map[string]interface{})
		if !ok || len(ta) != len(tb) {
			return false
		}
		for k, v := range ta {
			w, has := tb[k]
			if !has || !valEqual(v, w) {
				return false
			}
		}
		return true
	case float64:
		tb, ok := b.(float64)
		return ok && (ta == tb || (math.IsNaN(ta) && math.IsNaN(tb)))
	default:
		return reflect.DeepEqual(a, b)
	}
}

// jsonDecodedEqual compares an encoding/json decoded value (UseNumber) with the projection.
func jsonDecodedEqual(dec, want interface{}) bool {
	switch tw := want.(type) {
	case nil:
		return dec == nil
	case int64:
		n, ok := dec.(json.Number)
		if !ok {
			return false
		}
		i, err := n.Int64()
		return err == nil && i == tw
	case float64:
		n, ok := dec.(json.Number)
		if !ok {
			return false
		}
		f, err := n.Float64()
		return err == nil && f == tw
	case string:
		s, ok := dec.(string)
		return ok && s == tw
	case bool:
		b, ok := dec.(bool)
		return ok && b == tw
	case []interface{}:
		l, ok := dec.([]interface{})
		if !ok || len(l) != len(tw) {
			return false
		}
		for i := range l {
			if !jsonDecodedEqual(l[i], tw[i]) {
				return false
			}
		}
		return true
	case map[string]interface{}:
		m, ok := dec.(map[string]interface{})
		if !ok || len(m) != len(tw) {
			return false
		}
		for k, v := range tw {
			d, has := m[k]
			if !has || !jsonDecodedEqual(d, v) {
				return false
			}
		}
		return true
	}
	return false
}

type c18Case struct {
	Value  string `json:"value_go"` // %#v of the value
	JSONIn string `json:"value_json,omitempty"`
	Indent int    `json:"indent"`
	Sort   bool   `json:"sort"`
	Format string `json:"format"`
	Text   string `json:"text"`
	Got    string `json:"got,omitempty"`
	Err    string `json:"err,omitempty"`
	Where  string `json:"where"`
}

func strClass(s string) string {
	if !utf8.ValidString(s) {
		return "invalid-utf8"
	}
	cls := "plain"
	for _, r := range s {
		switch {
		case r == 0:
			return "nul"
		case r < 0x20:
			cls = "control"
		case r == '"' || r == '\\':
			if cls == "plain" {
				cls = "quote-backslash"
			}
		case r > 0x7f:
			if cls == "plain" {
				cls = "non-ascii"
			}
		}
	}
	return cls
}

// check18 runs one (value, indent, sort, format) case. site names where a special string sits (for findings).
func check18(c *core.Ctx, v interface{}, indent int, srt bool, sdl bool, site, sclass string) {
	ggql.Sort = srt
	c.Eval()
	var buf bytes.Buffer
	format := "JSON"
	var werr error
	pi := core.Safe(func() {
		if sdl {
			format = "SDL"
			werr = ggql.WriteSDLValue(&buf, v, indent)
		} else {
			werr = ggql.WriteJSONValue(&buf, v, indent)
		}
	})
	mk := func(where, got, err string) c18Case {
		return c18Case{Value: fmt.Sprintf("%#v", v), Indent: indent, Sort: srt, Format: format, Text: buf.String(), Got: got, Err: err, Where: where}
	}
	attrs := func(where string) map[string]string {
		return map[string]string{"format": format, "where": where, "site": site, "strclass": sclass, "indent": fmt.Sprint(sign(indent))}
	}
	if pi != nil {
		c.Violation("panic", map[string]string{"site": pi.Site, "class": pi.Class}, mk("write", "", pi.Value))
		return
	}
	if werr != nil {
		c.Violation("write-error", attrs("write"), mk("write", "", werr.Error()))
		return
	}
	text := buf.String()
	if sdl {
		var back interface{}
		var perr error
		if pi := core.Safe(func() { back, perr = ggql.ParseValueString(text) }); pi != nil {
			c.Violation("panic", map[string]string{"site": pi.Site, "class": pi.Class}, mk("parse", "", pi.Value))
			return
		}
		if perr != nil {
			c.Outcome("sdl-parse-error")
			c.Violation("roundtrip", attrs("sdl-parse-error"), mk("sdl-parse", "", perr.Error()))
			return
		}
		if !valEqual(back, v) {
			c.Outcome("sdl-differs")
			c.Violation("roundtrip", attrs("sdl-differs"), mk("sdl-compare", fmt.Sprintf("%#v", back), ""))
			return
		}
		c.Outcome("sdl-ok")
		return
	}
	want := jsonProjection(v)
	dec := json.NewDecoder(strings.NewReader(text))
	dec.UseNumber()
	var d interface{}
	if err := dec.Decode(&d); err != nil {
		c.Outcome("json-invalid")
		c.Violation("invalid-json", attrs("json-invalid"), mk("encoding/json", "", err.Error()))
		return
	}
	if dec.More() {
		c.Violation("invalid-json", attrs("json-trailing"), mk("encoding/json", "", "trailing data"))
		return
	}
	if !jsonDecodedEqual(d, want) {
		c.Outcome("json-differs")
		c.Violation("roundtrip", attrs("json-differs"), mk("json-compare", fmt.Sprintf("%#v", d), ""))
		return
	}
	var back interface{}
	var perr error
	if pi := core.Safe(func() { back, perr = ggql.ParseValueString(text) }); pi != nil {
		c.Violation("panic", map[string]string{"site": pi.Site, "class": pi.Class}, mk("parse-json", "", pi.Value))
		return
	}
	if perr != nil {
		c.Violation("roundtrip", attrs("json-reparse-error"), mk("ggql-parse-of-json", "", perr.Error()))
		return
	}
	if !valEqual(back, want) {
		c.Violation("roundtrip", attrs("json-reparse-differs"), mk("ggql-parse-of-json", fmt.Sprintf("%#v", back), ""))
		return
	}
	c.Outcome("json-ok")
}

func sign(i int) int {
	switch {
	case i < 0:
		return -1
	case i > 0:
		return 1
	}
	return 0
}

func countNodes(v interface{}) int {
	switch tv := v.(type) {
	case []interface{}:
		n := 1
		for _, e := range tv {
			n += countNodes(e)
		}
		return n
	case map[string]interface{}:
		n := 1
		for _, e := range tv {
			n += countNodes(e)
		}
		return n
	}
	return 1
}

var c18Runes = []rune{0x00, 0x01, 0x08, '\t', '\n', '\f', '\r', 0x1f, ' ', '"', '\\', '/', 'a', 'u', 0x7f, 'é', 0x2028, 0xFFFD, 0xFFFF, 0x1F600,
	0x80, 0x200B, 0xE000, 0x40000, 0xE0001, 0x10FFFF} // + C1 control, zero width, private use, unassigned / tag astral, last code point

func runC18(c *core.Ctx) {
	defer func() { ggql.Sort = false }()
	maxN := 6
	if c.Thorough() {
		maxN = 7
	}
	g := &vgen{memo: map[int][]interface{}{}}
	var idx int64
	done := 0
	// A1 structure
	for n := 1; n <= maxN; n++ {
		if c.Expired() {
			c.Cap(fmt.Sprintf("deadline during A1 at n=%d", n))
			break
		}
		g.trees(n, func(t interface{}) {
			idx++
			if int(idx%int64(c.NShards)) != c.Shard {
				return
			}
			if idx&0xfff == 0 && c.Expired() {
				return
			}
			ctr := 0
			v := concretize(t, &ctr)
			if cn := countNodes(v); cn >= 2 {
				c.CountN("nontrivial_values", 1)
			}
			for _, indent := range []int{-1, 0, 2} {
				for _, srt := range []bool{true, false} {
					for _, sdl := range []bool{true, false} {
						c.R.Distinct++
						if n >= 2 {
							c.Nontrivial()
						}
						check18(c, v, indent, srt, sdl, "structure", "plain")
					}
				}
			}
			c.Sample(func() interface{} {
				var b bytes.Buffer
				ggql.Sort = true
				_ = ggql.WriteSDLValue(&b, v, -1)
				return map[string]interface{}{"A1_value_sdl_tight": b.String(), "nodes": n}
			})
		})
		if !c.Expired() {
			done = n
		}
	}
	if done < maxN {
		c.Cap(fmt.Sprintf("A1 completed only to %d nodes", done))
	}
	c.R.Bound = fmt.Sprintf("A1 value trees <= %d nodes; A2 strings <= 3 runes over %d runes; A3 numbers; A4 24 map keys that read like other tokens; A5 every control character on its own; A6 every symbol / variable name of <= 3 characters over 5 and the integers -12..12 in 3 placements", done, len(c18Runes))

	// A2 strings
	var strs []string
	strs = append(strs, "")
	for _, a := range c18Runes {
		strs = append(strs, string(a))
		for _, b := range c18Runes {
			strs = append(strs, string([]rune{a, b}))
			for _, d := range c18Runes {
				strs = append(strs, string([]rune{a, b, d}))
			}
		}
	}
	invalid := []string{"\xff", "\xc3", "\xed\xa0\x80", "a\xffb", "\xc3\x28"}
	for i, s := range strs {
		if int(int64(i)%int64(c.NShards)) != c.Shard {
			continue
		}
		cls := strClass(s)
		places := []struct {
			site string
			v    interface{}
		}{
			{"top", s},
			{"list-element", []interface{}{s, int64(1)}},
			{"map-value", map[string]interface{}{"a": s, "b": int64(2)}},
		}
		for _, p := range places {
			for _, indent := range []int{-1, 0, 2} {
				for _, sdl := range []bool{true, false} {
					c.R.Distinct++
					if cls != "plain" {
						c.Nontrivial()
					}
					check18(c, p.v, indent, true, sdl, p.site, cls)
				}
			}
		}
		// map keys: the statement says "string-keyed maps"
		if len([]rune(s)) <= 2 {
			kv := map[string]interface{}{s: int64(1), "z": int64(2)}
			for _, indent := range []int{-1, 0, 2} {
				for _, sdl := range []bool{true, false} {
					c.R.Distinct++
					c.Nontrivial()
					check18(c, kv, indent, true, sdl, "map-key", keyClass(s))
				}
			}
		}
		c.Sample(func() interface{} { return map[string]interface{}{"A2_string": fmt.Sprintf("%q", s)} })
	}
	// A5 every control character (0x00 - 0x1f, 0x7f) on its own: alone, between letters, as a map key, in a list
	if c.Shard == 0 {
		for r := rune(0); r <= 0x7f; r++ {
			if r >= 0x20 && r != 0x7f {
				continue
			}
			for _, str := range []string{string(r), "a" + string(r) + "b", string(r) + string(r)} {
				for _, v := range []interface{}{str, []interface{}{str, int64(1)}, map[string]interface{}{"k": str}, map[string]interface{}{str: int64(1)}} {
					for _, indent := range []int{-1, 0, 2} {
						for _, sdl := range []bool{true, false} {
							c.R.Distinct++
							c.Nontrivial()
							check18(c, v, indent, true, sdl, "control-character", fmt.Sprintf("U+%04X", r))
						}
					}
				}
			}
		}
	}
	// A4 map keys that read like something else when written bare: keywords of the value grammar, digits first, number
	// spellings, names of the document grammar; as the key of a map at the top, inside a list and inside another map
	if c.Shard == 0 {
		for _, k := range []string{"true", "false", "null", "1", "42", "007", "2nd", "1e3", "3_x", "0x1", "_", "__typename", "on", "query", "fragment", "e", "E1", "-1", "a-b", "a.b", "$v", "@d", "True", "NULL"} {
			for _, v := range []interface{}{
				map[string]interface{}{k: int64(7)},
				map[string]interface{}{k: "s", "z": map[string]interface{}{k: []interface{}{int64(1)}}},
				[]interface{}{map[string]interface{}{k: nil}, map[string]interface{}{"a": int64(1), k: true}},
			} {
				for _, indent := range []int{-1, 0, 2} {
					for _, sdl := range []bool{true, false} {
						c.R.Distinct++
						c.Nontrivial()
						check18(c, v, indent, true, sdl, "map-key", "reads-like-another-token")
					}
				}
			}
		}
	}
	if c.Shard == 0 {
		for _, s := range invalid {
			for _, indent := range []int{-1, 0, 2} {
				c.R.Distinct++
				c.Nontrivial()
				check18(c, s, indent, true, false, "top", "invalid-utf8")
				check18(c, []interface{}{s}, indent, true, false, "list-element", "invalid-utf8")
			}
		}
		// A6 short tokens: every enum symbol and variable name of <= 3 characters over {A, z, _, 0, 7} (no leading digit)
		// and every integer -12..12, as the whole text (the end of the input follows the token), as a list element and
		// as a map value
		var names []string
		var grow func(pre string)
		grow = func(pre string) {
			if pre != "" {
				names = append(names, pre)
			}
			if len(pre) == 3 {
				return
			}
			for _, r := range "Az_07" {
				if pre == "" && (r == '0' || r == '7') {
					continue
				}
				grow(pre + string(r))
			}
		}
		grow("")
		var shorts []interface{}
		for _, n := range names {
			shorts = append(shorts, ggql.Symbol(n), ggql.Var(n))
		}
		for i := -12; i <= 12; i++ {
			shorts = append(shorts, int64(i))
		}
		shorts = append(shorts, true, false, nil)
		for _, sv := range shorts {
			for _, indent := range []int{-1, 0, 2} {
				c.R.Distinct++
				c.Nontrivial()
				check18(c, sv, indent, true, true, "top", "short-token")
				check18(c, []interface{}{sv}, indent, true, true, "list-element", "short-token")
				check18(c, []interface{}{sv, sv}, indent, true, true, "list-element", "short-token")
				check18(c, map[string]interface{}{"a": sv}, indent, true, true, "map-value", "short-token")
			}
		}
		// A3 numbers
		nums := []interface{}{int64(0), int64(-1), int64(math.MaxInt64), int64(math.MinInt64), int64(1) << 53, int64(1)<<53 + 1, int64(math.MaxInt32) + 1,
			0.5, -0.5, 1e-7, 1.5e300, 5e-324, 123456789.125, -1.5e-10, 1.25e21, 1.7976931348623157e308, 0.1, 1e21 + 0.5e6*0 + 1.5e20}
		for _, nv := range nums {
			if f, ok := nv.(float64); ok && f == math.Trunc(f) && math.Abs(f) < 1e18 {
				continue // integral floats are outside the statement's domain
			}
			for _, indent := range []int{-1, 0, 2} {
				for _, sdl := range []bool{true, false} {
					c.R.Distinct++
					c.Nontrivial()
					check18(c, nv, indent, true, sdl, "number", "plain")
					check18(c, []interface{}{nv, nv}, indent, true, sdl, "number", "plain")
					check18(c, map[string]interface{}{"a": nv}, indent, true, sdl, "number", "plain")
				}
			}
		}
	}
}

// keyClass classifies a map key for findings: GraphQL names are "name"; anything else by what it contains.
func keyClass(s string) string {
	if s == "" {
		return "empty"
	}
	name := true
	for i, r := range s {
		if !(r == '_' || (r >= 'a' && r <= 'z') || (r >= 'A' && r <= 'Z') || (i > 0 && r >= '0' && r <= '9')) {
			name = false
		}
	}
	if name {
		return "name"
	}
	return "non-name:" + strClass(s)
}

func replayC18(detail json.RawMessage) (bool, string) {
	return false, "C18 replay: the file holds value (Go syntax), indent, sort, format, the written text and the parse result; re-run `bin/check.sh C18 quick` to re-enumerate"
}
