package core

import "fmt"

// Chooser is the one interface through which generators, fault plans and the
// scheduler obtain nondeterministic answers. Answer 0 is the default; a
// non-default answer at a costed point is one deviation.
type Chooser struct {
	prefix []int
	Trace  []int
	ns     []int
	costs  []int
	labels []string
}

// Choose returns an answer in [0,n). Non-default answers cost one deviation.
func (c *Chooser) Choose(n int, label string) int { return c.choose(n, 1, label) }

// Free returns an answer in [0,n) for a dimension that is always fully crossed.
func (c *Chooser) Free(n int, label string) int { return c.choose(n, 0, label) }

// Costed lets the caller state the cost of deviating at this point (scheduler: 1 if it would be a preemption, else 0).
func (c *Chooser) Costed(n, cost int, label string) int { return c.choose(n, cost, label) }

func (c *Chooser) choose(n, cost int, label string) int {
	if n <= 0 {
		panic("explore: Choose with n<=0 at " + label)
	}
	i := len(c.Trace)
	a := 0
	if i < len(c.prefix) {
		a = c.prefix[i]
		if a >= n {
			panic(EngineError{fmt.Sprintf("replay divergence: prefix choice %d out of range %d at point %d (%s)", a, n, i, label)})
		}
	}
	c.Trace = append(c.Trace, a)
	c.ns = append(c.ns, n)
	c.costs = append(c.costs, cost)
	c.labels = append(c.labels, label)
	return a
}

// EngineError is a hard error of the machinery itself (never a property violation).
type EngineError struct{ Msg string }

func (e EngineError) Error() string { return "engine error: " + e.Msg }

// Explorer enumerates every choice sequence whose total deviation cost is <= Bound
// (Bound < 0: unbounded, i.e. the complete tree).
type Explorer struct {
	Bound  int
	Runs   int64
	MaxRun int64 // 0 = no cap
	Capped bool
	Stop   func() bool
}

// Explore runs f once per bounded-cost choice sequence. f must be deterministic given the choices.
func (e *Explorer) Explore(f func(c *Chooser)) {
	e.explore(nil, 0, f)
}

func (e *Explorer) explore(prefix []int, used int, f func(c *Chooser)) {
	if e.Capped {
		return
	}
	if (e.MaxRun > 0 && e.Runs >= e.MaxRun) || (e.Stop != nil && e.Runs&1023 == 0 && e.Stop()) {
		e.Capped = true
		return
	}
	c := &Chooser{prefix: prefix}
	e.Runs++
	f(c)
	if len(c.Trace) < len(prefix) {
		panic(EngineError{fmt.Sprintf("replay divergence: run made %d choices, prefix has %d", len(c.Trace), len(prefix))})
	}
	for i := len(prefix); i < len(c.Trace); i++ {
		cost := used + c.costs[i]
		if e.Bound >= 0 && cost > e.Bound {
			continue
		}
		for alt := 1; alt < c.ns[i]; alt++ {
			np := make([]int, i+1)
			copy(np, c.Trace[:i])
			np[i] = alt
			e.explore(np, cost, f)
		}
	}
}

// Replay runs f once on the given choice vector (later points take the default).
func Replay(vec []int, f func(c *Chooser)) *Chooser {
	c := &Chooser{prefix: vec}
	f(c)
	return c
}
