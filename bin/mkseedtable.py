#!/usr/bin/env python3
"""Prints the markdown table of DESIGN.md section 10.7 from seeded/*/meta.json."""
import json, glob, os
V = os.path.dirname(os.path.dirname(os.path.abspath(__file__)))
rows = []
for m in sorted(glob.glob(os.path.join(V, "seeded", "*", "meta.json"))):
    d = json.load(open(m)); sid = os.path.basename(os.path.dirname(m))
    det = d.get("detected_by", []); prop = d.get("breaks_property", sid[:3])
    own = "yes" if prop in det else "**no**"
    others = ", ".join(x for x in det if x != prop) or "-"
    note = d.get("note", "")
    rows.append((sid, prop, own, others, d.get("needs_to_manifest", "")[:170].replace("|", "/"), note))
print("| Seeded change | Breaks | Own check | Also caught by | Needs, to manifest |")
print("|---|---|---|---|---|")
for sid, prop, own, others, needs, note in rows:
    print(f"| `{sid}` | {prop} | {own} | {others} | {needs}{' — ' + note if note else ''} |")
print(f"\n{len(rows)} seeded changes; own check detects {sum(1 for r in rows if r[2]=='yes')}.")
