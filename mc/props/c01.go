package props

import (
	"github.com/uhn/ggql/pkg/ggql"

	"fmt"
	"time"

	"verif/mc/core"
	"verif/mc/world"
)

// C01 — a query response contains exactly the data the request selected (DESIGN 5.1).

func init() {
	Register(&Check{
		ID:  "C01",
		Run: runC01,
		Rule: "every document within k mutations (add/delete/duplicate/alias/wrap-in-fragment/move-to-named-fragment/@skip/@include at every site) of 9 base documents " +
			"x 3 data graphs (cycles, null/empty lists, lists of lists, null elements) x every operation-name choice (incl. an undefined one) x variable maps, " +
			"served by RS/AS (both list carriers) and FS (registered and by-name); oracle = independent reference executor (data, error paths, resolver call set). " +
			"distinct = distinct (document, op, vars, graph); non-trivial = expected data has >= 2 keys at some level, or a list, or a fragment, or is a rejection",
		Technique:      "deviation-bounded exhaustive enumeration of requests executed on the real resolver, compared with a reference executor",
		Assumptions:    []string{"the reference executor (world/refexec.go) implements June-2018 CollectFields/ExecuteSelectionSet", "fixed universe schema; schema variety is covered by C13-C17"},
		QuickBudget:    100 * time.Second,
		ThoroughBudget: 25 * time.Minute,
	})
}

// docsWithin enumerates the documents within k mutations of the bases (deduplicated by text).
func docsWithin(c *core.Ctx, s *world.Schema, bases []*world.Doc, k, level int, each func(d *world.Doc, dist int) bool) {
	seen := map[uint64]bool{}
	frontier := []*world.Doc{}
	for _, b := range bases {
		h := core.Hash(b.KeyString())
		if !seen[h] {
			seen[h] = true
			frontier = append(frontier, b)
			if !each(b, 0) {
				return
			}
		}
	}
	for dist := 1; dist <= k; dist++ {
		var next []*world.Doc
		for _, d := range frontier {
			for _, nd := range world.Neighbours(s, d, level) {
				h := core.Hash(nd.KeyString())
				if seen[h] {
					continue
				}
				seen[h] = true
				if dist < k {
					next = append(next, nd)
				}
				if !each(nd, dist) {
					return
				}
			}
		}
		frontier = next
	}
}

func nontrivialExpect(ex *world.Expect) bool {
	return ex.Rejected || len(ex.Data) >= 2 || ex.Features["list>=2"] > 0 || ex.Features["frag-applies"] > 0 || ex.Features["merged-key"] > 0
}

func runC01(c *core.Ctx) {
	s := world.Universe(world.UniverseOpts{})
	k := 1
	if c.Thorough() {
		k = 2
	}
	graphs := []*world.Graph{world.BaseGraph(0), world.BaseGraph(1), world.BaseGraph(2)}
	fsViews := make([]*world.Graph, len(graphs))
	for i, g := range graphs {
		fsViews[i] = g.FSView(s)
	}
	completed := true
	docsWithin(c, s, world.BaseDocs(), k, 0, func(d *world.Doc, dist int) bool {
		if c.Expired() {
			completed = false
			return false
		}
		text := d.Render(world.LOneLine)
		if !c.Owns(text) {
			return true
		}
		ft := d.Features(s)
		cfgs := configsFor(s, ft, true) // reflection with registered types also serves abstract dispatch
		if ft.UnionField || ft.InterfaceField || ft.AbstractCond || ft.ConcreteUnderInterface || ft.ConcreteUnderUnion {
			// and so does a cold root that binds Go types by name as it meets them (each request gets a fresh root)
			cfgs = append(cfgs, namedCfg{"FS/byname", world.Config{Strat: world.FS, Bind: world.BindByName, Schema: s}})
		}
		for gi, g0 := range graphs {
			for _, op := range world.OpNames(d) {
				for _, vars := range world.VarMaps(d) {
					var exs [2]*world.Expect // [0] plain graph, [1] FS view
					for _, nc := range cfgs {
						g, vi := g0, 0
						if nc.Cfg.Strat == world.FS {
							g, vi = fsViews[gi], 1
						}
						if exs[vi] == nil {
							ex := world.RefExec(s, g, d, op, vars, nil, world.RefOpts{})
							exs[vi] = ex
							if ex.Invalid {
								c.Count("skipped_invalid_document")
								continue
							}
							if nontrivialExpect(ex) {
								c.Nontrivial()
							}
							for f, n := range ex.Features {
								c.CountN("expect_"+f, int64(n))
							}
							if ex.Rejected {
								c.Count("expect_rejected")
							}
						}
						ex := exs[vi]
						if ex.Invalid {
							continue
						}
						c.Eval()
						root, run, err := world.BuildRoot(nc.Cfg, g)
						if err != nil {
							panic(core.EngineError{Msg: "universe schema rejected: " + err.Error()})
						}
						o := world.Observe(root, run, text, op, vars)
						kind, msg := compareExpect(s, g, ex, o, nc.Cfg.Strat, true)
						if kind == "" {
							// the same root answers the same request the same way again: a second ResolveString, then one parsed
							// executable resolved twice (whatever a request leaves behind in the root, the data or the parsed
							// request must not show)
							again := func(label string, o2 *world.Obs) bool {
								if k2, m2 := compareExpect(s, g, ex, o2, nc.Cfg.Strat, true); k2 != "" {
									c.Outcome("repeat-" + k2)
									a2 := map[string]string{"strategy": nc.Cfg.Strat.String(), "model": "none", "repeat": label}
									if k2 == "panic" {
										a2["site"], a2["class"] = o2.Panic.Site, o2.Panic.Class
									}
									c.Violation(k2, a2, worldCase{Config: nc.Name, Graph: gi, Query: text, Op: op, Vars: vars,
										Expected: map[string]interface{}{"rejected": ex.Rejected, "data": ex.Data, "err_paths": ex.ErrPaths}, Observed: o2, Diff: label + ": " + m2})
									return false
								}
								return true
							}
							run.Log, run.Args = nil, nil
							ok := again("second ResolveString on the same root", world.Observe(root, run, text, op, vars))
							if ok && dist == 0 {
								var exe *ggql.Executable
								var perr error
								if pi := core.Safe(func() { exe, perr = root.ParseExecutableString(text) }); pi == nil && perr == nil {
									// resolved with these variables, then with every OTHER variable map of the document, then with these again
									// (a value a request supplies must not linger as the default of the next one)
									seq := []map[string]interface{}{vars}
									for _, vm := range world.VarMaps(d) {
										if fmt.Sprint(vm) != fmt.Sprint(vars) {
											seq = append(seq, vm)
										}
									}
									seq = append(seq, vars)
									for round, rv := range seq {
										if !ok {
											break
										}
										round, rv := round+1, rv
										exr := ex
										if fmt.Sprint(rv) != fmt.Sprint(vars) {
											exr = world.RefExec(s, g, d, op, rv, nil, world.RefOpts{})
										}
										run.Log, run.Args = nil, nil
										o3 := &world.Obs{}
										var res map[string]interface{}
										var rerr error
										o3.Panic = core.Safe(func() { res, rerr = root.ResolveExecutable(exe, op, rv) })
										if o3.Panic == nil {
											if res == nil {
												res = map[string]interface{}{"data": nil}
											}
											if rerr != nil {
												res["errors"] = ggql.FormErrorsResult(rerr)
											}
											o3.FillFrom(res, run)
										}
										if k3, m3 := compareExpect(s, g, exr, o3, nc.Cfg.Strat, true); k3 != "" {
											c.Outcome("repeat-" + k3)
											a3 := map[string]string{"strategy": nc.Cfg.Strat.String(), "model": "none", "repeat": "prepared-executable"}
											if k3 == "panic" {
												a3["site"], a3["class"] = o3.Panic.Site, o3.Panic.Class
											}
											c.Violation(k3, a3, worldCase{Config: nc.Name, Graph: gi, Query: text, Op: op, Vars: rv,
												Expected: map[string]interface{}{"rejected": exr.Rejected, "data": exr.Data, "err_paths": exr.ErrPaths}, Observed: o3,
												Diff: fmt.Sprintf("resolution %d of one parsed executable on the same root (variable maps in order: %v): %s", round, seq, m3)})
											ok = false
										}
									}
								}
							}
							if ok {
								c.Outcome("agree")
							}
							continue
						}
						c.Outcome(kind)
						model := "none"
						if kind != "panic" && !ex.Rejected {
							ex2 := world.RefExec(s, g, d, op, vars, nil, world.RefOpts{NoMerge: true})
							if k2, _ := compareExpect(s, g, ex2, o, nc.Cfg.Strat, true); k2 == "" {
								model = "no-merge"
							}
						}
						attrs := map[string]string{"strategy": nc.Cfg.Strat.String(), "model": model}
						if kind == "panic" {
							attrs["site"] = o.Panic.Site
							attrs["class"] = o.Panic.Class
						} else if kind == "data-diff" {
							attrs["what"] = diffClass(msg)
						}
						c.Violation(kind, attrs, worldCase{Config: nc.Name, Graph: gi, Query: text, Op: op, Vars: vars,
							Expected: map[string]interface{}{"rejected": ex.Rejected, "data": ex.Data, "err_paths": ex.ErrPaths, "calls": expectedCalls(s, g, ex, nc.Cfg.Strat)},
							Observed: o, Diff: msg})
					}
				}
			}
		}
		sample(c, func() interface{} { return map[string]interface{}{"query": text, "distance": dist} })
		return true
	})
	// Go type names that contain one another, bound by name and by the three spellings of @go: __typename and fragments on the
	// concrete types for every order of members and values (the probes of C08, their verdicts are this property's as well)
	c08NameProbes(c)
	// the schema grows between two requests on one root (a type joins an interface and a union through extend blocks only, no
	// new type): what the second request selects through the interface is what the data holds (shared with C02, Part E)
	if c.Shard == 0 {
		runC02Growth(c, func(part, kind, msg string, attrs map[string]string, wc worldCase) {
			attrs["part"] = part
			wc.Diff = msg
			c.Violation(kind, attrs, wc)
		})
	}
	c.R.Bound = fmt.Sprintf("documents within %d mutations of %d bases", k, len(world.BaseDocs()))
	if !completed {
		c.Cap("deadline reached before the mutation neighbourhood was completed")
	}
}
