package world

import (
	"fmt"
	"sort"
	"strings"

	"github.com/uhn/ggql/pkg/ggql"
)

// ---------------------------------------------------------------- reference executor (GraphQL June 2018, section 6)

// RefOpts switches the reference into documented-defect models; used only to
// classify a disagreement (a violation matches a finding iff the observed
// response equals the reference with exactly that defect model switched on).
type RefOpts struct {
	NoMerge bool // equal response keys overwrite each other instead of merging (sequential execution)
}

// Expect is what the reference predicts for a request.
type Expect struct {
	Invalid  bool                   // the document is not valid GraphQL (fields with one response key cannot merge): outside every claim
	Rejected bool                   // no operation could be chosen: no data, no resolver runs
	Data     map[string]interface{} // canonical: float64 / string / bool / nil / []interface{} / map
	ErrPaths []string               // one entry per expected error: path rendered as a/b/0/c
	Calls    map[string]int         // CallKey -> number of invocations
	Features map[string]int         // generator-side non-vacuity counters
}

type refExec struct {
	s      *Schema
	d      *Doc
	vars   map[string]interface{}
	faults map[CallKey]FaultKind
	opts   RefOpts
	ex     *Expect
}

type pathT []interface{}

func (p pathT) with(x interface{}) pathT {
	n := make(pathT, len(p)+1)
	copy(n, p)
	n[len(p)] = x
	return n
}

func PathString(p []interface{}) string {
	parts := make([]string, len(p))
	for i, x := range p {
		parts[i] = fmt.Sprint(x)
	}
	return strings.Join(parts, "/")
}

// RefExec computes the expected response of resolving doc's operation opName with vars.
func RefExec(s *Schema, g *Graph, d *Doc, opName string, vars map[string]interface{}, faults map[CallKey]FaultKind, opts RefOpts) *Expect {
	ex := &Expect{Calls: map[string]int{}, Features: map[string]int{}}
	var op *Op
	for _, o := range d.Ops {
		if o.Name == opName {
			op = o
		}
	}
	if op == nil && opName == "" && len(d.Ops) == 1 {
		op = d.Ops[0]
	}
	if op == nil {
		ex.Rejected = true
		return ex
	}
	// variable values: supplied value wins over default
	vv := map[string]interface{}{}
	for _, vd := range op.Vars {
		if vd.HasDefault {
			vv[vd.Name] = vd.Default
		}
		if v, ok := vars[vd.Name]; ok && v != nil {
			vv[vd.Name] = v
		}
	}
	re := &refExec{s: s, d: d, vars: vv, faults: faults, opts: opts, ex: ex}
	root := g.Root
	rootType := s.Query
	if op.Type == "mutation" {
		root, rootType = g.Mut, s.Mutation
	}
	ex.Data = re.execSet(root, rootType, op.Sels, nil)
	sort.Strings(ex.ErrPaths)
	return ex
}

type fieldGroup struct {
	key    string
	fields []*Sel
}

func (re *refExec) included(s *Sel) bool {
	for _, d := range s.Dirs {
		var b bool
		switch tv := d.If.(type) {
		case bool:
			b = tv
		case VarRef:
			b, _ = re.vars[string(tv)].(bool)
		}
		if d.Name == "skip" && b {
			return false
		}
		if d.Name == "include" && !b {
			return false
		}
	}
	return true
}

func (re *refExec) collect(objType string, sels []*Sel, groups *[]*fieldGroup, visited map[string]bool) {
	for _, s := range sels {
		if !re.included(s) {
			re.ex.Features["excluded"]++
			continue
		}
		switch s.Kind {
		case SField:
			k := s.Key()
			var g *fieldGroup
			if !re.opts.NoMerge {
				for _, x := range *groups {
					if x.key == k {
						g = x
					}
				}
			}
			if g == nil {
				g = &fieldGroup{key: k}
				*groups = append(*groups, g)
			} else {
				re.ex.Features["merged-key"]++
				if !canMerge(g.fields[0], s) {
					re.ex.Invalid = true
				}
			}
			g.fields = append(g.fields, s)
		case SInline:
			if re.s.Applies(s.Cond, objType) {
				if s.Cond != "" {
					re.ex.Features["frag-applies"]++
				}
				re.collect(objType, s.Sels, groups, visited)
			} else {
				re.ex.Features["frag-not-applies"]++
			}
		case SSpread:
			if visited[s.Name] && !re.opts.NoMerge {
				re.ex.Features["merged-key"]++
				continue
			}
			visited[s.Name] = true
			fr := re.d.Frag(s.Name)
			if fr == nil {
				continue
			}
			if re.s.Applies(fr.Cond, objType) {
				re.ex.Features["frag-applies"]++
				re.collect(objType, fr.Sels, groups, visited)
			} else {
				re.ex.Features["frag-not-applies"]++
			}
		}
	}
}

func (re *refExec) execSet(n *Node, objType string, sels []*Sel, path pathT) map[string]interface{} {
	var groups []*fieldGroup
	re.collect(objType, sels, &groups, map[string]bool{})
	out := map[string]interface{}{}
	td := re.s.Type(objType)
	for _, g := range groups {
		f0 := g.fields[0]
		if g.key == "dfx" {
			re.ex.Features["dfx-reached"]++
		}
		if f0.Name == "__typename" {
			out[g.key] = objType
			re.ex.Features["typename"]++
			continue
		}
		fd := td.Field(f0.Name)
		if fd == nil {
			// invalid document; the generators never produce this for the valid-world checks
			continue
		}
		args := re.argValues(f0)
		ck := CallKey{n.ID, f0.Name}
		re.ex.Calls[ck.String()]++
		p := path.with(g.key)
		if fk := re.faults[ck]; fk != NoFault && fk != FaultNth && fk != FaultBadLeaf {
			out[g.key] = nil
			re.ex.ErrPaths = append(re.ex.ErrPaths, PathString(p))
			if fk == FaultGroup || fk == FaultWrapped || fk == FaultTwin {
				re.ex.ErrPaths = append(re.ex.ErrPaths, PathString(p))
			}
			continue
		}
		var sub []*Sel
		for _, f := range g.fields {
			sub = append(sub, f.Sels...)
		}
		val := fieldValue(n, f0.Name, args)
		if re.faults[ck] == FaultBadLeaf && BadLeafFields[f0.Name] {
			// the value cannot be represented in the declared type: null at that position and one error for it
			switch tv := val.(type) {
			case int:
				val = nil
				re.ex.ErrPaths = append(re.ex.ErrPaths, PathString(p))
			case []interface{}:
				if len(tv) > 0 {
					idx := NthFailIndex(len(tv))
					cp := append([]interface{}{}, tv...)
					cp[idx] = nil
					val = cp
					re.ex.ErrPaths = append(re.ex.ErrPaths, PathString(p.with(idx)))
				}
			}
		}
		if re.faults[ck] == FaultNth {
			// the accessor of one element fails: that element is null with one error, the others are untouched
			if l, ok := val.([]interface{}); ok && len(l) > 0 {
				idx := NthFailIndex(len(l))
				cp := append([]interface{}{}, l...)
				cp[idx] = nil
				val = cp
				re.ex.ErrPaths = append(re.ex.ErrPaths, PathString(p.with(idx)))
			}
		}
		out[g.key] = re.complete(fd.Type, val, sub, p)
	}
	return out
}

func (re *refExec) argValues(f *Sel) map[string]interface{} {
	if len(f.Args) == 0 {
		return nil
	}
	m := map[string]interface{}{}
	for _, a := range f.Args {
		m[a.Name] = re.subst(a.Value)
	}
	return m
}

func (re *refExec) subst(v interface{}) interface{} {
	switch tv := v.(type) {
	case VarRef:
		return re.vars[string(tv)]
	case EnumLit:
		return string(tv)
	case []interface{}:
		out := make([]interface{}, len(tv))
		for i, e := range tv {
			out[i] = re.subst(e)
		}
		return out
	case map[string]interface{}:
		out := map[string]interface{}{}
		for k, e := range tv {
			out[k] = re.subst(e)
		}
		return out
	}
	return v
}

func (re *refExec) complete(t *T, v interface{}, sub []*Sel, path pathT) interface{} {
	if v == nil {
		return nil
	}
	if n, ok := v.(*Node); ok && n == nil {
		return nil
	}
	switch t.K {
	case TNonNull:
		return re.complete(t.Of, v, sub, path)
	case TList:
		l, ok := v.([]interface{})
		if !ok {
			return nil
		}
		out := make([]interface{}, len(l))
		if len(l) >= 2 {
			re.ex.Features["list>=2"]++
		}
		for i, e := range l {
			out[i] = re.complete(t.Of, e, sub, path.with(i))
		}
		return out
	}
	if re.s.IsLeaf(t.Name) {
		return Canon(v)
	}
	n := v.(*Node)
	if td := re.s.Type(t.Name); td != nil && td.Kind != KObject {
		re.ex.Features["abstract-dispatch"]++
	}
	return re.execSet(n, n.Type, sub, path)
}

// Canon brings leaf values and whole responses to a canonical comparable form.
func Canon(v interface{}) interface{} {
	switch tv := v.(type) {
	case nil:
		return nil
	case int:
		return float64(tv)
	case int8:
		return float64(tv)
	case int16:
		return float64(tv)
	case int32:
		return float64(tv)
	case int64:
		return float64(tv)
	case uint:
		return float64(tv)
	case uint32:
		return float64(tv)
	case uint64:
		return float64(tv)
	case float32:
		return float64(tv)
	case float64:
		return tv
	case string:
		return tv
	case bool:
		return tv
	case EnumVal:
		return string(tv)
	case EnumLit:
		return string(tv)
	case ggql.Symbol:
		return string(tv)
	case []interface{}:
		out := make([]interface{}, len(tv))
		for i, e := range tv {
			out[i] = Canon(e)
		}
		return out
	case map[string]interface{}:
		out := make(map[string]interface{}, len(tv))
		for k, e := range tv {
			out[k] = Canon(e)
		}
		return out
	}
	if s, ok := v.(fmt.Stringer); ok {
		return "«" + fmt.Sprintf("%T", v) + ":" + s.String() + "»"
	}
	// anything else (typed nil pointers, structs) is not a JSON value: keep a marker that never equals a model value
	return fmt.Sprintf("«%T:%v»", v, v)
}

// Diff returns "" if the canonical values are equal, else the first differing position.
func Diff(want, got interface{}, path string) string {
	switch tw := want.(type) {
	case map[string]interface{}:
		tg, ok := got.(map[string]interface{})
		if !ok {
			return fmt.Sprintf("%s: want object, got %T(%v)", path, got, got)
		}
		keys := map[string]bool{}
		for k := range tw {
			keys[k] = true
		}
		for k := range tg {
			keys[k] = true
		}
		ks := make([]string, 0, len(keys))
		for k := range keys {
			ks = append(ks, k)
		}
		sort.Strings(ks)
		for _, k := range ks {
			w, hw := tw[k]
			g, hg := tg[k]
			if !hw {
				return fmt.Sprintf("%s/%s: unexpected key (got %v)", path, k, g)
			}
			if !hg {
				return fmt.Sprintf("%s/%s: missing key (want %v)", path, k, w)
			}
			if d := Diff(w, g, path+"/"+k); d != "" {
				return d
			}
		}
		return ""
	case []interface{}:
		tg, ok := got.([]interface{})
		if !ok {
			return fmt.Sprintf("%s: want list, got %T(%v)", path, got, got)
		}
		if len(tw) != len(tg) {
			return fmt.Sprintf("%s: list length want %d got %d", path, len(tw), len(tg))
		}
		for i := range tw {
			if d := Diff(tw[i], tg[i], fmt.Sprintf("%s/%d", path, i)); d != "" {
				return d
			}
		}
		return ""
	}
	if want != got {
		return fmt.Sprintf("%s: want %v (%T), got %v (%T)", path, want, want, got, got)
	}
	return ""
}

// canMerge is the spec's "fields in set can merge" for fields of one object type: same field name and
// identical arguments.
func canMerge(a, b *Sel) bool {
	if a.Name != b.Name || len(a.Args) != len(b.Args) {
		return false
	}
	for i := range a.Args {
		if a.Args[i].Name != b.Args[i].Name || ValueText(a.Args[i].Value) != ValueText(b.Args[i].Value) {
			return false
		}
	}
	return true
}
