#!/usr/bin/env python3
"""Prints a markdown table of what the last run of every check covered, from evidence/*.json (DESIGN.md 10.12)."""
import json, glob, os
V = os.path.dirname(os.path.dirname(os.path.abspath(__file__)))
print("| Prop | tier | executions on the real code | distinct cases | violations | known findings hit | exhaustive | wall | bound completed |")
print("|---|---|---|---|---|---|---|---|---|")
for f in sorted(glob.glob(os.path.join(V, "evidence", "C*.json"))):
    e = json.load(open(f)); c = e.get("coverage", {})
    kf = c.get("known_findings_hit") or []
    print("| %s | %s | %s | %s | %s | %s | %s | %.0f s | %s |" % (e.get("property_id"), e.get("tier"), f"{c.get('evaluations',0):,}", f"{c.get('states',0):,}",
          len(e.get("violations") or []), ", ".join(f"{k} ({v})" for k, v in sorted(kf.items())) if isinstance(kf, dict) else ", ".join(kf), c.get("exhaustive"), e.get("wall_s", 0), str(c.get("bound_completed",""))[:160].replace("|","/")))
