#!/bin/bash
# Run once after a fresh restore, offline: builds the harness from files on disk only.
source "$(dirname "$0")/env.sh"
"$VERIF_DIR/bin/build.sh" || exit 1
"$VERIF_DIR/build/vcheck" list >/dev/null || exit 1
echo "setup ok"
