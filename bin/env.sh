# sourced by every script: offline Go environment, nothing under /tmp
export GOFLAGS=-mod=mod GOPROXY=off GOSUMDB=off GOTOOLCHAIN=local
export VERIF_DIR="${VERIF_DIR:-/verif}"
export VERIF_REPO="${VERIF_REPO:-/repo}"
export GOCACHE="$VERIF_DIR/.gocache"
export GOTMPDIR="$VERIF_DIR/build/tmp"
mkdir -p "$VERIF_DIR/build/tmp" "$GOCACHE"
# the harness binary a check runs from: C12 and C20 use the memory-access overlay build when it exists
vbin() { case "$1" in C12|C20) [ -x "$VERIF_DIR/build/vcheck_mem" ] && { echo "$VERIF_DIR/build/vcheck_mem"; return; };; esac; echo "$VERIF_DIR/build/vcheck"; }
