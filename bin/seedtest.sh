#!/bin/bash
# bin/seedtest.sh <dir with patch.diff + demo_test.go> [check ids...]
# Confirms a seeded property-breaking change (applies, compiles, pinned suite green, demo fails with / passes without),
# then applies it to /repo, runs the given checks' quick tier (default: all), reports which detect it, and reverts /repo.
source "$(dirname "$0")/env.sh"
dir="$(cd "$1" && pwd)"; shift
checks="$@"; [ -z "$checks" ] && checks=$(jq -r '.checks[].property_id' "$VERIF_DIR/MANIFEST.json")
wt=/tmp/seedverify.$$
git -C /repo worktree add -q --detach "$wt" HEAD || exit 2
cleanup() { git -C /repo worktree remove --force "$wt" 2>/dev/null; }
trap cleanup EXIT
cd "$wt"
git apply "$dir/patch.diff" || { echo "RESULT patch does not apply"; exit 1; }
go build ./... || { echo "RESULT does not compile"; exit 1; }
VERIF_REPO="$wt" "$VERIF_DIR/bin/baseline.sh" || { echo "RESULT pinned suite fails with the change"; exit 1; }
demo_with="n/a"; demo_without="n/a"
if [ -f "$dir/demo_test.go" ]; then
  tests=$(grep -o '^func Test[A-Za-z0-9_]*' "$dir/demo_test.go" | sed 's/func //' | paste -sd'|')
  extra=""; grep -q "race" "$dir/NOTES.md" 2>/dev/null && extra="-race"
  cp "$dir/demo_test.go" pkg/ggql/zz_demo_test.go
  if go test -vet=off -count=1 $extra -run "^($tests)\$" ./pkg/ggql/ >/tmp/seedverify.$$.with 2>&1; then demo_with=PASS; else demo_with=FAIL; fi
  git apply -R "$dir/patch.diff"
  if go test -vet=off -count=1 $extra -run "^($tests)\$" ./pkg/ggql/ >/tmp/seedverify.$$.without 2>&1; then demo_without=PASS; else demo_without=FAIL; fi
  rm -f pkg/ggql/zz_demo_test.go /tmp/seedverify.$$.with /tmp/seedverify.$$.without
fi
echo "RESULT compiles=yes suite=green demo_with_change=$demo_with demo_without_change=$demo_without"
cd /repo
[ -n "$(git status --porcelain)" ] && { echo "RESULT /repo not clean"; exit 2; }
git apply "$dir/patch.diff" || exit 2
"$VERIF_DIR/bin/build.sh" >/dev/null 2>&1
export VERIF_EVIDENCE_DIR="$VERIF_DIR/build/seed-evidence"; mkdir -p "$VERIF_EVIDENCE_DIR"
for id in $checks; do
  out=$("$(vbin "$id")" run "$id" quick 2>&1); rc=$?
  n=$(echo "$out" | grep -c '^VIOLATION')
  first=$(echo "$out" | grep -m1 '^VIOLATION' | sed 's/replay=[^ ]* //' | cut -c1-200)
  echo "CHECK $id exit=$rc violations=$n $first"
done
git -C /repo checkout -- . && git -C /repo clean -fdq pkg cmd 2>/dev/null
"$VERIF_DIR/bin/build.sh" >/dev/null 2>&1
echo "RESULT /repo restored: $(git -C /repo status --porcelain | wc -l) changed files"
