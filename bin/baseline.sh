#!/bin/bash
# Runs the repository's pinned suite on $VERIF_REPO (default /repo) and compares with /root/.vp/BASELINE.json.
# Exit 0 iff every stable_pass test passes.
source "$(dirname "$0")/env.sh"
cd "$VERIF_REPO" || exit 2
f="$VERIF_DIR/build/baseline.$$.json"
go test -json -vet=off -count=1 -timeout 25m ./... > "$f" 2>&1
python3 - "$f" <<'PY'
import json,sys
base=json.load(open('/root/.vp/BASELINE.json'))
want=set(base['stable_pass'])
passed=set()
for line in open(sys.argv[1]):
    try: e=json.loads(line)
    except Exception: continue
    if e.get('Action')=='pass' and e.get('Test') and '/' not in e['Test']:
        passed.add(e['Package']+'::'+e['Test'])
missing=sorted(want-passed)
print(f"baseline: {len(want&passed)}/{len(want)} stable tests pass")
for m in missing: print("  MISSING/FAILED:",m)
sys.exit(1 if missing else 0)
PY
rc=$?
rm -f "$f"
exit $rc
