package world

import (
	"fmt"
	"strings"
)

// TypedWalk visits every selection set with the name of its container type.
func (d *Doc) TypedWalk(s *Schema, f func(set *[]*Sel, container string)) {
	var rec func(set *[]*Sel, container string)
	rec = func(set *[]*Sel, container string) {
		f(set, container)
		td := s.Type(container)
		for _, sel := range *set {
			switch sel.Kind {
			case SField:
				if len(sel.Sels) == 0 || td == nil {
					continue
				}
				if fd := td.Field(sel.Name); fd != nil {
					rec(&sel.Sels, fd.Type.Base())
				}
			case SInline:
				c := sel.Cond
				if c == "" {
					c = container
				}
				rec(&sel.Sels, c)
			}
		}
	}
	for _, o := range d.Ops {
		rt := s.Query
		if o.Type == "mutation" {
			rt = s.Mutation
		}
		rec(&o.Sels, rt)
	}
	for _, fr := range d.Frags {
		rec(&fr.Sels, fr.Cond)
	}
}

// Features of a document that decide which strategies / checks may use it.
type DocFeatures struct {
	AbstractCond           bool // a fragment conditioned on an interface or union
	ConcreteUnderInterface bool // __typename or a concrete-type fragment under an interface-typed container
	ConcreteUnderUnion     bool
	UnionField             bool // selects a union-typed field at all
	InterfaceField         bool
	DupKey                 bool // two selections with the same response key in one set (after looking through fragments: approximated per set)
	Spread                 bool
	Mutation               bool
	Methods                bool // selects a method-backed field
}

func (d *Doc) Features(s *Schema) DocFeatures {
	var ft DocFeatures
	for _, o := range d.Ops {
		if o.Type == "mutation" {
			ft.Mutation = true
		}
	}
	d.TypedWalk(s, func(set *[]*Sel, container string) {
		td := s.Type(container)
		keys := map[string]bool{}
		for _, sel := range *set {
			switch sel.Kind {
			case SField:
				if keys[sel.Key()] {
					ft.DupKey = true
				}
				keys[sel.Key()] = true
				if sel.Name == "__typename" && td != nil {
					if td.Kind == KInterface {
						ft.ConcreteUnderInterface = true
					}
					if td.Kind == KUnion {
						ft.ConcreteUnderUnion = true
					}
				}
				if td != nil {
					if fd := td.Field(sel.Name); fd != nil {
						if fd.Method {
							ft.Methods = true
						}
						if bt := s.Type(fd.Type.Base()); bt != nil {
							if bt.Kind == KUnion {
								ft.UnionField = true
							}
							if bt.Kind == KInterface {
								ft.InterfaceField = true
							}
						}
					}
				}
			case SInline, SSpread:
				cond := sel.Cond
				if sel.Kind == SSpread {
					ft.Spread = true
					if fr := d.Frag(sel.Name); fr != nil {
						cond = fr.Cond
					}
				}
				if cond == "" {
					continue
				}
				ct := s.Type(cond)
				if ct != nil && (ct.Kind == KInterface || ct.Kind == KUnion) {
					ft.AbstractCond = true
				} else if cond == container {
					continue
				} else if td != nil && td.Kind == KInterface {
					ft.ConcreteUnderInterface = true
				} else if td != nil && td.Kind == KUnion {
					ft.ConcreteUnderUnion = true
				}
			}
		}
	})
	return ft
}

// minimalSub gives the smallest valid sub-selection for a composite type.
func minimalSub(s *Schema, typeName string) []*Sel {
	td := s.Type(typeName)
	if td == nil {
		return nil
	}
	switch td.Kind {
	case KUnion:
		return []*Sel{In(td.Members[0], F("id"))}
	case KInterface:
		return []*Sel{F(td.Fields[0].Name)}
	}
	return []*Sel{F("id")}
}

// Menu lists the selections that may validly be added to a selection set whose container is typeName.
// level 0: leaves + composite fields with minimal sub-selections + same-type fragments
// level 1: additionally abstract-dispatch selections (the domain of C08)
func Menu(s *Schema, typeName string, level int) []*Sel {
	td := s.Type(typeName)
	if td == nil {
		return nil
	}
	var out []*Sel
	addField := func(fd *FieldDef) {
		if fd.Name == "pick" || fd.Name == "rev" || fd.Name == "tri" || fd.Name == "paint" {
			return // argument-heavy fields are exercised by dedicated documents
		}
		if fd.Name == "ghost" || fd.Name == "meet" {
			return // reflection has nothing to bind it to: only hand-written documents select it
		}
		if fd.Name == "vkids" {
			return // struct values have no pointer-receiver methods: only hand-written documents select below it
		}
		sel := F(fd.Name)
		if fd.Name == "echo" {
			sel = sel.WithArgs(Arg{"s", "x"}, Arg{"b", true})
		}
		if fd.Name == "set" {
			sel = sel.WithArgs(Arg{"s", "v"})
		}
		if !s.IsLeaf(fd.Type.Base()) {
			sel.Sels = minimalSub(s, fd.Type.Base())
		}
		out = append(out, sel)
	}
	switch td.Kind {
	case KObject:
		for _, fd := range td.Fields {
			addField(fd)
		}
		l1, l2 := leafFields(s, td)
		out = append(out, F("__typename"), In("", F(l1)), In(typeName, F(l2)))
		if level >= 1 {
			for _, i := range td.Implements {
				out = append(out, In(i, F("name")))
			}
			for _, u := range s.Types {
				if u.Kind == KUnion && s.Applies(u.Name, typeName) {
					out = append(out, In(u.Name, F("__typename")))
				}
			}
		}
	case KInterface:
		for _, fd := range td.Fields {
			addField(fd)
		}
		out = append(out, In("", F(td.Fields[0].Name)))
		if level >= 1 {
			out = append(out, F("__typename"))
			for _, o := range s.Types {
				if o.Kind == KObject && s.Applies(typeName, o.Name) {
					out = append(out, In(o.Name, F("s")))
				}
			}
		}
	case KUnion:
		for _, m := range td.Members {
			out = append(out, In(m, F("i")))
		}
		out = append(out, F("__typename"))
		if level >= 1 {
			out = append(out, In("Named", F("name")))
		}
	}
	return out
}

// Neighbours returns every document obtained from d by one mutation: add a menu selection at
// the end or the start of any selection set, delete a selection, alias a field (fresh alias or a
// sibling's key), duplicate a selection, wrap a selection in an inline fragment, move a set
// into a named fragment, attach @skip/@include.
func Neighbours(s *Schema, d *Doc, level int) []*Doc {
	var out []*Doc
	type site struct {
		idx       int
		container string
		n         int
	}
	var sites []site
	i := 0
	d.TypedWalk(s, func(set *[]*Sel, container string) {
		sites = append(sites, site{i, container, len(*set)})
		i++
	})
	// edit applies f to the idx-th selection set of a clone
	edit := func(idx int, f func(nd *Doc, set *[]*Sel)) {
		nd := d.Clone()
		j := 0
		nd.TypedWalk(s, func(set *[]*Sel, container string) {
			if j == idx {
				f(nd, set)
			}
			j++
		})
		out = append(out, nd)
	}
	for _, st := range sites {
		td := s.Type(st.container)
		for _, m := range Menu(s, st.container, level) {
			m := m
			edit(st.idx, func(nd *Doc, set *[]*Sel) { *set = append(*set, cloneSels([]*Sel{m})...) })
			if st.n > 0 {
				edit(st.idx, func(nd *Doc, set *[]*Sel) { *set = append(cloneSels([]*Sel{m}), *set...) })
			}
		}
		for k := 0; k < st.n; k++ {
			k := k
			if st.n > 1 {
				edit(st.idx, func(nd *Doc, set *[]*Sel) { *set = append((*set)[:k:k], (*set)[k+1:]...) })
			}
			// duplicate
			edit(st.idx, func(nd *Doc, set *[]*Sel) { *set = append(*set, cloneSels([]*Sel{(*set)[k]})...) })
			// wrap in an inline fragment without / with the container's own type condition
			edit(st.idx, func(nd *Doc, set *[]*Sel) { (*set)[k] = In("", (*set)[k]) })
			if td != nil && td.Kind == KObject {
				edit(st.idx, func(nd *Doc, set *[]*Sel) { (*set)[k] = In(st.container, (*set)[k]) })
			}
			// directives
			for _, dir := range []Dir{{"skip", true}, {"skip", false}, {"include", false}, {"include", true}} {
				dir := dir
				edit(st.idx, func(nd *Doc, set *[]*Sel) { (*set)[k] = (*set)[k].With(dir) })
			}
		}
		// aliases
		j := 0
		d.TypedWalk(s, func(set *[]*Sel, container string) {
			if j == st.idx {
				for k, sel := range *set {
					if sel.Kind != SField {
						continue
					}
					k := k
					edit(st.idx, func(nd *Doc, set *[]*Sel) { (*set)[k].Alias = "zz" })
					for k2, other := range *set {
						if k2 != k && other.Kind == SField && other.Key() != sel.Key() && sameShape(s, container, sel, other) {
							key := other.Key()
							edit(st.idx, func(nd *Doc, set *[]*Sel) { (*set)[k].Alias = key })
						}
					}
				}
			}
			j++
		})
		// move the whole set into a named fragment (only for object/interface/union containers)
		if td != nil && st.n > 0 {
			name := fmt.Sprintf("G%d", len(d.Frags)+1)
			cont := st.container
			edit(st.idx, func(nd *Doc, set *[]*Sel) {
				nd.Frags = append(nd.Frags, &Frag{Name: name, Cond: cont, Sels: *set})
				*set = []*Sel{Sp(name)}
			})
		}
	}
	return out
}

// sameShape: aliasing sel to other's key keeps the document valid only if both are leaves or both
// composites of the same field (GraphQL's "fields in set can merge" rule, conservatively).
func sameShape(s *Schema, container string, a, b *Sel) bool {
	return a.Name == b.Name && len(a.Args) == 0 && len(b.Args) == 0
}

// Hash key of a document: its one-line rendering.
func (d *Doc) KeyString() string {
	return strings.TrimSpace(d.Render(LOneLine))
}

// leafFields returns two argument-less leaf fields of an object type (the same one twice if it has only one).
func leafFields(s *Schema, td *TypeDef) (string, string) {
	var names []string
	for _, fd := range td.Fields {
		if s.IsLeaf(fd.Type.Base()) && fd.Type.K == TNamed && len(fd.Args) == 0 && !fd.Method {
			names = append(names, fd.Name)
		}
	}
	if len(names) == 0 {
		return "__typename", "__typename"
	}
	if len(names) == 1 {
		return names[0], names[0]
	}
	return names[1], names[len(names)-1]
}
