#!/bin/bash
# Builds the harness against $VERIF_REPO's current working tree (default /repo):
#   build/vcheck      - every check; pkg/ggql compiled through the overlay (sync -> scheduler shim)
#   build/vcheck_mem  - the same harness over the memory-access overlay (mc/cmd/mkinstr: every field / package
#                       variable access of pkg/ggql reported to the scheduler); used by C12 and C20. If the
#                       instrumentation or its build fails the file is removed and those checks fall back to
#                       build/vcheck (and say so in their evidence) - instrumentation is never a reason to fail.
#   build/vrace       - free-running race pass (no overlay, real sync, -race)        [only with RACE=1]
source "$(dirname "$0")/env.sh"
cd "$VERIF_DIR/mc" || exit 2
MODFILE="$VERIF_DIR/build/go.mod"
exec 9>"$VERIF_DIR/build/.lock"; flock 9
sed "s#=> /repo#=> $VERIF_REPO#" go.mod > "$MODFILE"
[ -f go.sum ] && cp go.sum "$VERIF_DIR/build/go.sum"
python3 "$VERIF_DIR/bin/mkoverlay.py" || exit 2
go build -modfile="$MODFILE" -overlay "$VERIF_DIR/build/overlay.json" -tags vsched -o "$VERIF_DIR/build/vcheck" ./cmd/vcheck || exit 2
rm -f "$VERIF_DIR/build/vcheck_mem"
if go build -modfile="$MODFILE" -o "$VERIF_DIR/build/mkinstr" ./cmd/mkinstr &&
   "$VERIF_DIR/build/mkinstr" "$VERIF_REPO" "$VERIF_DIR/build/ovm" "$VERIF_DIR/build/overlay_mem.json" "$VERIF_DIR/build/sites.json" "$VERIF_DIR/mc/vsyncsrc/vsync.go.txt"; then
  go build -modfile="$MODFILE" -overlay "$VERIF_DIR/build/overlay_mem.json" -tags vsched -o "$VERIF_DIR/build/vcheck_mem" ./cmd/vcheck 2>"$VERIF_DIR/build/vcheck_mem.err" ||
    { echo "build.sh: memory-access overlay did not compile (see build/vcheck_mem.err); C12/C20 use the plain overlay" >&2; rm -f "$VERIF_DIR/build/vcheck_mem"; }
else
  echo "build.sh: mkinstr failed; C12/C20 use the plain overlay" >&2
fi
if [ "${RACE:-1}" = "1" ]; then
  go build -modfile="$MODFILE" -race -o "$VERIF_DIR/build/vrace" ./cmd/vrace || exit 2
fi
