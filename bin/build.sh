#!/bin/bash
# Builds the harness against $VERIF_REPO's current working tree (default /repo).
source "$(dirname "$0")/env.sh"
cd "$VERIF_DIR/mc" || exit 2
MODFILE="$VERIF_DIR/build/go.mod"
sed "s#=> /repo#=> $VERIF_REPO#" go.mod > "$MODFILE"
[ -f go.sum ] && cp go.sum "$VERIF_DIR/build/go.sum"
# serialise concurrent builds (vp check runs checks one at a time, but be safe)
exec 9>"$VERIF_DIR/build/.lock"; flock 9
go build -modfile="$MODFILE" -o "$VERIF_DIR/build/vcheck" ./cmd/vcheck || exit 2
