// Package props wires each property's alphabet, bound and oracle.
package props

import (
	"encoding/json"
	"sort"
	"time"

	"verif/mc/core"
)

type Check struct {
	ID             string
	Run            func(c *core.Ctx)
	Replay         func(detail json.RawMessage) (ok bool, msg string)
	Rule           string // how cases are enumerated, what makes one distinct / non-trivial
	Technique      string
	Assumptions    []string
	QuickBudget    time.Duration
	ThoroughBudget time.Duration
	Workers        int // 0 = all cores
	ProcsPerWorker int // GOMAXPROCS of each worker (default 1)
	Resumable      bool          // cases are numbered (Ctx.NextCase): after a crash or hang the worker is restarted just past the announced case
	StallLimit     time.Duration // resumable checks: no progress of the case counter for this long = hang
}

var registry = map[string]*Check{}

func Register(c *Check) {
	if c.QuickBudget == 0 {
		c.QuickBudget = 60 * time.Second
	}
	if c.ThoroughBudget == 0 {
		c.ThoroughBudget = 15 * time.Minute
	}
	if c.StallLimit == 0 {
		c.StallLimit = 60 * time.Second
	}
	registry[c.ID] = c
}

func Get(id string) *Check { return registry[id] }

func IDs() []string {
	var ids []string
	for k := range registry {
		ids = append(ids, k)
	}
	sort.Strings(ids)
	return ids
}
