package props

import (
	"fmt"
	"regexp"
	"sort"
	"strings"
	"time"

	"github.com/uhn/ggql/pkg/ggql"

	"verif/mc/core"
	"verif/mc/world"
)

// C11 — resolving does not change the parsed request: results are repeatable (DESIGN 5.11).
//
// Explicit enumeration of call histories: every sequence of resolve calls (operation name x variable map)
// of length <= L on ONE parsed executable; after each call the response is compared with the response of
// the same call on a freshly parsed copy (same root), and Executable.String() with its value before the
// first call. Histories are not merged: hidden AST mutation is exactly what is being looked for.

func init() {
	Register(&Check{
		ID:  "C11",
		Run: runC11,
		Rule: "every call sequence of length <= L (quick 3, thorough 4) over a per-document menu of (operation, variables) calls, on one parsed executable, for 19 documents rich in the suspected carriers " +
			"(variables inside list / input-object literals, arguments out of order or omitted, several operations, a fragment spread under two container types, directives on variables, undeclared arguments, introspection fragments shared between operations, literals of another kind than the argument type) x RS/AS/FS; " +
			"oracle: differential with a fresh parse per call + printed form unchanged. distinct = (document, strategy, sequence); non-trivial = sequence has >= 2 different calls",
		Technique:      "explicit-state exploration of call histories on the real API with a fresh-parse differential oracle (no state merging)",
		Assumptions:    []string{"the fresh parse is resolved on the same root as the reused executable, so only the parsed request can carry state between calls"},
		QuickBudget:    60 * time.Second,
		ThoroughBudget: 15 * time.Minute,
	})
}

type c11Call struct {
	Op   string                 `json:"op"`
	Vars map[string]interface{} `json:"vars"`
}

// an Op that starts with c11LoadOp is not a request but a schema load on the same root (the parsed executable stays)
const c11LoadOp = "LOAD:"

type c11Base struct {
	Name  string
	Doc   *world.Doc
	Calls []c11Call
}

type c11Doc struct {
	c11Base
	Text string // with Doc == nil: the document as text (introspection, other schemas)
	Own  bool   // resolved on the C04 roots (one field per input type) instead of the universe
	// MkRoot: a root of the document's own (one configuration)
	MkRoot func() *ggql.Root
}

func c11Docs() []c11Base {
	F, Al := world.F, world.Al
	V := func(n string) world.VarRef { return world.VarRef(n) }
	A := func(n string, v interface{}) world.Arg { return world.Arg{Name: n, Value: v} }
	bases := world.BaseDocs()
	return []c11Base{
		{"vars-in-literals", &world.Doc{Ops: []*world.Op{{Type: "query", Name: "Q",
			Vars: []world.VarDef{{Name: "v", Type: "Int", HasDefault: true, Default: 1}, {Name: "s", Type: "String", HasDefault: true, Default: "d"}},
			Sels: []*world.Sel{
				F("pick").WithArgs(A("i", V("v")), A("ss", []interface{}{V("s"), "k"}), A("in", map[string]interface{}{"min": V("v"), "tag": V("s")})),
				F("a", F("pick").WithArgs(A("ids", []interface{}{"1", V("s")}), A("in", map[string]interface{}{"min": 2, "sub": map[string]interface{}{"min": V("v")}}))),
				F("kids", Al("p", F("pick").WithArgs(A("ss", []interface{}{V("s")}), A("e", world.EnumLit("RED"))))),
			}}}},
			[]c11Call{{"Q", nil}, {"Q", map[string]interface{}{"v": 5}}, {"Q", map[string]interface{}{"s": "z"}}, {"Q", map[string]interface{}{"v": 7, "s": "q"}}}},
		{"vars-nested-below-a-variable-free-list", &world.Doc{Ops: []*world.Op{{Type: "query", Name: "Q",
			Vars: []world.VarDef{{Name: "v", Type: "Int", HasDefault: true, Default: 1}},
			Sels: []*world.Sel{
				F("pick").WithArgs(A("fs", []interface{}{map[string]interface{}{"min": V("v")}, map[string]interface{}{"min": 9, "sub": map[string]interface{}{"min": V("v")}}}), A("m", []interface{}{[]interface{}{V("v"), 7}, []interface{}{}})),
				F("kids", F("pick").WithArgs(A("m", []interface{}{[]interface{}{1}, []interface{}{2, V("v")}}))),
			}}}},
			[]c11Call{{"Q", nil}, {"Q", map[string]interface{}{"v": 5}}, {"Q", map[string]interface{}{"v": 6}}}},
		{"input-object-variable-default", &world.Doc{Ops: []*world.Op{{Type: "query", Name: "Q",
			Vars: []world.VarDef{{Name: "f", Type: "Filter", HasDefault: true, Default: map[string]interface{}{"min": 1}}, {Name: "l", Type: "[Filter]", HasDefault: true, Default: []interface{}{map[string]interface{}{"min": 2}}}},
			Sels: []*world.Sel{F("pick").WithArgs(A("in", V("f")), A("fs", V("l"))), F("a", F("pick").WithArgs(A("in", V("f"))))}}}},
			[]c11Call{{"Q", nil}, {"Q", map[string]interface{}{"f": map[string]interface{}{"min": 3.0}}}, {"Q", map[string]interface{}{}},
				// round 10: a variable given as an explicit null (the key is there, the value is nil) beside one left out
				{"Q", map[string]interface{}{"f": nil}}, {"Q", map[string]interface{}{"f": nil, "l": nil}}}},
		{"list-variable-defaults", &world.Doc{Ops: []*world.Op{{Type: "query", Name: "Q",
			Vars: []world.VarDef{{Name: "ids", Type: "[ID!]", HasDefault: true, Default: []interface{}{1, 2, 3}}, {Name: "ss", Type: "[String]", HasDefault: true, Default: []interface{}{"a", nil}},
				{Name: "m", Type: "[[Int]]", HasDefault: true, Default: []interface{}{[]interface{}{1}, []interface{}{2, 3}}}, {Name: "one", Type: "[ID!]", HasDefault: true, Default: 7},
				{Name: "e", Type: "Color", HasDefault: true, Default: world.EnumLit("GREEN")}},
			Sels: []*world.Sel{F("pick").WithArgs(A("ids", V("ids")), A("ss", V("ss")), A("m", V("m")), A("e", V("e"))), F("a", F("pick").WithArgs(A("ids", V("one")), A("ss", V("ss")))),
				F("kids", F("pick").WithArgs(A("ids", V("ids")), A("m", V("m"))))}}}},
			[]c11Call{{"Q", nil}, {"Q", map[string]interface{}{"ids": []interface{}{"x"}}}, {"Q", map[string]interface{}{"m": []interface{}{[]interface{}{5.0}}, "e": "RED"}}, {"Q", map[string]interface{}{}},
				{"Q", map[string]interface{}{"ids": nil, "m": nil, "one": nil, "e": nil}}}},
		{"args-out-of-order", world.Q(
			F("echo").WithArgs(A("b", true), A("s", "x")), F("tri").WithArgs(A("c", "3"), A("a", "1"), A("b", "2")),
			F("a", F("echo").WithArgs(A("b", false), A("s", "y")), F("tri").WithArgs(A("b", "B"), A("c", "C"), A("a", "A")))),
			[]c11Call{{"", nil}, {"", map[string]interface{}{"unused": 1}}}},
		{"args-omitted", world.Q(
			F("tri").WithArgs(A("c", "3")), F("pick").WithArgs(A("e", world.EnumLit("BLUE"))), F("a", F("tri").WithArgs(A("b", "B")))),
			[]c11Call{{"", nil}, {"", map[string]interface{}{}}}},
		{"shared-fragment-two-containers", &world.Doc{Ops: []*world.Op{
			{Type: "query", Name: "Q1", Sels: []*world.Sel{F("a", world.Sp("FN"))}},
			{Type: "query", Name: "Q2", Sels: []*world.Sel{F("b", world.Sp("FN")), F("named", world.Sp("FN"))}},
			{Type: "query", Name: "Q3", Sels: []*world.Sel{F("b", world.Sp("FE")), F("a", world.Sp("FE")), F("nameds", world.Sp("FE"))}},
		}, Frags: []*world.Frag{
			{Name: "FN", Cond: "Named", Sels: []*world.Sel{F("name"), F("i"), F("kid", F("id"))}},
			{Name: "FE", Cond: "Named", Sels: []*world.Sel{F("echo").WithArgs(A("b", true), A("s", "fe"))}},
		}}, []c11Call{{"Q1", nil}, {"Q2", nil}, {"Q3", nil}, {"Nope", nil}}},
		{"directive-variables", bases[7], []c11Call{{"V", nil}, {"V", map[string]interface{}{"b": false}}, {"V", map[string]interface{}{"t": true, "s": "w"}}, {"", map[string]interface{}{"s": "w2"}}}},
		{"query-and-mutation", bases[6], []c11Call{{"Q", nil}, {"M", nil}, {"", nil}}},
		{"undeclared-argument", world.Q(F("a", F("i").WithArgs(A("zz", 1)), F("id")), F("kids", F("i").WithArgs(A("zz", 1))), F("echo").WithArgs(A("s", "x"), A("zz", true))),
			[]c11Call{{"", nil}, {"", map[string]interface{}{"x": 1}}}},
		{"toggle-skip", &world.Doc{Ops: []*world.Op{{Type: "query", Name: "T", Vars: []world.VarDef{{Name: "a", Type: "Boolean", HasDefault: true, Default: false}},
			Sels: []*world.Sel{F("a", F("id"), F("kid", F("id")).With(world.Dir{Name: "include", If: V("a")})).With(world.Dir{Name: "skip", If: V("a")}),
				F("kids", F("id")).With(world.Dir{Name: "include", If: V("a")})}}}},
			[]c11Call{{"T", nil}, {"T", map[string]interface{}{"a": true}}, {"T", map[string]interface{}{"a": false}}}},
		{"merged-keys", bases[8], []c11Call{{"", nil}, {"", map[string]interface{}{}}}},
	}
}

func c11AllDocs() []c11Doc {
	var out []c11Doc
	for _, b := range c11Docs() {
		out = append(out, c11Doc{c11Base: b})
	}
	return append(out,
		// introspection: two operations share a fragment on __Schema / __Type, one of them selects a field of the fragment once
		// more with other sub-fields (the two selections merge under one response key)
		c11Doc{c11Base: c11Base{Name: "introspection-shared-fragments", Calls: []c11Call{{"I1", nil}, {"I2", nil}, {"I3", nil}, {"I4", nil}, {"I5", nil}}}, Text: "query I1 { __schema { ...S types { kind } directives { name } } } query I2 { __schema { ...S } } " +
			"query I3 { __type(name: \"A\") { ...T fields { type { name } } } } query I4 { __type(name: \"A\") { ...T } } " +
			"query I5 { a { id } __schema { queryType { name fields { name } } } } " +
			"fragment S on __Schema { types { name } queryType { name } directives { locations } } fragment T on __Type { name fields { name } interfaces { name } }"},
		// literals written in another kind than the argument's type (an integer for an ID, a Float, an Int64; a string for an ID;
		// an enum for ...): coercion may not write its result back into the parsed request
		// a condition variable that has no value (nullable, no default, left out): the complaint must come every time
		c11Doc{c11Base: c11Base{Name: "condition-variable-without-value", Calls: []c11Call{{"T", nil}, {"T", map[string]interface{}{"a": true}}, {"T", map[string]interface{}{}}, {"T", map[string]interface{}{"a": false}}}},
			Text: "query T($a: Boolean) { a @skip(if: $a) { id } kids @include(if: $a) { id } i }"},
		// a fragment on an interface spread below two object types, one of which declares an argument the interface does not
		c11Doc{c11Base: c11Base{Name: "interface-fragment-under-two-objects", Calls: []c11Call{{"A", nil}, {"B", nil}, {"C", nil}}},
			Text:   "query A { dog { ...F } } query B { cat { ...F } } query C { pets { ...F } dog { ...G } } fragment F on Pet { name(style: \"x\") } fragment G on Pet { name(short: true) }",
			MkRoot: func() *ggql.Root { return c10PetRoot() }},
		// the schema grows between two resolutions of one parsed request that already selects the fields to come
		c11Doc{c11Base: c11Base{Name: "schema-extended-between-calls", Calls: []c11Call{{"", nil}, {c11LoadOp + "extend type Query { later: Int }\nextend type Box { weight: Int }\nextend interface Sized { weight: Int }\n", nil}, {"", map[string]interface{}{}}}},
			Text: "{ first later box { size weight } sized { size weight ... on Box { weight } } }",
			MkRoot: func() *ggql.Root {
				root := ggql.NewRoot(c16Dummy{})
				if err := root.ParseString("type Query { first: Int box: Box sized: Sized }\ninterface Sized { size: Int }\ntype Box implements Sized { size: Int }\n"); err != nil {
					panic(core.EngineError{Msg: "C11 own schema refused: " + err.Error()})
				}
				return root
			}},
		// a named fragment whose selections report an error every time it is resolved (a required argument left out)
		c11Doc{c11Base: c11Base{Name: "fragment-that-fails", Calls: []c11Call{{"A", nil}, {"B", nil}, {"A", map[string]interface{}{"x": 1}}}},
			Text: "query A { a { ...F } i } query B { kids { ...F id } } fragment F on A { id echo(b: true) }"},
		// a fragment that uses a variable, shared by an operation that defines the variable and one that does not
		c11Doc{c11Base: c11Base{Name: "fragment-variable-defined-by-one-operation", Calls: []c11Call{{"A", map[string]interface{}{"n": "x"}}, {"B", nil}, {"A", nil}, {"C", map[string]interface{}{"n": 3}}}},
			Text: "query A($n: String) { a { ...F } } query B { a { ...F } kids { ...F } } query C($n: Int) { a { pick(i: $n) ...F } } fragment F on A { tri(a: $n) pick(ss: [$n]) id }"},
		// list and object literals that hold a variable in some places and constants in others (first, middle, last member; a
		// variable one level down in a member that is not the last): what is constant about a literal is decided per member
		c11Doc{c11Base: c11Base{Name: "literals-half-variable", Calls: []c11Call{{"A", map[string]interface{}{"n": "x", "m": 1}}, {"A", map[string]interface{}{"n": "y", "m": 2}}, {"A", nil}, {"B", nil}, {"B", map[string]interface{}{"m": 9}}}},
			Text: "query A($n: String = \"dn\", $m: Int = 5) { a { ...F } p1: pick(ss: [$n, \"lit\"]) p2: pick(ss: [\"lit\", $n]) p3: pick(ss: [\"l\", $n, \"r\"]) p4: pick(fs: [{min: $m}, {min: 0}]) p5: pick(in: {min: 1, sub: {min: $m}}) p6: pick(ids: [$m, 10]) } " +
				"query B($m: Int = 7) { a { ...F } p4: pick(fs: [{min: $m}, {min: 0}]) p6: pick(ids: [$m, 10]) } fragment F on A { pick(fs: [{min: $m, sub: {min: 3}}, {min: 2}]) }"},
		// one named fragment with an object condition spread below a field of that object type and below abstract-typed fields
		// (interface list, union list), reached by different operations and by one operation with a switch: whether it applies is
		// a matter of the place and of the object, each time
		c11Doc{c11Base: c11Base{Name: "object-fragment-under-concrete-and-abstract-fields", Calls: []c11Call{{"X", nil}, {"Y", nil}, {"X", nil}, {"Z", map[string]interface{}{"off": true}}, {"Z", map[string]interface{}{"off": false}}, {"Y", nil}}},
			Text: "query X { as { ...FA } a { ...FA } } query Y { nameds { ...FA name } us { ...FA } named { ...FA } } " +
				"query Z($off: Boolean = false) { as @skip(if: $off) { ...FA } nameds { ...FA } kids { ...FA } } fragment FA on A { id i }"},
		c11Doc{c11Base: c11Base{Name: "literals-of-another-kind", Calls: []c11Call{{"", nil}, {"", map[string]interface{}{}}}}, Text: c11KindsText(), Own: true},
	)
}

// c11KindsText: every C04 field (9 input types x T and T!) given every literal kind, each under its own response key.
func c11KindsText() string {
	var b strings.Builder
	b.WriteString("{")
	lits := []string{"5", "-1", "1.5", "\"s\"", "\"7\"", "true", "RED", "{req: 1}", "[5]", "2147483648", "1e3"}
	for bi := range c04Bases {
		for w := 0; w < 2; w++ {
			for li, l := range lits {
				fmt.Fprintf(&b, " k%d_%d_%d: f%d_%d(x: %s)", bi, w, li, bi, w, l)
			}
		}
	}
	b.WriteString(" }")
	return b.String()
}

var opStart = regexp.MustCompile(`(?m)^(query|mutation|subscription|fragment)\b`)

// canonExeString sorts the top-level blocks of Executable.String() (operations are printed in map order).
func canonExeString(s string) string {
	idx := opStart.FindAllStringIndex(s, -1)
	var chunks []string
	for i, m := range idx {
		end := len(s)
		if i+1 < len(idx) {
			end = idx[i+1][0]
		}
		chunks = append(chunks, strings.TrimSpace(s[m[0]:end]))
	}
	sort.Strings(chunks)
	return strings.Join(chunks, "\n")
}

func c11Resolve(root *ggql.Root, run *world.Run, exe *ggql.Executable, call c11Call) (string, *core.PanicInfo) {
	var res map[string]interface{}
	var err error
	pi := core.Safe(func() { res, err = root.ResolveExecutable(exe, call.Op, call.Vars) })
	if pi != nil {
		return "", pi
	}
	o := &world.Obs{}
	if res == nil {
		res = map[string]interface{}{}
	}
	if err != nil {
		res["errors"] = ggql.FormErrorsResult(err)
	}
	var msgs []string
	if es, ok := res["errors"].([]interface{}); ok {
		for _, e := range es {
			if em, ok := e.(map[string]interface{}); ok {
				msgs = append(msgs, fmt.Sprintf("%v@%v", em["message"], world.PathString(asPath(em["path"]))))
			}
		}
	}
	sort.Strings(msgs)
	if d, ok := res["data"]; ok {
		o.Data = world.Canon(d)
	}
	return string(toJSON(o.Data)) + "\nerrors: " + strings.Join(msgs, " ; "), nil
}

func asPath(v interface{}) []interface{} {
	p, _ := v.([]interface{})
	return p
}

func runC11(c *core.Ctx) {
	ggql.Sort = true // map literals print in key order, so the printed form is comparable
	defer func() { ggql.Sort = false }()
	s := world.Universe(world.UniverseOpts{})
	g0 := world.BaseGraph(0)
	gfs := g0.FSView(s)
	maxLen := 3
	if c.Thorough() {
		maxLen = 4
	}
	cfgs := []namedCfg{
		{"RS", world.Config{Strat: world.RS, Schema: s}},
		{"AS", world.Config{Strat: world.AS, Schema: s}},
		{"FS/register", world.Config{Strat: world.FS, Bind: world.BindRegister, Schema: s}},
		{"FS/byname", world.Config{Strat: world.FS, Bind: world.BindByName, Schema: s}},
	}
	var idx int64
	completed := true
	for _, cd := range c11AllDocs() {
		text := cd.Text
		var ft world.DocFeatures
		if cd.Doc != nil {
			text = cd.Doc.Render(world.LOneLine)
			ft = cd.Doc.Features(s)
		}
		for ci, nc := range cfgs {
			if cd.MkRoot != nil && ci > 0 {
				continue
			}
			if nc.Cfg.Strat != world.FS && (ft.UnionField || ft.AbstractCond) && cd.Name != "shared-fragment-two-containers" {
				continue
			}
			g := g0
			if nc.Cfg.Strat == world.FS {
				g = gfs
			}
			var seq []int
			var rec func()
			rec = func() {
				if len(seq) > 0 {
					idx++
					if c.OwnsIdx(idx) {
						if c.Expired() {
							completed = false
							return
						}
						c11Run(c, cd, nc, g, text, seq)
					}
				}
				if len(seq) == maxLen {
					return
				}
				for i := range cd.Calls {
					seq = append(seq, i)
					rec()
					seq = seq[:len(seq)-1]
				}
			}
			rec()
			// one long history: the first call 130 times over (more often than any depth or nesting limit), then every call once
			idx++
			if c.OwnsIdx(idx) && !c.Expired() {
				long := make([]int, 130)
				for i := range cd.Calls {
					long = append(long, i)
				}
				c11Run(c, cd, nc, g, text, long)
			}
		}
	}
	c.R.Bound = fmt.Sprintf("all call sequences of length <= %d; one history of 130 repetitions per document and configuration", maxLen)
	if !completed {
		c.Cap("deadline reached")
	}
}

func c11Run(c *core.Ctx, cd c11Doc, nc namedCfg, g *world.Graph, text string, seq []int) {
	distinctCalls := map[int]bool{}
	for _, i := range seq {
		distinctCalls[i] = true
	}
	if len(distinctCalls) >= 2 {
		c.Nontrivial()
	}
	var root *ggql.Root
	var run *world.Run
	if cd.MkRoot != nil {
		root = cd.MkRoot()
	} else if cd.Own {
		root, _ = c04Root(nc.Cfg.Strat, c04SDL())
	} else {
		var err error
		if root, run, err = world.BuildRoot(nc.Cfg, g); err != nil {
			panic(core.EngineError{Msg: err.Error()})
		}
	}
	var exe *ggql.Executable
	var perr error
	if pi := core.Safe(func() { exe, perr = root.ParseExecutableString(text) }); pi != nil || perr != nil {
		if pi != nil {
			c.Violation("panic", map[string]string{"site": pi.Site, "class": pi.Class, "doc": cd.Name}, map[string]interface{}{"query": text})
		}
		// a document rejected at parse time has no executable to reuse: nothing to check
		c.Count("rejected_at_parse")
		return
	}
	before := canonExeString(exe.String())
	var calls []c11Call
	for step, ci := range seq {
		call := cd.Calls[ci]
		calls = append(calls, call)
		if strings.HasPrefix(call.Op, c11LoadOp) {
			_ = root.ParseString(strings.TrimPrefix(call.Op, c11LoadOp)) // a second time it is refused (duplicates): the root stays as it is
			before = canonExeString(exe.String())
			continue
		}
		c.Eval()
		got, pi := c11Resolve(root, run, exe, call)
		detail := func(msg, want string) map[string]interface{} {
			return map[string]interface{}{"config": nc.Name, "query": text, "calls": calls, "step": step, "diff": msg, "reused": got, "fresh": want, "printed_before": before, "printed_after": canonExeString(exe.String())}
		}
		if pi != nil {
			c.Outcome("panic")
			c.Violation("panic", map[string]string{"site": pi.Site, "class": pi.Class, "doc": cd.Name}, detail(pi.Value, ""))
			return
		}
		var fexe *ggql.Executable
		fexe, perr = root.ParseExecutableString(text)
		if perr != nil {
			panic(core.EngineError{Msg: "fresh parse failed after first parse succeeded: " + perr.Error()})
		}
		want, pi2 := c11Resolve(root, run, fexe, call)
		if pi2 != nil {
			c.Violation("panic", map[string]string{"site": pi2.Site, "class": pi2.Class, "doc": cd.Name}, detail(pi2.Value, ""))
			return
		}
		if got != want {
			c.Outcome("history-diff")
			c.Violation("history-diff", map[string]string{"doc": cd.Name, "strategy": nc.Cfg.Strat.String(), "first_bad_step": fmt.Sprint(step)}, detail("response differs from a fresh parse", want))
			return
		}
		if after := canonExeString(exe.String()); after != before {
			c.Outcome("printed-form-changed")
			c.Violation("printed-form-changed", map[string]string{"doc": cd.Name, "strategy": nc.Cfg.Strat.String()}, detail("Executable.String() changed", ""))
			return
		}
	}
	c.Outcome("repeatable")
	c.Sample(func() interface{} { return map[string]interface{}{"doc": cd.Name, "config": nc.Name, "calls": calls} })
}
