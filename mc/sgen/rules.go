package sgen

import (
	"fmt"
	"math"
	"regexp"
	"time"

	"verif/mc/world"
)

// RuleViolation is one broken type-system rule found by the reference checker.
type RuleViolation struct {
	Rule     string // R1 ... R14
	Offender string // the name an error message is expected to mention
	Msg      string
}

var nameRe = regexp.MustCompile(`^[_A-Za-z][_0-9A-Za-z]*$`)

var builtinScalars = map[string]bool{"Int": true, "Float": true, "String": true, "Boolean": true, "ID": true, "Int64": true, "Float64": true, "Time": true}

type builtinDir struct {
	locs []string
	args map[string]*T
}

var builtinDirs = map[string]builtinDir{
	"skip":       {[]string{"FIELD", "FRAGMENT_SPREAD", "INLINE_FRAGMENT"}, map[string]*T{"if": NN(N("Boolean"))}},
	"include":    {[]string{"FIELD", "FRAGMENT_SPREAD", "INLINE_FRAGMENT"}, map[string]*T{"if": NN(N("Boolean"))}},
	"deprecated": {[]string{"FIELD_DEFINITION", "ENUM_VALUE"}, map[string]*T{"reason": N("String")}},
	"go":         {[]string{"SCHEMA", "QUERY", "MUTATION", "SUBSCRIPTION", "OBJECT", "FIELD_DEFINITION"}, map[string]*T{"type": NN(N("String"))}},
}

func (s *Schema) kindOf(name string) Kind {
	if builtinScalars[name] {
		return KScalar
	}
	if d := s.Def(name); d != nil {
		return d.Kind
	}
	return ""
}

func (s *Schema) isInputType(name string) bool {
	k := s.kindOf(name)
	return k == KScalar || k == KEnum || k == KInput
}

func (s *Schema) isOutputType(name string) bool {
	k := s.kindOf(name)
	return k == KScalar || k == KEnum || k == KObject || k == KInterface || k == KUnion
}

func doubleNonNull(t *T) bool {
	for t != nil {
		if t.K == world.TNonNull && t.Of != nil && t.Of.K == world.TNonNull {
			return true
		}
		t = t.Of
	}
	return false
}

func typeEqual(a, b *T) bool {
	if a.K != b.K {
		return false
	}
	if a.K == world.TNamed {
		return a.Name == b.Name
	}
	return typeEqual(a.Of, b.Of)
}

// isSubType: sub may stand where target is declared (interface field covariance).
func (s *Schema) isSubType(target, sub *T) bool {
	if typeEqual(target, sub) {
		return true
	}
	if sub.K == world.TNonNull && target.K != world.TNonNull {
		return s.isSubType(target, sub.Of)
	}
	switch target.K {
	case world.TNamed:
		if sub.K != world.TNamed {
			return false
		}
		td, sd := s.Def(target.Name), s.Def(sub.Name)
		if td == nil || sd == nil {
			return false
		}
		if td.Kind == KUnion {
			for _, m := range td.Members {
				if m == sub.Name {
					return true
				}
			}
		}
		if td.Kind == KInterface && sd.Kind == KObject {
			for _, i := range sd.Implements {
				if i == target.Name {
					return true
				}
			}
		}
	case world.TList:
		if sub.K == world.TList {
			return s.isSubType(target.Of, sub.Of)
		}
	case world.TNonNull:
		if sub.K == world.TNonNull {
			return s.isSubType(target.Of, sub.Of)
		}
	}
	return false
}

// Coercible: constant v can be coerced to input type t.
func (s *Schema) Coercible(t *T, v Val) bool {
	if _, isVar := v.(world.VarRef); isVar {
		return true
	}
	switch t.K {
	case world.TNonNull:
		return v != nil && s.Coercible(t.Of, v)
	case world.TList:
		if v == nil {
			return true
		}
		if l, ok := v.([]interface{}); ok {
			for _, e := range l {
				if !s.Coercible(t.Of, e) {
					return false
				}
			}
			return true
		}
		return false // ggql does not coerce a single value into a list; over-rejection is fine for the generator
	}
	if v == nil {
		return true
	}
	switch t.Name {
	case "Int":
		i, ok := v.(int)
		return ok && i >= math.MinInt32 && i <= math.MaxInt32
	case "Int64":
		_, ok := v.(int)
		return ok
	case "Float", "Float64":
		switch v.(type) {
		case int, float64:
			return true
		}
		return false
	case "String":
		_, ok := v.(string)
		return ok
	case "ID":
		switch v.(type) {
		case string, int:
			return true
		}
		return false
	case "Boolean":
		_, ok := v.(bool)
		return ok
	case "Time":
		st, ok := v.(string)
		if !ok {
			return false
		}
		_, err := time.Parse(time.RFC3339Nano, st)
		return err == nil
	}
	d := s.Def(t.Name)
	if d == nil {
		return false
	}
	switch d.Kind {
	case KEnum:
		e, ok := v.(world.EnumLit)
		if !ok {
			return false
		}
		for _, ev := range d.Values {
			if ev.Name == string(e) {
				return true
			}
		}
		return false
	case KInput:
		m, ok := v.(map[string]interface{})
		if !ok {
			return false
		}
		for k, fv := range m {
			f := d.Field(k)
			if f == nil || !s.Coercible(f.Type, fv) {
				return false
			}
		}
		for _, f := range d.Fields {
			if _, has := m[f.Name]; !has && !f.HasDef && f.Type.K == world.TNonNull {
				return false
			}
		}
		return true
	case KScalar:
		return true // custom scalar: anything goes
	}
	return false
}

// WellFormed runs the rule catalogue over the schema (extend blocks folded in) and returns every violation.
func (s0 *Schema) WellFormed() []RuleViolation {
	var out []RuleViolation
	add := func(rule, offender, format string, a ...interface{}) {
		out = append(out, RuleViolation{rule, offender, fmt.Sprintf(format, a...)})
	}
	// duplicates among non-extend definitions are detected before merging
	seenT, seenD := map[string]bool{}, map[string]bool{}
	for _, d := range s0.Defs {
		if d.Extend {
			if d.Kind != KDirective && s0.Def(d.Name) == nil {
				add("R1", d.Name, "extend of undefined %s", d.Name)
			} else if t := s0.Def(d.Name); t != nil && t.Kind != d.Kind {
				add("R1", d.Name, "extend kind mismatch for %s", d.Name)
			}
			continue
		}
		if d.Kind == KDirective {
			if seenD[d.Name] || builtinDirs[d.Name].locs != nil {
				add("R3", d.Name, "duplicate directive %s", d.Name)
			}
			seenD[d.Name] = true
		} else {
			if seenT[d.Name] || (builtinScalars[d.Name] && d.Kind != KScalar) {
				add("R3", d.Name, "duplicate type %s", d.Name)
			}
			seenT[d.Name] = true
		}
	}
	s := s0.Merged()
	checkName := func(what, name string) {
		if !nameRe.MatchString(name) {
			add("R4", name, "%s name %q is malformed", what, name)
		} else if len(name) >= 2 && name[:2] == "__" {
			add("R5", name, "%s name %q is reserved", what, name)
		}
	}
	checkDirs := func(where, loc string, ds []DirUse) {
		seenUse := map[string]bool{}
		for _, du := range ds {
			if seenUse[du.Name] {
				add("R3", du.Name, "directive @%s repeated on %s", du.Name, where)
			}
			seenUse[du.Name] = true
			var locs []string
			var argT func(string) (*T, bool, bool) // type, hasDefault, found
			if bd, ok := builtinDirs[du.Name]; ok {
				locs = bd.locs
				argT = func(n string) (*T, bool, bool) { t, ok := bd.args[n]; return t, du.Name == "deprecated", ok }
			} else if dd := s.Directive(du.Name); dd != nil {
				locs = dd.Locations
				argT = func(n string) (*T, bool, bool) {
					for _, a := range dd.Args {
						if a.Name == n {
							return a.Type, a.HasDef, true
						}
					}
					return nil, false, false
				}
			} else {
				add("R2", du.Name, "undefined directive @%s on %s", du.Name, where)
				continue
			}
			found := false
			for _, l := range locs {
				if l == loc {
					found = true
				}
			}
			if !found {
				add("R10", du.Name, "directive @%s not allowed on %s (%s)", du.Name, where, loc)
				continue
			}
			for _, a := range du.Args {
				t, _, ok := argT(a.Name)
				if !ok {
					add("R10", du.Name, "directive @%s has no argument %s (on %s)", du.Name, a.Name, where)
					continue
				}
				if s.kindOf(t.Base()) != "" && !s.Coercible(t, a.Value) {
					add("R10", du.Name, "directive @%s argument %s not coercible (on %s)", du.Name, a.Name, where)
				}
			}
		}
	}
	checkArgs := func(where, argLoc string, as []*Arg) {
		seen := map[string]bool{}
		for _, a := range as {
			checkName("argument", a.Name)
			if seen[a.Name] {
				add("R3", a.Name, "duplicate argument %s on %s", a.Name, where)
			}
			seen[a.Name] = true
			if doubleNonNull(a.Type) {
				add("R13", a.Name, "non-null of non-null on %s.%s", where, a.Name)
			}
			bn := a.Type.Base()
			if s.kindOf(bn) == "" {
				add("R1", bn, "argument %s.%s has undefined type %s", where, a.Name, bn)
			} else if !s.isInputType(bn) {
				add("R6", a.Name, "argument %s.%s of output type %s", where, a.Name, bn)
			}
			checkDirs(where+"."+a.Name, argLoc, a.Dirs)
		}
	}
	for _, d := range s.Defs {
		kindWord := "type"
		if d.Kind == KDirective {
			kindWord = "directive"
		}
		checkName(kindWord, d.Name)
		switch d.Kind {
		case KObject, KInterface:
			loc := map[Kind]string{KObject: "OBJECT", KInterface: "INTERFACE"}[d.Kind]
			checkDirs(d.Name, loc, d.Dirs)
			if len(d.Fields) == 0 {
				add("R9", d.Name, "%s has no fields", d.Name)
			}
			seen := map[string]bool{}
			for _, f := range d.Fields {
				checkName("field", f.Name)
				if seen[f.Name] {
					add("R3", f.Name, "duplicate field %s.%s", d.Name, f.Name)
				}
				seen[f.Name] = true
				if doubleNonNull(f.Type) {
					add("R13", f.Name, "non-null of non-null on %s.%s", d.Name, f.Name)
				}
				bn := f.Type.Base()
				if s.kindOf(bn) == "" {
					add("R1", bn, "field %s.%s has undefined type %s", d.Name, f.Name, bn)
				} else if !s.isOutputType(bn) {
					add("R6", f.Name, "field %s.%s returns input type %s", d.Name, f.Name, bn)
				}
				checkArgs(d.Name+"."+f.Name, "ARGUMENT_DEFINITION", f.Args)
				checkDirs(d.Name+"."+f.Name, "FIELD_DEFINITION", f.Dirs)
			}
			seenI := map[string]bool{}
			for _, in := range d.Implements {
				if seenI[in] {
					add("R3", in, "duplicate interface %s on %s", in, d.Name)
				}
				seenI[in] = true
				id := s.Def(in)
				if id == nil {
					add("R1", in, "%s implements undefined %s", d.Name, in)
					continue
				}
				if id.Kind != KInterface {
					add("R7", in, "%s implements %s which is not an interface", d.Name, in)
					continue
				}
				for _, fi := range id.Fields {
					fo := d.Field(fi.Name)
					if fo == nil {
						add("R7", fi.Name, "%s misses field %s of interface %s", d.Name, fi.Name, in)
						continue
					}
					if s.kindOf(fo.Type.Base()) != "" && s.kindOf(fi.Type.Base()) != "" && !s.isSubType(fi.Type, fo.Type) {
						add("R7", fi.Name, "%s.%s type %s is not a sub-type of %s.%s %s", d.Name, fo.Name, fo.Type, in, fi.Name, fi.Type)
					}
					for _, ai := range fi.Args {
						var ao *Arg
						for _, x := range fo.Args {
							if x.Name == ai.Name {
								ao = x
							}
						}
						if ao == nil {
							add("R7", ai.Name, "%s.%s misses argument %s of interface %s", d.Name, fo.Name, ai.Name, in)
						} else if !typeEqual(ai.Type, ao.Type) {
							add("R7", ai.Name, "%s.%s argument %s type differs from interface %s", d.Name, fo.Name, ai.Name, in)
						}
					}
					for _, ao := range fo.Args {
						has := false
						for _, ai := range fi.Args {
							if ai.Name == ao.Name {
								has = true
							}
						}
						if !has && ao.Type.K == world.TNonNull {
							add("R7", ao.Name, "%s.%s additional argument %s must be optional (interface %s)", d.Name, fo.Name, ao.Name, in)
						}
					}
				}
			}
		case KInput:
			checkDirs(d.Name, "INPUT_OBJECT", d.Dirs)
			if len(d.Fields) == 0 {
				add("R9", d.Name, "%s has no fields", d.Name)
			}
			seen := map[string]bool{}
			for _, f := range d.Fields {
				checkName("input field", f.Name)
				if seen[f.Name] {
					add("R3", f.Name, "duplicate input field %s.%s", d.Name, f.Name)
				}
				seen[f.Name] = true
				if doubleNonNull(f.Type) {
					add("R13", f.Name, "non-null of non-null on %s.%s", d.Name, f.Name)
				}
				bn := f.Type.Base()
				if s.kindOf(bn) == "" {
					add("R1", bn, "input field %s.%s has undefined type %s", d.Name, f.Name, bn)
				} else if !s.isInputType(bn) {
					add("R6", f.Name, "input field %s.%s of output type %s", d.Name, f.Name, bn)
				}
				checkDirs(d.Name+"."+f.Name, "INPUT_FIELD_DEFINITION", f.Dirs)
			}
		case KUnion:
			checkDirs(d.Name, "UNION", d.Dirs)
			if len(d.Members) == 0 {
				add("R8", d.Name, "union %s has no members", d.Name)
			}
			seen := map[string]bool{}
			for _, m := range d.Members {
				if seen[m] {
					add("R3", m, "duplicate union member %s in %s", m, d.Name)
				}
				seen[m] = true
				switch s.kindOf(m) {
				case "":
					add("R1", m, "union %s has undefined member %s", d.Name, m)
				case KObject:
				default:
					add("R8", m, "union %s member %s is not an object", d.Name, m)
				}
			}
		case KEnum:
			checkDirs(d.Name, "ENUM", d.Dirs)
			if len(d.Values) == 0 {
				add("R9", d.Name, "enum %s has no values", d.Name)
			}
			seen := map[string]bool{}
			for _, v := range d.Values {
				checkName("enum value", v.Name)
				if v.Name == "true" || v.Name == "false" || v.Name == "null" {
					add("R12", v.Name, "enum value %s in %s", v.Name, d.Name)
				}
				if seen[v.Name] {
					add("R3", v.Name, "duplicate enum value %s.%s", d.Name, v.Name)
				}
				seen[v.Name] = true
				checkDirs(d.Name+"."+v.Name, "ENUM_VALUE", v.Dirs)
			}
		case KScalar:
			checkDirs(d.Name, "SCALAR", d.Dirs)
		case KDirective:
			checkArgs("@"+d.Name, "ARGUMENT_DEFINITION", d.Args)
			// R11 cycles through directive uses on directive arguments
			var walk func(name string, path map[string]bool) bool
			walk = func(name string, path map[string]bool) bool {
				dd := s.Directive(name)
				if dd == nil {
					return false
				}
				for _, a := range dd.Args {
					for _, du := range a.Dirs {
						if path[du.Name] {
							return true
						}
						path[du.Name] = true
						if walk(du.Name, path) {
							return true
						}
						delete(path, du.Name)
					}
				}
				return false
			}
			if walk(d.Name, map[string]bool{d.Name: true}) {
				add("R11", d.Name, "directive %s is in a definition cycle", d.Name)
			}
		}
	}
	if len(s.Blocks) > 0 {
		checkDirs("schema", "SCHEMA", s.Blocks[0].Dirs)
	}
	q, m, su := s.RootTypes()
	for _, r := range []string{q, m, su} {
		if r == "" {
			continue
		}
		if s.kindOf(r) == "" {
			add("R1", r, "root operation type %s undefined", r)
		} else if s.kindOf(r) != KObject {
			add("R14", r, "root operation type %s is not an object", r)
		}
	}
	return out
}
