#!/usr/bin/env python3
"""Generates build/overlay.json from the CURRENT working tree of $VERIF_REPO/pkg/ggql:
every non-test .go file importing "sync" is copied to build/ov/ with that import rewritten to the
scheduler shim, and the shim is installed as the virtual package github.com/uhn/ggql/pkg/vsync."""
import json, os, re, sys, glob
V = os.environ.get("VERIF_DIR", "/verif"); R = os.environ.get("VERIF_REPO", "/repo")
ov = os.path.join(V, "build", "ov"); os.makedirs(ov, exist_ok=True)
for f in glob.glob(os.path.join(ov, "*.go")): os.remove(f)
rep = {}
n = 0
for f in sorted(glob.glob(os.path.join(R, "pkg", "ggql", "*.go"))):
    if f.endswith("_test.go"): continue
    s = open(f).read()
    if not re.search(r'^\s*"sync"\s*$', s, re.M): continue
    s2 = re.sub(r'^(\s*)"sync"(\s*)$', r'\1sync "github.com/uhn/ggql/pkg/vsync"\2', s, count=1, flags=re.M)
    out = os.path.join(ov, os.path.basename(f)); open(out, "w").write(s2); rep[f] = out; n += 1
rep[os.path.join(R, "pkg", "vsync", "vsync.go")] = os.path.join(V, "mc", "vsyncsrc", "vsync.go.txt")
json.dump({"Replace": rep}, open(os.path.join(V, "build", "overlay.json"), "w"), indent=1)
print("overlay: %d files of pkg/ggql use sync" % n, file=sys.stderr)
if n == 0: sys.exit("no file of pkg/ggql imports sync: the scheduler would see nothing")
