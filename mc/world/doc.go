package world

import (
	"fmt"
	"sort"
	"strings"
)

// ---------------------------------------------------------------- abstract documents

type SelKind int

const (
	SField SelKind = iota
	SInline
	SSpread
)

// VarRef is a reference to a variable inside an argument or directive.
type VarRef string

// EnumLit is an enum literal (rendered bare).
type EnumLit string

type Arg struct {
	Name  string
	Value interface{} // nil, bool, int, float64, string, EnumLit, VarRef, []interface{}, map[string]interface{}
}

type Dir struct {
	Name string      // skip | include | other
	If   interface{} // bool or VarRef (nil = no argument)
}

type Sel struct {
	Kind  SelKind
	Alias string
	Name  string // field name, or fragment name for a spread
	Args  []Arg
	Cond  string // inline fragment type condition ("" = none)
	Dirs  []Dir
	Sels  []*Sel

	// filled in by Render: position of the selection's first token (1-based)
	Line, Col int
}

func (s *Sel) Key() string {
	if s.Alias != "" {
		return s.Alias
	}
	return s.Name
}

type VarDef struct {
	Name       string
	Type       string // SDL type expression
	HasDefault bool
	Default    interface{}
}

type Op struct {
	Type string // query | mutation | subscription
	Name string // "" with Anonymous = shorthand "{...}"
	Anon bool   // render as bare selection set (only valid for an unnamed query without variables)
	Vars []VarDef
	Sels []*Sel
	Dirs []Dir // directive uses on the operation (a named or keyword operation only)
}

type Frag struct {
	Name string
	Cond string
	Sels []*Sel
	Dirs []Dir // directive uses on the definition itself
}

type Doc struct {
	Ops   []*Op
	Frags []*Frag
	// FragsFirst renders the fragment definitions before the operations (each spread then meets a definition already read)
	FragsFirst bool
}

func (d *Doc) Frag(name string) *Frag {
	for _, f := range d.Frags {
		if f.Name == name {
			return f
		}
	}
	return nil
}

// constructors used by the base documents
func F(name string, sels ...*Sel) *Sel { return &Sel{Kind: SField, Name: name, Sels: sels} }
func Al(alias string, s *Sel) *Sel     { c := *s; c.Alias = alias; return &c }
func In(cond string, sels ...*Sel) *Sel {
	return &Sel{Kind: SInline, Cond: cond, Sels: sels}
}
func Sp(name string) *Sel { return &Sel{Kind: SSpread, Name: name} }
func (s *Sel) With(d ...Dir) *Sel {
	c := *s
	c.Dirs = append(append([]Dir{}, s.Dirs...), d...)
	return &c
}
func (s *Sel) WithArgs(a ...Arg) *Sel {
	c := *s
	c.Args = append(append([]Arg{}, s.Args...), a...)
	return &c
}
func Q(sels ...*Sel) *Doc { return &Doc{Ops: []*Op{{Type: "query", Anon: true, Sels: sels}}} }

// Clone deep-copies a document.
func (d *Doc) Clone() *Doc {
	nd := &Doc{FragsFirst: d.FragsFirst}
	for _, o := range d.Ops {
		no := *o
		no.Dirs = append([]Dir{}, o.Dirs...)
		no.Vars = append([]VarDef{}, o.Vars...)
		no.Sels = cloneSels(o.Sels)
		nd.Ops = append(nd.Ops, &no)
	}
	for _, f := range d.Frags {
		nf := *f
		nf.Dirs = append([]Dir{}, f.Dirs...)
		nf.Sels = cloneSels(f.Sels)
		nd.Frags = append(nd.Frags, &nf)
	}
	return nd
}

func cloneSels(sels []*Sel) []*Sel {
	if sels == nil {
		return nil
	}
	out := make([]*Sel, len(sels))
	for i, s := range sels {
		c := *s
		c.Args = append([]Arg{}, s.Args...)
		c.Dirs = append([]Dir{}, s.Dirs...)
		c.Sels = cloneSels(s.Sels)
		out[i] = &c
	}
	return out
}

// Walk visits every selection set of the document (operation and fragment bodies, nested sets)
// together with a pointer allowing replacement.
func (d *Doc) Walk(f func(set *[]*Sel)) {
	var rec func(set *[]*Sel)
	rec = func(set *[]*Sel) {
		f(set)
		for _, s := range *set {
			if s.Kind != SSpread && len(s.Sels) > 0 {
				rec(&s.Sels)
			}
		}
	}
	for _, o := range d.Ops {
		rec(&o.Sels)
	}
	for _, fr := range d.Frags {
		rec(&fr.Sels)
	}
}

// ---------------------------------------------------------------- rendering

// Layout of the rendered text.
type Layout int

const (
	LOneLine Layout = iota // everything on one line
	LLines                 // one selection per line, LF
	LCRLF                  // one selection per line, CRLF
	LComments              // one selection per line with a # comment after each
	LCommas                // one line, commas between selections and arguments
	LTight                 // minimal whitespace
	NLayouts
)

type renderer struct {
	b      strings.Builder
	layout Layout
	line   int
	col    int
	depth  int
}

func (r *renderer) w(s string) {
	for _, ch := range s {
		if ch == '\n' {
			r.line++
			r.col = 1
		} else {
			r.col++
		}
	}
	r.b.WriteString(s)
}

func (r *renderer) nl() {
	switch r.layout {
	case LLines:
		r.w("\n" + strings.Repeat("  ", r.depth))
	case LCRLF:
		r.w("\r\n" + strings.Repeat("  ", r.depth))
	case LComments:
		r.w(" # c\n" + strings.Repeat("  ", r.depth))
	case LCommas:
		r.w(", ")
	case LTight:
		// separators are added only where tokens would otherwise merge
	default:
		r.w(" ")
	}
}

func (r *renderer) sp() {
	if r.layout != LTight {
		r.w(" ")
	}
}

// ValueText renders an argument value as GraphQL text.
func ValueText(v interface{}) string {
	switch tv := v.(type) {
	case nil:
		return "null"
	case bool:
		if tv {
			return "true"
		}
		return "false"
	case int:
		return fmt.Sprint(tv)
	case int64:
		return fmt.Sprint(tv)
	case float64:
		return strings.Replace(fmt.Sprintf("%g", tv), "e+", "e", 1)
	case string:
		return GQLQuote(tv)
	case EnumLit:
		return string(tv)
	case VarRef:
		return "$" + string(tv)
	case RawLit:
		return string(tv)
	case []interface{}:
		parts := make([]string, len(tv))
		for i, e := range tv {
			parts[i] = ValueText(e)
		}
		return "[" + strings.Join(parts, ", ") + "]"
	case map[string]interface{}:
		keys := make([]string, 0, len(tv))
		for k := range tv {
			keys = append(keys, k)
		}
		sort.Strings(keys)
		parts := make([]string, len(keys))
		for i, k := range keys {
			if isBareKey(k) {
				parts[i] = k + ": " + ValueText(tv[k])
			} else {
				parts[i] = GQLQuote(k) + ": " + ValueText(tv[k]) // free-form objects (custom scalars) may carry any key
			}
		}
		return "{" + strings.Join(parts, ", ") + "}"
	}
	panic(fmt.Sprintf("ValueText: %T", v))
}

// isBareKey: an ASCII GraphQL name.
func isBareKey(k string) bool {
	if k == "" {
		return false
	}
	for i := 0; i < len(k); i++ {
		b := k[i]
		if !(b == '_' || (b >= 'a' && b <= 'z') || (b >= 'A' && b <= 'Z') || (i > 0 && b >= '0' && b <= '9')) {
			return false
		}
	}
	return true
}

// RawLit is literal text placed verbatim (for numeric spellings such as 1e40).
type RawLit string

func (r *renderer) dirs(ds []Dir) {
	for _, d := range ds {
		r.sp()
		r.w("@" + d.Name)
		if d.If != nil {
			r.w("(if:")
			r.sp()
			r.w(ValueText(d.If) + ")")
		}
	}
}

func (r *renderer) selset(sels []*Sel) {
	r.sp()
	r.w("{")
	r.depth++
	for i, s := range sels {
		if i == 0 {
			switch r.layout {
			case LLines, LCRLF, LComments:
				r.nl()
			case LTight:
			default:
				r.w(" ")
			}
		} else {
			if r.layout == LTight {
				r.w(" ")
			} else {
				r.nl()
			}
		}
		r.sel(s)
	}
	r.depth--
	switch r.layout {
	case LLines, LCRLF, LComments:
		r.nl()
	case LTight:
	default:
		r.w(" ")
	}
	r.w("}")
}

func (r *renderer) sel(s *Sel) {
	s.Line, s.Col = r.line, r.col
	switch s.Kind {
	case SField:
		if s.Alias != "" {
			r.w(s.Alias + ":")
			r.sp()
			// the field token proper starts here, but errors are keyed on the selection's first token
		}
		r.w(s.Name)
		if len(s.Args) > 0 {
			r.w("(")
			for i, a := range s.Args {
				if i > 0 {
					if r.layout == LTight {
						r.w(" ")
					} else {
						r.w(", ")
					}
				}
				r.w(a.Name + ":")
				r.sp()
				r.w(ValueText(a.Value))
			}
			r.w(")")
		}
		r.dirs(s.Dirs)
		if len(s.Sels) > 0 {
			r.selset(s.Sels)
		}
	case SInline:
		r.w("...")
		if s.Cond != "" {
			r.sp()
			r.w("on " + s.Cond)
		}
		r.dirs(s.Dirs)
		r.selset(s.Sels)
	case SSpread:
		r.w("..." + s.Name)
		r.dirs(s.Dirs)
	}
}

// Render renders the document in the given layout and records selection positions.
func (d *Doc) Render(layout Layout) string {
	r := &renderer{layout: layout, line: 1, col: 1}
	if d.FragsFirst {
		for _, f := range d.Frags {
			r.w("fragment " + f.Name + " on " + f.Cond)
			r.dirs(f.Dirs)
			r.selset(f.Sels)
			r.w("\n")
		}
	}
	for i, o := range d.Ops {
		if i > 0 {
			r.w("\n")
		}
		if !o.Anon {
			r.w(o.Type)
			if o.Name != "" {
				r.w(" " + o.Name)
			}
			if len(o.Vars) > 0 {
				r.w("(")
				for j, v := range o.Vars {
					if j > 0 {
						r.w(", ")
					}
					r.w("$" + v.Name + ": " + v.Type)
					if v.HasDefault {
						r.w(" = " + ValueText(v.Default))
					}
				}
				r.w(")")
			}
			r.dirs(o.Dirs)
		}
		r.selset(o.Sels)
	}
	if !d.FragsFirst {
		for _, f := range d.Frags {
			r.w("\nfragment " + f.Name + " on " + f.Cond)
			r.dirs(f.Dirs)
			r.selset(f.Sels)
		}
	}
	return r.b.String()
}

// Size counts selection nodes.
func (d *Doc) Size() int {
	n := 0
	d.Walk(func(set *[]*Sel) { n += len(*set) })
	return n
}

// GQLQuote renders a string as a GraphQL string literal using only the escapes the GraphQL grammar defines.
func GQLQuote(s string) string {
	var b strings.Builder
	b.WriteByte('"')
	for _, r := range s {
		switch r {
		case '"':
			b.WriteString(`\"`)
		case '\\':
			b.WriteString(`\\`)
		case '\n':
			b.WriteString(`\n`)
		case '\r':
			b.WriteString(`\r`)
		case '\t':
			b.WriteString(`\t`)
		case '\b':
			b.WriteString(`\b`)
		case '\f':
			b.WriteString(`\f`)
		default:
			if r < 0x20 {
				fmt.Fprintf(&b, `\u%04x`, r)
			} else {
				b.WriteRune(r)
			}
		}
	}
	b.WriteByte('"')
	return b.String()
}
