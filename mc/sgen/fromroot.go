package sgen

import (
	"fmt"
	"sort"
	"strconv"
	"strings"

	"github.com/uhn/ggql/pkg/ggql"

	"verif/mc/world"
)

// ParseTypeName parses a type spelling such as [[Int!]]! into a type expression.
func ParseTypeName(s string) *T {
	s = strings.TrimSpace(s)
	if strings.HasSuffix(s, "!") {
		return NN(ParseTypeName(s[:len(s)-1]))
	}
	if strings.HasPrefix(s, "[") && strings.HasSuffix(s, "]") {
		return L(ParseTypeName(s[1 : len(s)-1]))
	}
	return N(s)
}

// fromVal converts a ggql constant (after parsing / coercion) into the abstract value form.
func fromVal(v interface{}) Val {
	switch tv := v.(type) {
	case nil:
		return nil
	case ggql.Symbol:
		return world.EnumLit(tv)
	case ggql.Var:
		return world.VarRef(tv)
	case int:
		return tv
	case int8:
		return int(tv)
	case int16:
		return int(tv)
	case int32:
		return int(tv)
	case int64:
		return int(tv)
	case float32:
		f, _ := strconv.ParseFloat(strconv.FormatFloat(float64(tv), 'g', -1, 32), 64)
		return f
	case float64:
		return tv
	case string, bool:
		return tv
	case []interface{}:
		out := make([]interface{}, len(tv))
		for i, e := range tv {
			out[i] = fromVal(e)
		}
		return out
	case map[string]interface{}:
		out := map[string]interface{}{}
		for k, e := range tv {
			out[k] = fromVal(e)
		}
		return out
	}
	return fmt.Sprintf("«%T:%v»", v, v)
}

func fromDirs(dus []*ggql.DirectiveUse) []DirUse {
	var out []DirUse
	for _, du := range dus {
		d := DirUse{Name: du.Directive.Name()}
		keys := make([]string, 0, len(du.Args))
		for k := range du.Args {
			keys = append(keys, k)
		}
		sort.Strings(keys)
		for _, k := range keys {
			d.Args = append(d.Args, KV{k, fromVal(du.Args[k].Value)})
		}
		out = append(out, d)
	}
	return out
}

func fromArgs(as []*ggql.Arg) []*Arg {
	var out []*Arg
	for _, a := range as {
		na := &Arg{Name: a.N, Desc: a.Desc, Type: ParseTypeName(a.Type.Name()), Dirs: fromDirs(a.Dirs)}
		if a.Default != nil {
			na.HasDef, na.Default = true, fromVal(a.Default)
		}
		out = append(out, na)
	}
	return out
}

func fromFields(fs []*ggql.FieldDef) []*Field {
	var out []*Field
	for _, f := range fs {
		out = append(out, &Field{Name: f.N, Desc: f.Desc, Type: ParseTypeName(f.Type.Name()), Args: fromArgs(f.Args()), Dirs: fromDirs(f.Dirs)})
	}
	return out
}

type introRoot struct{}
type introQuery struct{}

func (introRoot) Resolve(field *ggql.Field, args map[string]interface{}) (interface{}, error) {
	return &introQuery{}, nil
}
func (introQuery) Resolve(field *ggql.Field, args map[string]interface{}) (interface{}, error) {
	return nil, nil
}

// FromRoot reads a loaded root back into the abstract form through the public API: Root.Types() and the
// exported accessors for types, and GetType + SDL text for the named directive definitions.
func FromRoot(root *ggql.Root, directiveNames []string) (*Schema, error) {
	s := &Schema{}
	for _, t := range root.Types() {
		if t.Core() || builtinScalars[t.Name()] {
			continue // Time and Int64 are built in but not flagged core
		}
		d := &Def{Name: t.Name(), Desc: t.Description(), Dirs: fromDirs(t.Directives())}
		switch tt := t.(type) {
		case *ggql.Schema:
			blk := &SchemaBlock{Dirs: fromDirs(tt.Directives())}
			for _, f := range tt.Fields() {
				switch f.N {
				case "query":
					blk.Query = f.Type.Name()
				case "mutation":
					blk.Mutation = f.Type.Name()
				case "subscription":
					blk.Subscription = f.Type.Name()
				default:
					return nil, fmt.Errorf("schema block has unexpected field %s", f.N)
				}
			}
			s.Blocks = append(s.Blocks, blk)
			continue
		case *ggql.Object:
			d.Kind = KObject
			d.Fields = fromFields(tt.Fields())
			for _, i := range tt.Interfaces {
				d.Implements = append(d.Implements, i.Name())
			}
		case *ggql.Interface:
			d.Kind = KInterface
			d.Fields = fromFields(tt.Fields())
		case *ggql.Union:
			d.Kind = KUnion
			for _, m := range tt.Members {
				d.Members = append(d.Members, m.Name())
			}
		case *ggql.Enum:
			d.Kind = KEnum
			for _, v := range tt.Values() {
				d.Values = append(d.Values, &EnumVal{Name: string(v.Value), Desc: v.Description, Dirs: fromDirs(v.Directives)})
			}
		case *ggql.Input:
			d.Kind = KInput
			for _, f := range tt.Fields() {
				nf := &Field{Name: f.N, Desc: f.Desc, Type: ParseTypeName(f.Type.Name()), Dirs: fromDirs(f.Dirs)}
				if f.Default != nil {
					nf.HasDef, nf.Default = true, fromVal(f.Default)
				}
				d.Fields = append(d.Fields, nf)
			}
		default:
			if ggql.Locate(t) == ggql.LocScalar || t.Rank() == (&ggql.Scalar{}).Rank() {
				d.Kind = KScalar
			} else {
				return nil, fmt.Errorf("unexpected type %T in Root.Types()", t)
			}
		}
		s.Defs = append(s.Defs, d)
	}
	for _, dn := range directiveNames {
		// by the directive table, not GetType: a type of the same name would be found first
		var dt *ggql.Directive
		for _, t := range root.Directives() {
			if x, ok := t.(*ggql.Directive); ok && x.Name() == dn {
				dt = x
			}
		}
		if dt == nil {
			continue
		}
		d := &Def{Kind: KDirective, Name: dt.N, Desc: dt.Desc}
		for _, l := range dt.On {
			d.Locations = append(d.Locations, string(l))
		}
		as, err := parseDirectiveArgs(dt.SDL(true))
		if err != nil {
			return nil, fmt.Errorf("directive %s: %w", dn, err)
		}
		d.Args = as
		s.Defs = append(s.Defs, d)
	}
	if len(s.Blocks) == 0 {
		// no schema object among Root.Types(): the schema is the implicit one. Its operation root types are only reachable
		// through introspection; names that are not the implicit defaults came from an "extend schema" block.
		var res map[string]interface{}
		func() {
			defer func() { _ = recover() }() // a root without a resolver cannot answer requests: nothing to add then
			res = root.ResolveString("{__schema{queryType{name} mutationType{name} subscriptionType{name}}}", "", nil)
		}()
		if data, _ := res["data"].(map[string]interface{}); data != nil {
			if sc, _ := data["__schema"].(map[string]interface{}); sc != nil {
				name := func(k string) string {
					m, _ := sc[k].(map[string]interface{})
					n, _ := m["name"].(string)
					return n
				}
				blk := &SchemaBlock{Extend: true}
				if n := name("queryType"); n != "" && n != "Query" {
					blk.Query = n
				}
				if n := name("mutationType"); n != "" && n != "Mutation" {
					blk.Mutation = n
				}
				if n := name("subscriptionType"); n != "" && n != "Subscription" {
					blk.Subscription = n
				}
				// directive uses on the undeclared schema have no accessor at all: they are read from the schema block the
				// root prints for it (loaded into a scratch root, where the block is a declared schema with accessors)
				if txt := root.SDL(false, false); strings.Contains(txt, "\nschema ") {
					scratch := ggql.NewRoot(nil)
					if scratch.ParseString(txt) == nil {
						for _, t := range scratch.Types() {
							if st, ok := t.(*ggql.Schema); ok {
								blk.Dirs = fromDirs(st.Directives())
							}
						}
					}
				}
				if blk.Query != "" || blk.Mutation != "" || blk.Subscription != "" || len(blk.Dirs) > 0 {
					s.Blocks = append(s.Blocks, blk)
				}
			}
		}
	}
	return s, nil
}

// parseDirectiveArgs extracts the argument list of a printed directive definition
// ("directive @name(args) on ..."): the only way to reach directive arguments without introspection.
func parseDirectiveArgs(sdl string) ([]*Arg, error) {
	i := strings.Index(sdl, "directive @")
	if i < 0 {
		return nil, fmt.Errorf("no directive keyword in %q", sdl)
	}
	rest := sdl[i+len("directive @"):]
	j := 0
	for j < len(rest) && (rest[j] == '_' || rest[j] >= '0' && rest[j] <= '9' || rest[j] >= 'a' && rest[j] <= 'z' || rest[j] >= 'A' && rest[j] <= 'Z') {
		j++
	}
	rest = rest[j:]
	if !strings.HasPrefix(rest, "(") {
		return nil, nil
	}
	// find the matching ')'
	depth, inStr, end := 0, false, -1
	for k := 0; k < len(rest); k++ {
		ch := rest[k]
		if inStr {
			if ch == '\\' {
				k++
			} else if ch == '"' {
				inStr = false
			}
			continue
		}
		if strings.HasPrefix(rest[k:], `"""`) {
			k = skipBlock(rest, k) - 1
			continue
		}
		switch ch {
		case '"':
			inStr = true
		case '(', '[', '{':
			depth++
		case ')', ']', '}':
			depth--
			if depth == 0 && ch == ')' {
				end = k
			}
		}
		if end >= 0 {
			break
		}
	}
	if end < 0 {
		return nil, fmt.Errorf("unbalanced argument list in %q", sdl)
	}
	body := rest[1:end]
	var out []*Arg
	p := &miniParser{s: body}
	for {
		p.ws()
		if p.eof() {
			break
		}
		a := &Arg{}
		if p.peek() == '"' {
			d, err := p.str()
			if err != nil {
				return nil, err
			}
			a.Desc = d
			p.ws()
		}
		a.Name = p.name()
		p.ws()
		if !p.eat(':') {
			return nil, fmt.Errorf("expected ':' after %q in %q", a.Name, body)
		}
		p.ws()
		a.Type = ParseTypeName(p.typeText())
		p.ws()
		if p.eat('=') {
			p.ws()
			txt := p.valueText()
			v, err := ggql.ParseValueString(txt)
			if err != nil {
				return nil, fmt.Errorf("default %q: %w", txt, err)
			}
			a.HasDef, a.Default = true, fromVal(v)
		}
		p.ws()
		for p.peek() == '@' {
			p.i++
			du := DirUse{Name: p.name()}
			if p.peek() == '(' {
				txt := p.valueText()
				v, err := ggql.ParseValueString("{" + txt[1:len(txt)-1] + "}")
				if err != nil {
					return nil, err
				}
				if m, ok := v.(map[string]interface{}); ok {
					keys := make([]string, 0, len(m))
					for k := range m {
						keys = append(keys, k)
					}
					sort.Strings(keys)
					for _, k := range keys {
						du.Args = append(du.Args, KV{k, fromVal(m[k])})
					}
				}
			}
			a.Dirs = append(a.Dirs, du)
			p.ws()
		}
		out = append(out, a)
	}
	return out, nil
}

type miniParser struct {
	s string
	i int
}

func (p *miniParser) eof() bool { return p.i >= len(p.s) }
func (p *miniParser) peek() byte {
	if p.eof() {
		return 0
	}
	return p.s[p.i]
}
func (p *miniParser) ws() {
	for !p.eof() && (p.s[p.i] == ' ' || p.s[p.i] == '\n' || p.s[p.i] == '\t' || p.s[p.i] == ',' || p.s[p.i] == '\r') {
		p.i++
	}
}
func (p *miniParser) eat(b byte) bool {
	if p.peek() == b {
		p.i++
		return true
	}
	return false
}
func (p *miniParser) name() string {
	st := p.i
	for !p.eof() {
		ch := p.s[p.i]
		if ch == '_' || ch >= '0' && ch <= '9' || ch >= 'a' && ch <= 'z' || ch >= 'A' && ch <= 'Z' {
			p.i++
		} else {
			break
		}
	}
	return p.s[st:p.i]
}
func (p *miniParser) typeText() string {
	st := p.i
	for !p.eof() {
		ch := p.s[p.i]
		if ch == '[' || ch == ']' || ch == '!' || ch == '_' || ch >= '0' && ch <= '9' || ch >= 'a' && ch <= 'z' || ch >= 'A' && ch <= 'Z' {
			p.i++
		} else {
			break
		}
	}
	return p.s[st:p.i]
}

// str reads a quoted or block string and returns its (unescaped via ggql's own value parser) content.
func (p *miniParser) str() (string, error) {
	st := p.i
	if strings.HasPrefix(p.s[p.i:], `"""`) {
		p.i = skipBlock(p.s, p.i)
		if p.i > len(p.s) || p.i-3 < st+3 {
			return "", fmt.Errorf("unterminated block string")
		}
		return normalizeDesc(unescapeBlock(p.s[st+3 : p.i-3])), nil
	}
	p.i++
	for !p.eof() {
		if p.s[p.i] == '\\' {
			p.i += 2
			continue
		}
		if p.s[p.i] == '"' {
			p.i++
			v, err := ggql.ParseValueString(p.s[st:p.i])
			if err != nil {
				return "", err
			}
			s, _ := v.(string)
			return s, nil
		}
		p.i++
	}
	return "", fmt.Errorf("unterminated string")
}

// valueText returns the text of one value (scalar, list, object, or a parenthesised argument list).
func (p *miniParser) valueText() string {
	st := p.i
	depth, inStr := 0, false
	for !p.eof() {
		ch := p.s[p.i]
		if inStr {
			if ch == '\\' {
				p.i++
			} else if ch == '"' {
				inStr = false
				if depth == 0 {
					p.i++
					break
				}
			}
			p.i++
			continue
		}
		switch ch {
		case '"':
			inStr = true
		case '[', '{', '(':
			depth++
		case ']', '}', ')':
			depth--
			if depth == 0 {
				p.i++
				return p.s[st:p.i]
			}
			if depth < 0 {
				return p.s[st:p.i]
			}
		case ' ', ',', '\n', '@':
			if depth == 0 {
				return p.s[st:p.i]
			}
		}
		p.i++
	}
	return p.s[st:p.i]
}

// normalizeDesc is what ggql's parser does to a description at parse time (changelog 0.9.13): every line
// trimmed, blank lines dropped.
func normalizeDesc(s string) string {
	var lines []string
	for _, line := range strings.Split(s, "\n") {
		line = strings.TrimSpace(line)
		if line != "" {
			lines = append(lines, line)
		}
	}
	return strings.Join(lines, "\n")
}

// NormalizeDesc is exported for the checks.
func NormalizeDesc(s string) string { return normalizeDesc(s) }

// skipBlock returns the index just past the block string starting at s[i:] (which begins with three quotes);
// a backslash escapes the next byte, as in ggql's reader.
func skipBlock(s string, i int) int {
	k := i + 3
	for k < len(s) {
		if s[k] == '\\' {
			k += 2
			continue
		}
		if strings.HasPrefix(s[k:], `"""`) {
			return k + 3
		}
		k++
	}
	return len(s) + 1
}

// unescapeBlock undoes the escapes ggql's reader honours inside a block string.
func unescapeBlock(s string) string {
	var b strings.Builder
	for i := 0; i < len(s); i++ {
		if s[i] == '\\' && i+1 < len(s) {
			i++
			switch s[i] {
			case 'n':
				b.WriteByte('\n')
			case 't':
				b.WriteByte('\t')
			case 'r':
				b.WriteByte('\r')
			case 'b':
				b.WriteByte('\b')
			case 'f':
				b.WriteByte('\f')
			default:
				b.WriteByte(s[i])
			}
			continue
		}
		b.WriteByte(s[i])
	}
	return b.String()
}
