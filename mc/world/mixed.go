package world

import (
	"fmt"

	"github.com/uhn/ggql/pkg/ggql"
)

// RF is a reflection struct that also implements ggql.Resolver: the Resolver interface must take
// precedence over reflection, so its struct fields (filled from a decoy graph) must never be read.
type RF struct{ Common }

func (x *RF) Resolve(field *ggql.Field, args map[string]interface{}) (interface{}, error) {
	x.Xr.record(x.Xn, field.Name, args)
	if err := x.Xr.fault(CallKey{x.Xn.ID, field.Name}); err != nil {
		return nil, err
	}
	w := &rnode{x.Xr, x.Xn, CarSlice}
	return w.wrap(fieldValue(x.Xn, field.Name, args)), nil
}

// MixCfg describes a mixed graph.
type MixCfg struct {
	Any    bool         // a root (any) resolver is installed: nodes are Resolver objects or opaque nodes; else Resolver objects or reflection structs
	Assign map[int]bool // node id -> true: the node is a Resolver object wherever the carrier is free
	Probe  int          // 0 none; 1 reflection structs with decoy field values under an installed root resolver (root resolver must win);
	//                     2 Resolver objects that are also reflection structs with decoy values (Resolver must win);
	//                     3 Resolver objects under an installed root resolver that would answer with a sentinel (Resolver must win)
	Schema *Schema
}

// DecoyGraph copies g with every scalar leaf changed, keeping ids and structure.
func DecoyGraph(g *Graph) *Graph {
	ng := &Graph{}
	m := map[*Node]*Node{}
	for _, n := range g.Nodes {
		nn := &Node{ID: n.ID, Type: n.Type, F: map[string]interface{}{}}
		m[n] = nn
		ng.Nodes = append(ng.Nodes, nn)
	}
	var conv func(v interface{}) interface{}
	conv = func(v interface{}) interface{} {
		switch tv := v.(type) {
		case *Node:
			if tv == nil {
				return nil
			}
			return m[tv]
		case []interface{}:
			out := make([]interface{}, len(tv))
			for i, e := range tv {
				out[i] = conv(e)
			}
			return out
		case string:
			return "DECOY-" + tv
		case int:
			return tv + 1000
		case float64:
			return tv + 1000
		case bool:
			return !tv
		case EnumVal:
			return EnumVal("BLUE")
		}
		return v
	}
	for _, n := range g.Nodes {
		for k, v := range n.F {
			m[n].F[k] = conv(v)
		}
	}
	ng.Root, ng.Mut = m[g.Root], m[g.Mut]
	return ng
}

// BuildMixed creates a fresh root serving g as a mixed graph.
func BuildMixed(mc MixCfg, g *Graph) (*ggql.Root, *Run, error) {
	r := NewRun(g)
	b := &fsBuilder{r: r, objs: map[*Node]interface{}{}}
	r.fsb = b
	var root *ggql.Root
	rfs := map[*Node]*RF{}
	switch {
	case mc.Probe == 1:
		// reflection structs filled from the decoy graph, but Xn pointing at the real nodes
		dg := DecoyGraph(g)
		db := &fsBuilder{r: r, objs: map[*Node]interface{}{}}
		r.fsb = db
		for i, dn := range dg.Nodes {
			if dn.Type == "Mutation" || dn.Type == "V" {
				continue
			}
			db.obj(dn)
			db.common(dn).Xn = g.Nodes[i]
		}
		r.Rep = func(n *Node) interface{} { return db.obj(dg.ByID(n.ID)) }
		fr := &FSRoot{}
		fr.Query, _ = db.obj(dg.Root).(*Query)
		root = ggql.NewRoot(&anyRootObj{})
		ar := &AnyRes{r, CarSlice}
		root.AnyResolver = ar
		_ = fr
	case mc.Probe == 2:
		dg := DecoyGraph(g)
		mk := func(n *Node) interface{} {
			if x, ok := rfs[n]; ok {
				return x
			}
			x := &RF{}
			rfs[n] = x
			db := &fsBuilder{r: r, objs: map[*Node]interface{}{}}
			dn := dg.ByID(n.ID)
			if c := db.common(dn); c != nil {
				x.Common = *c
			}
			x.Xr, x.Xn = r, n
			return x
		}
		r.Rep = mk
		root = ggql.NewRoot(&rroot{r, CarSlice})
	case mc.Probe == 3:
		r.Rep = func(n *Node) interface{} { return &rnode{r, n, CarSlice} }
		root = ggql.NewRoot(&rroot{r, CarSlice})
		root.AnyResolver = &sentinelAny{r}
	case mc.Any:
		r.Rep = func(n *Node) interface{} {
			if mc.Assign[n.ID] {
				return &rnode{r, n, CarSlice}
			}
			return n
		}
		root = ggql.NewRoot(&anyRootObj{})
		root.AnyResolver = &AnyRes{r, CarSlice}
	default:
		r.Rep = func(n *Node) interface{} {
			if mc.Assign[n.ID] {
				return &rnode{r, n, CarSlice}
			}
			return b.obj(n)
		}
		if mc.Assign[g.Root.ID] {
			root = ggql.NewRoot(&rroot{r, CarSlice})
		} else {
			fr := &FSRoot{}
			fr.Query, _ = b.obj(g.Root).(*Query)
			fr.Mutation, _ = b.obj(g.Mut).(*Mutation)
			root = ggql.NewRoot(fr)
		}
	}
	if err := root.ParseString(mc.Schema.SDL()); err != nil {
		return nil, nil, err
	}
	if !mc.Any && mc.Probe == 0 {
		for _, reg := range []struct {
			sample interface{}
			name   string
		}{{&A{}, "A"}, {&B{}, "B"}, {&C{}, "C"}, {&Query{}, "Query"}} {
			if err := root.RegisterType(reg.sample, reg.name); err != nil {
				return nil, nil, err
			}
		}
	}
	return root, r, nil
}

// sentinelAny is a root resolver that answers everything with a sentinel: it must never be consulted
// for an object that implements ggql.Resolver.
type sentinelAny struct{ r *Run }

func (s *sentinelAny) Resolve(obj interface{}, field *ggql.Field, args map[string]interface{}) (interface{}, error) {
	s.r.Probe = append(s.r.Probe, fmt.Sprintf("any<-%T.%s", obj, field.Name))
	return "ANY-SENTINEL", nil
}
func (s *sentinelAny) Len(list interface{}) int                     { return 0 }
func (s *sentinelAny) Nth(list interface{}, i int) (interface{}, error) { return nil, nil }
