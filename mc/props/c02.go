package props

import (
	"fmt"
	"sort"
	"strings"
	"time"

	"github.com/uhn/ggql/pkg/ggql"

	"verif/mc/core"
	"verif/mc/world"
)

// C02 — interface, root (any) and reflection resolvers give the same response (DESIGN 5.2).

func init() {
	Register(&Check{
		ID:  "C02",
		Run: runC02,
		Rule: "A: common-feature documents (bases, thorough + 1 mutation) x 2 graphs x {no fault, every single failing call} under the pure strategies RS/AS/FS(registered, by-name): pairwise equal canonical responses and equal to the reference; " +
			"B: every per-node strategy assignment (2^7 node subsets) in both mixing modes (Resolver|root-resolver nodes; Resolver|reflection nodes) x documents; " +
			"C: three precedence probes with decoy values (root resolver over reflection, Resolver over reflection, Resolver over root resolver); " +
			"D: binding probes (case-only name difference, field-and-method clash, 3-parameter method with arguments in all 6 written orders, RegisterField with explicit argument order) auto-discovered vs registered. " +
			"distinct = (part, document, graph, assignment/fault); non-trivial = more than one strategy actually answers, or a fault/probe is present",
		Technique:      "exhaustive enumeration of strategy assignments and single faults over bounded requests on the real resolver; pairwise differential plus reference executor",
		Assumptions:    []string{"error messages legitimately differ by strategy: data and error-path multisets are compared", "typed struct fields cannot hold Resolver objects: an assignment is honoured wherever the Go carrier is free (interface{} slots, method results, resolver results)"},
		QuickBudget:    90 * time.Second,
		ThoroughBudget: 20 * time.Minute,
	})
}

func c02Docs() []*world.Doc {
	all := world.BaseDocs()
	// the common feature set: objects, lists, scalars, enums, aliases, fragments on the concrete type, variables, string/boolean arguments
	return []*world.Doc{all[0], all[1], all[2], all[3], all[5], all[7], all[8], all[9], all[11], all[12], all[13], all[14]}
}

// c02MixDocs: the documents for mixed graphs and precedence probes (the value-typed V objects keep one carrier, a Go struct
// value, so they take no part in mixing).
func c02MixDocs() []*world.Doc {
	var out []*world.Doc
	for _, d := range c02Docs() {
		if t := d.Render(world.LOneLine); !strings.Contains(t, " val ") && !strings.Contains(t, " vals ") {
			out = append(out, d)
		}
	}
	return out
}

func obsKey(o *world.Obs) string {
	if o.Panic != nil {
		return "panic:" + o.Panic.Site
	}
	return string(toJSON(o.Data)) + "|" + strings.Join(o.ErrPaths, ",")
}

func runC02(c *core.Ctx) {
	s := world.Universe(world.UniverseOpts{})
	graphs := []*world.Graph{world.BaseGraph(0), world.BaseGraph(1)}
	k := 0
	if c.Thorough() {
		k = 1
	}
	completed := true
	report := func(part, kind, msg string, attrs map[string]string, wc worldCase) {
		attrs["part"] = part
		wc.Diff = msg
		c.Violation(kind, attrs, wc)
	}

	// ---- Part A: pure strategies, pairwise + reference, with single faults
	var partA func(d *world.Doc, dist int, pairwiseOnly bool) bool
	partA = func(d *world.Doc, dist int, pairwiseOnly bool) bool {
		if c.Expired() {
			completed = false
			return false
		}
		text := d.Render(world.LOneLine)
		if !c.Owns("A|" + text) {
			return true
		}
		ft := d.Features(s)
		if ft.UnionField || ft.AbstractCond || ft.ConcreteUnderInterface || ft.ConcreteUnderUnion {
			return true // outside the common feature set
		}
		cfgs := configsFor(s, ft, false)
		for gi, g0 := range graphs {
			gfs := g0.FSView(s)
			for _, op := range world.OpNames(d) {
				// fault plans come from the FS-observable call log so that every strategy can realise them
				ex0 := world.RefExec(s, gfs, d, op, nil, nil, world.RefOpts{})
				if ex0.Invalid || ex0.Features["merged-key"] > 0 && false {
					continue
				}
				plans := [][]string{nil}
				var planKinds []world.FaultKind
				planKinds = append(planKinds, world.NoFault)
				if !ex0.Rejected && ex0.Features["merged-key"] == 0 && dist == 0 && !pairwiseOnly {
					for _, ck := range expectedCalls(s, gfs, ex0, world.FS) {
						// a plain failure, and a resolver that hands back its value together with an error
						for _, fk := range []world.FaultKind{world.FaultErr, world.FaultValErr} {
							plans = append(plans, []string{ck})
							planKinds = append(planKinds, fk)
						}
					}
					// every pair of failing calls (two elements of one list failing, a parent and a child, ...)
					if calls := expectedCalls(s, gfs, ex0, world.FS); len(calls) <= 12 {
						for i := range calls {
							for j := i + 1; j < len(calls); j++ {
								plans = append(plans, []string{calls[i], calls[j]})
								planKinds = append(planKinds, world.FaultErr)
							}
						}
					}
				}
				for pi, plan := range plans {
					faults := map[world.CallKey]world.FaultKind{}
					for _, ck := range plan {
						var id int
						dot := strings.IndexByte(ck, '.')
						fmt.Sscanf(ck[:dot], "%d", &id)
						faults[world.CallKey{Node: id, Field: ck[dot+1:]}] = planKinds[pi]
					}
					if planKinds[pi] == world.FaultValErr {
						plan = []string{plan[0] + ":value+error"}
					}
					if len(plan) > 0 {
						c.Nontrivial()
					}
					type res struct {
						name string
						o    *world.Obs
						fs   bool
					}
					var results []res
					for _, nc := range cfgs {
						g := g0
						if nc.Cfg.Strat == world.FS {
							g = gfs
						}
						ex := world.RefExec(s, g, d, op, nil, faults, world.RefOpts{})
						c.Eval()
						root, run, err := world.BuildRoot(nc.Cfg, g)
						if err != nil {
							panic(core.EngineError{Msg: err.Error()})
						}
						run.Faults = faults
						o := world.Observe(root, run, text, op, nil)
						results = append(results, res{nc.Name, o, nc.Cfg.Strat == world.FS})
						if pairwiseOnly {
							c.Outcome("A-defective-request")
						} else if planKinds[pi] == world.FaultValErr {
							// what the data holds where a resolver returned a value AND an error is not stated: only the
							// strategies are compared with each other
							c.Outcome("A-value+error")
						} else if kd, msg := compareExpect(s, g, ex, o, nc.Cfg.Strat, false); kd != "" {
							model := "none"
							if kd == "err-diff" && world.SameStrings(stripFragSegments(o.ErrPaths), ex.ErrPaths) {
								model = "fragment-path-segment"
							}
							c.Outcome("A-" + kd)
							report("A-vs-reference", kd, msg, map[string]string{"strategy": nc.Cfg.Strat.String(), "model": model},
								worldCase{Config: nc.Name, Graph: gi, Query: text, Op: op, Faults: plan, Expected: map[string]interface{}{"data": ex.Data, "err_paths": ex.ErrPaths}, Observed: o})
						} else {
							c.Outcome("A-agree")
						}
					}
					// pairwise (FS responses are compared among themselves and, where the graph views coincide, with the others)
					for i := 0; i < len(results); i++ {
						for j := i + 1; j < len(results); j++ {
							if results[i].fs != results[j].fs && string(toJSON(world.RefExec(s, g0, d, op, nil, faults, world.RefOpts{}).Data)) != string(toJSON(world.RefExec(s, gfs, d, op, nil, faults, world.RefOpts{}).Data)) {
								continue // nil-slice view differs: not comparable across these two
							}
							if obsKey(results[i].o) != obsKey(results[j].o) {
								c.Outcome("A-pair-diff")
								model := "none"
								if string(toJSON(results[i].o.Data)) == string(toJSON(results[j].o.Data)) && world.SameStrings(stripFragSegments(results[i].o.ErrPaths), stripFragSegments(results[j].o.ErrPaths)) {
									model = "fragment-path-segment"
								}
								report("A-pairwise", "pair-diff", results[i].name+" vs "+results[j].name, map[string]string{"pair": results[i].name + "~" + results[j].name, "model": model},
									worldCase{Graph: gi, Query: text, Op: op, Faults: plan, Expected: results[i].o, Observed: results[j].o})
							}
						}
					}
				}
			}
		}
		sample(c, func() interface{} { return map[string]interface{}{"part": "A", "query": text} })
		return true
	}
	docsWithin(c, s, c02Docs(), k, 0, func(d *world.Doc, dist int) bool { return partA(d, dist, false) })
	// requests with one defect (the catalogue of C10, injected at the root selection set): whatever the response is, it
	// is the same under every strategy (data and error paths); no reference is consulted
	for _, d := range c02Docs() {
		for _, df := range c10Defects() {
			if df.Needs != "" && df.Needs != "echo" && df.Needs != "i" {
				continue
			}
			nd := d.Clone()
			nd.Ops[0].Sels = append(nd.Ops[0].Sels, df.Make(s.Type(s.Query)))
			c.Nontrivial()
			if !partA(nd, 0, true) {
				break
			}
		}
	}

	// ---- Part B: every per-node assignment, both mixing modes
	var nodes []*world.Node // the nodes a strategy can be assigned to (the value-typed V nodes and the mutation root keep theirs)
	for _, n := range graphs[0].Nodes {
		if n.Type != "V" && n.Type != "Mutation" {
			nodes = append(nodes, n)
		}
	}
	nodes = append(nodes, graphs[0].Mut) // last: never assigned (the loops below stop one short)
	var idx int64
	for di, d := range c02MixDocs() {
		text := d.Render(world.LOneLine)
		for gi, g0 := range graphs {
			for mode := 0; mode < 2; mode++ {
				g := g0
				if mode == 1 {
					g = g0.FSView(s)
				}
				for _, op := range world.OpNames(d)[:len(world.OpNames(d))-1] {
					ex := world.RefExec(s, g, d, op, nil, nil, world.RefOpts{})
					if ex.Invalid || ex.Rejected {
						continue
					}
					for mask := 0; mask < 1<<uint(len(nodes)-1); mask++ {
						idx++
						if !c.OwnsIdx(idx) {
							continue
						}
						if c.Expired() {
							completed = false
							break
						}
						assign := map[int]bool{}
						for b := 0; b < len(nodes)-1; b++ {
							if mask&(1<<uint(b)) != 0 {
								assign[nodes[b].ID] = true
							}
						}
						if mask != 0 && mask != (1<<uint(len(nodes)-1))-1 {
							c.Nontrivial()
						}
						c.Eval()
						root, run, err := world.BuildMixed(world.MixCfg{Any: mode == 0, Assign: assign, Schema: s}, g)
						if err != nil {
							panic(core.EngineError{Msg: err.Error()})
						}
						o := world.Observe(root, run, text, op, nil)
						if kd, msg := compareExpect(s, g, ex, o, world.RS, false); kd != "" {
							c.Outcome("B-" + kd)
							attrs := map[string]string{"mode": []string{"resolver+any", "resolver+reflection"}[mode]}
							if kd == "panic" {
								attrs["site"] = o.Panic.Site
							}
							report("B-mixed", kd, msg, attrs, worldCase{Config: fmt.Sprintf("mixed mode=%d resolver-nodes=%v", mode, keysOf(assign)), Graph: gi, Query: text, Op: op,
								Expected: map[string]interface{}{"data": ex.Data}, Observed: o})
						} else {
							c.Outcome("B-agree")
						}
					}
				}
			}
		}
		_ = di
	}

	// ---- Part C: precedence probes
	if c.Shard == 0 {
		for _, d := range c02MixDocs() {
			text := d.Render(world.LOneLine)
			for gi, g := range graphs {
				for probe := 1; probe <= 3; probe++ {
					for _, op := range world.OpNames(d)[:len(world.OpNames(d))-1] {
						ex := world.RefExec(s, g, d, op, nil, nil, world.RefOpts{})
						if ex.Invalid || ex.Rejected {
							continue
						}
						c.R.Distinct++
						c.Nontrivial()
						c.Eval()
						root, run, err := world.BuildMixed(world.MixCfg{Probe: probe, Schema: s}, g)
						if err != nil {
							panic(core.EngineError{Msg: err.Error()})
						}
						o := world.Observe(root, run, text, op, nil)
						name := []string{"", "any-over-reflection", "resolver-over-reflection", "resolver-over-any"}[probe]
						kd, msg := compareExpect(s, g, ex, o, world.RS, false)
						if kd == "" && probe == 3 && len(run.Probe) > 0 {
							kd, msg = "precedence", "root resolver consulted for Resolver objects: "+strings.Join(run.Probe, ",")
						}
						if kd != "" {
							c.Outcome("C-" + kd)
							report("C-precedence", kd, msg, map[string]string{"probe": name}, worldCase{Config: name, Graph: gi, Query: text, Op: op, Expected: map[string]interface{}{"data": ex.Data}, Observed: o})
						} else {
							c.Outcome("C-agree")
							c.Count("probe_" + name)
						}
					}
				}
			}
		}
		// ---- Part D: binding probes
		runC02Bindings(c, s, graphs[0], report)
		// ---- Part E: the schema grows between two requests (a later load makes C implement Named / join the union): the data holds
		// C objects behind Named- and AB-typed fields from the start, the first request only touches A and B values behind them
		runC02Growth(c, report)
		// ---- Part F: the depth ceiling is met at the same place whichever strategy backs the data
		runC02Depth(c)
	}
	c.R.Bound = fmt.Sprintf("A: documents within %d mutations x single faults and all pairs of faults (call logs <= 12); B: all 2^%d assignments x 2 modes; C: 3 probes; D: all 6 argument orders", k, len(nodes)-1)
	if !completed {
		c.Cap("deadline reached")
	}
}

func keysOf(m map[int]bool) []int {
	var out []int
	for k := range m {
		out = append(out, k)
	}
	sort.Ints(out)
	return out
}

func permutations(n int) [][]int {
	if n == 1 {
		return [][]int{{0}}
	}
	var out [][]int
	for _, p := range permutations(n - 1) {
		for pos := 0; pos <= len(p); pos++ {
			q := append([]int{}, p[:pos]...)
			q = append(q, n-1)
			q = append(q, p[pos:]...)
			out = append(out, q)
		}
	}
	return out
}

func runC02Bindings(c *core.Ctx, s *world.Schema, g0 *world.Graph, report func(part, kind, msg string, attrs map[string]string, wc worldCase)) {
	gfs := g0.FSView(s)
	triArgs := []world.Arg{{Name: "a", Value: "1"}, {Name: "b", Value: "2"}, {Name: "c", Value: "3"}}
	var docs []*world.Doc
	for _, p := range permutations(3) {
		args := []world.Arg{triArgs[p[0]], triArgs[p[1]], triArgs[p[2]]}
		docs = append(docs, world.Q(world.F("tri").WithArgs(args...), world.F("a", world.F("tri").WithArgs(args...), world.F("title"), world.F("dual")), world.F("title"), world.F("dual")))
	}
	for _, p := range permutations(2) {
		ea := []world.Arg{{Name: "s", Value: "x"}, {Name: "b", Value: true}}
		docs = append(docs, world.Q(world.F("echo").WithArgs(ea[p[0]], ea[p[1]]), world.F("kids", world.F("echo").WithArgs(ea[p[0]], ea[p[1]]))))
	}
	revDocs := []*world.Doc{}
	for _, p := range permutations(2) {
		ra := []world.Arg{{Name: "x", Value: "X"}, {Name: "y", Value: "Y"}}
		revDocs = append(revDocs, world.Q(world.F("rev").WithArgs(ra[p[0]], ra[p[1]]), world.F("a", world.F("rev").WithArgs(ra[p[0]], ra[p[1]]))))
		// the same under the interface: the selection is on Named, the method and its registered order are the object's
		revDocs = append(revDocs, world.Q(world.F("named", world.F("rev").WithArgs(ra[p[0]], ra[p[1]])), world.F("nameds", world.F("rev").WithArgs(ra[p[0]], ra[p[1]]), world.F("name"))))
	}
	type mode struct {
		name string
		cfg  world.Config
		reg  bool // RegisterField explicit
		tri  []string
		// refused: after the registrations, RegisterField calls that are refused (an argument the field does not have, too few
		// arguments): a refused registration changes nothing
		refused bool
	}
	modes := []mode{
		{"RS", world.Config{Strat: world.RS, Schema: s}, false, nil, false},
		{"AS", world.Config{Strat: world.AS, Schema: s}, false, nil, false},
		{"FS/auto", world.Config{Strat: world.FS, Bind: world.BindByName, Schema: s}, false, nil, false},
		{"FS/registered-types", world.Config{Strat: world.FS, Bind: world.BindRegister, Schema: s}, false, nil, false},
		{"FS/registered-fields", world.Config{Strat: world.FS, Bind: world.BindRegister, Schema: s}, true, nil, false},
		// tri bound to methods whose parameter orders are the 3-cycles of the declared order
		{"FS/registered-fields-cab", world.Config{Strat: world.FS, Bind: world.BindRegister, Schema: s}, true, []string{"tri", "TriCAB", "c", "a", "b"}, false},
		{"FS/registered-fields-bca", world.Config{Strat: world.FS, Bind: world.BindRegister, Schema: s}, true, []string{"tri", "TriBCA", "b", "c", "a"}, false},
		{"FS/registered-fields+refused-registrations", world.Config{Strat: world.FS, Bind: world.BindRegister, Schema: s}, true, nil, true},
	}
	for di, d := range append(docs, revDocs...) {
		isRev := di >= len(docs)
		text := d.Render(world.LOneLine)
		for _, m := range modes {
			if isRev && m.cfg.Strat == world.FS && !m.reg {
				continue // Rev's Go parameter order is only right with an explicit RegisterField order
			}
			g := g0
			if m.cfg.Strat == world.FS {
				g = gfs
			}
			ex := world.RefExec(s, g, d, "", nil, nil, world.RefOpts{})
			c.R.Distinct++
			c.Nontrivial()
			c.Eval()
			root, run, err := world.BuildRoot(m.cfg, g)
			if err != nil {
				panic(core.EngineError{Msg: err.Error()})
			}
			if m.reg {
				for _, tn := range []string{"Query", "A", "B", "C"} {
					tri := []string{"tri", "Tri", "a", "b", "c"}
					if m.tri != nil {
						tri = m.tri
					}
					for _, rf := range [][]string{tri, {"rev", "Rev", "y", "x"}, {"title", "Title"}, {"echo", "Echo", "s", "b"}} {
						if e := regField(root, tn, rf); e != nil {
							report("D-binding", "register-error", e.Error(), map[string]string{"mode": m.name, "field": rf[0]}, worldCase{Config: m.name, Query: text})
						}
					}
				}
			}
			if m.refused {
				for _, tn := range []string{"Query", "A", "B", "C"} {
					for _, rf := range [][]string{{"tri", "Tri", "c", "zz", "a"}, {"tri", "Tri", "a"}, {"rev", "Rev", "x"}, {"echo", "Echo", "b", "s", "zz"}, {"title", "Nope"}} {
						if e := regField(root, tn, rf); e == nil {
							report("D-binding", "register-error", "a registration that names an argument the field does not have / too few arguments / no such Go field was accepted", map[string]string{"mode": m.name, "field": rf[0]}, worldCase{Config: m.name, Query: text})
						}
					}
				}
			}
			o := world.Observe(root, run, text, "", nil)
			if kd, msg := compareExpect(s, g, ex, o, m.cfg.Strat, false); kd != "" {
				c.Outcome("D-" + kd)
				attrs := map[string]string{"mode": m.name, "rev": fmt.Sprint(isRev)}
				if kd == "panic" {
					attrs["site"] = o.Panic.Site
				}
				report("D-binding", kd, msg, attrs, worldCase{Config: m.name, Query: text, Expected: map[string]interface{}{"data": ex.Data}, Observed: o})
			} else {
				c.Outcome("D-agree")
			}
		}
	}
}

func regField(root *ggql.Root, typeName string, rf []string) error {
	return root.RegisterField(typeName, rf[0], rf[1], rf[2:]...)
}

func runC02Growth(c *core.Ctx, report func(part, kind, msg string, attrs map[string]string, wc worldCase)) {
	sBefore := world.Universe(world.UniverseOpts{NamedImpl: 3, ABMembers: 3})
	sAfter := world.Universe(world.UniverseOpts{NamedImpl: 7, ABMembers: 7})
	g0 := retypeGraph(sAfter, 0)
	gfs := g0.FSView(sAfter)
	// a first request that reaches a Named value of type A or B (so that whatever the library remembers about Named is filled)
	first := ""
	// (at the root first: its Go type has been bound through nothing else yet when the interface is asked about it)
	if n, _ := g0.Root.F["named"].(*world.Node); n != nil && n.Type != "C" {
		first = "{ named { name } }"
	}
	for _, f1 := range []string{"a", "b"} {
		if first != "" {
			break
		}
		if n1, _ := g0.Root.F[f1].(*world.Node); n1 != nil {
			if n2, _ := n1.F["named"].(*world.Node); n2 != nil && n2.Type != "C" {
				first = "{ " + f1 + " { named { name } } }"
				break
			}
		}
	}
	if first == "" {
		first = "{ a { id } }"
	}
	second := world.Q(world.F("nameds", world.F("__typename"), world.F("name"), world.F("nick")), world.F("us", world.F("__typename"), world.In("C", world.F("id"))), world.F("c", world.F("named", world.F("name"))))
	// (the Resolver and AnyResolver strategies do no abstract dispatch: for them the interface's own fields only)
	plain := world.Q(world.F("nameds", world.F("name"), world.F("nick")), world.F("c", world.F("named", world.F("name"))))
	for _, nc := range []namedCfg{
		{"RS/slice", world.Config{Strat: world.RS, Car: world.CarSlice, Schema: sBefore}},
		{"AS/slice", world.Config{Strat: world.AS, Car: world.CarSlice, Schema: sBefore}},
		{"FS/register", world.Config{Strat: world.FS, Bind: world.BindRegister, Schema: sBefore}},
		{"FS/byname", world.Config{Strat: world.FS, Bind: world.BindByName, Schema: sBefore}},
	} {
		for _, warm := range []bool{true, false} {
			g := g0
			if nc.Cfg.Strat == world.FS {
				g = gfs
			}
			c.Eval()
			c.R.Distinct++
			c.Nontrivial()
			root, run, err := world.BuildRoot(nc.Cfg, g)
			if err != nil {
				panic(core.EngineError{Msg: err.Error()})
			}
			if warm {
				_ = world.Observe(root, run, first, "", nil)
				run.Log, run.Args = nil, nil
			}
			if err := root.ParseString("extend type C implements Named\nextend union AB = C\n"); err != nil {
				panic(core.EngineError{Msg: "C02 growth: extension refused: " + err.Error()})
			}
			doc := second
			if nc.Cfg.Strat != world.FS {
				doc = plain
			}
			text := doc.Render(world.LOneLine)
			ex := world.RefExec(sAfter, g, doc, "", nil, nil, world.RefOpts{})
			o := world.Observe(root, run, text, "", nil)
			if kd, msg := compareExpect(sAfter, g, ex, o, nc.Cfg.Strat, nc.Cfg.Strat == world.FS); kd != "" {
				c.Outcome("E-" + kd)
				report("E-growth", kd, msg, map[string]string{"strategy": nc.Cfg.Strat.String(), "model": "none", "warm": fmt.Sprint(warm)},
					worldCase{Config: nc.Name, SDL: sBefore.SDL() + "\n# later load:\nextend type C implements Named\nextend union AB = C", Query: first + "   THEN (after the load)   " + text, Expected: map[string]interface{}{"data": ex.Data, "err_paths": ex.ErrPaths}, Observed: o})
			} else {
				c.Outcome("E-agree")
			}
		}
	}
}

// ---- Part F: requests nested up to and beyond the depth ceiling over a cyclic two-node graph (objects in lists, leaf lists),
// under four ways of backing the same data: Resolver objects, an AnyResolver over maps, reflection on cold roots, reflection with
// registered types. Every nesting depth 0 .. ceiling+3 for three ceilings; the responses (data, error paths) must be the same
// under all four, and complete below the place where the first of them is cut.

const c02DeepSDL = "type Query { top: N }\ntype N { name: String kids: [N] tags: [String] one: N stamps: [Time] nums: [Int] flags: [Boolean!] ratios: [Float] wide: [Int64] }\n"

type c02DeepRS struct {
	name string
	kid  *c02DeepRS
}

func (n *c02DeepRS) Resolve(field *ggql.Field, args map[string]interface{}) (interface{}, error) {
	switch field.Name {
	case "query", "top":
		return n, nil
	case "name":
		return n.name, nil
	case "kids":
		return []interface{}{n.kid}, nil // one member: two would double the answer at every level
	case "tags":
		return []interface{}{n.name + "1", n.name + "2"}, nil
	case "one":
		return n.kid, nil
	case "stamps", "nums", "flags", "ratios", "wide":
		return c02DeepTyped(field.Name), nil
	}
	return nil, fmt.Errorf("no field %s", field.Name)
}

type c02DeepAny struct{ top map[string]interface{} }

func (r *c02DeepAny) Resolve(obj interface{}, field *ggql.Field, args map[string]interface{}) (interface{}, error) {
	if m, ok := obj.(map[string]interface{}); ok {
		return m[field.Name], nil
	}
	if field.Name == "top" {
		return r.top, nil
	}
	return r, nil // the query object
}
func (r *c02DeepAny) Len(list interface{}) int {
	l, _ := list.([]interface{})
	return len(l)
}
func (r *c02DeepAny) Nth(list interface{}, i int) (interface{}, error) {
	if l, ok := list.([]interface{}); ok && i < len(l) {
		return l[i], nil
	}
	return nil, fmt.Errorf("no element %d", i)
}

type C02DeepN struct {
	Name   string
	Kids   []*C02DeepN
	Tags   []string
	One    *C02DeepN
	Stamps []time.Time
	Nums   []int
	Flags  []bool
	Ratios []float64
	Wide   []int64
}

// c02DeepTyped: the leaf lists every backing holds as TYPED Go slices ([]time.Time, []int, []bool, []float64, []int64).
func c02DeepTyped(field string) interface{} {
	switch field {
	case "stamps":
		return []time.Time{time.Date(2019, 11, 11, 10, 9, 8, 0, time.UTC), time.Date(2020, 2, 29, 23, 59, 59, 0, time.UTC)}
	case "nums":
		return []int{1, 2, 3}
	case "flags":
		return []bool{true, false}
	case "ratios":
		return []float64{0.5, 1.5}
	}
	return []int64{1 << 40, -1}
}
type C02DeepQuery struct{ Top *C02DeepN }
type C02DeepRoot struct{ Query *C02DeepQuery }

func c02DeepRoots() map[string]*ggql.Root {
	roots := map[string]*ggql.Root{}
	a, b := &c02DeepRS{name: "a"}, &c02DeepRS{name: "b"}
	a.kid, b.kid = b, a
	roots["RS"] = ggql.NewRoot(a)
	ma, mb := map[string]interface{}{"name": "a", "tags": []interface{}{"a1", "a2"}}, map[string]interface{}{"name": "b", "tags": []interface{}{"b1", "b2"}}
	for _, f := range []string{"stamps", "nums", "flags", "ratios", "wide"} {
		ma[f], mb[f] = c02DeepTyped(f), c02DeepTyped(f)
	}
	ma["kids"], mb["kids"] = []interface{}{mb}, []interface{}{ma}
	ma["one"], mb["one"] = mb, ma
	any := ggql.NewRoot(nil)
	any.AnyResolver = &c02DeepAny{top: ma}
	roots["AS"] = any
	for _, reg := range []bool{false, true} {
		fa, fb := &C02DeepN{Name: "a", Tags: []string{"a1", "a2"}}, &C02DeepN{Name: "b", Tags: []string{"b1", "b2"}}
		for _, n := range []*C02DeepN{fa, fb} {
			n.Stamps, n.Nums, n.Flags = c02DeepTyped("stamps").([]time.Time), c02DeepTyped("nums").([]int), c02DeepTyped("flags").([]bool)
			n.Ratios, n.Wide = c02DeepTyped("ratios").([]float64), c02DeepTyped("wide").([]int64)
		}
		fa.Kids, fb.Kids = []*C02DeepN{fb}, []*C02DeepN{fa}
		fa.One, fb.One = fb, fa
		r := ggql.NewRoot(&C02DeepRoot{Query: &C02DeepQuery{Top: fa}})
		name := "FS/cold"
		if reg {
			name = "FS/registered"
		}
		roots[name] = r
	}
	for name, r := range roots {
		if err := r.ParseString(c02DeepSDL); err != nil {
			panic(core.EngineError{Msg: "C02 depth schema refused: " + err.Error()})
		}
		if name == "FS/registered" {
			if err := r.RegisterType(&C02DeepN{}, "N"); err != nil {
				panic(core.EngineError{Msg: err.Error()})
			}
			if err := r.RegisterType(&C02DeepQuery{}, "Query"); err != nil {
				panic(core.EngineError{Msg: err.Error()})
			}
		}
	}
	return roots
}

func runC02Depth(c *core.Ctx) {
	defer func(d int) { ggql.MaxResolveDepth = d }(ggql.MaxResolveDepth)
	shapes := []struct{ name, open, leaf string }{
		{"lists-of-objects", "kids { ", "name tags"},
		{"single-objects", "one { ", "name tags"},
		{"alternating", "", "name tags"},
		{"typed-leaf-lists", "kids { ", "name stamps nums flags ratios wide"},
	}
	for _, ceiling := range []int{7, 12, 100} {
		maxD := ceiling + 3
		if ceiling == 100 {
			maxD = 64 // 2 levels per list of objects: the ceiling is met around 48
		}
		for _, sh := range shapes {
			for d := 0; d <= maxD; d++ {
				c.Eval()
				c.R.Distinct++
				c.Nontrivial()
				var q strings.Builder
				q.WriteString("{ top { ")
				for i := 0; i < d; i++ {
					switch {
					case sh.open != "":
						q.WriteString(sh.open)
					case i%2 == 0:
						q.WriteString("kids { ")
					default:
						q.WriteString("one { ")
					}
				}
				q.WriteString(sh.leaf)
				q.WriteString(strings.Repeat(" }", d+2))
				ggql.MaxResolveDepth = ceiling
				answers := map[string]string{}
				var names []string
				var pi *core.PanicInfo
				for name, root := range c02DeepRoots() {
					name, root := name, root
					if p := core.Safe(func() {
						res := root.ResolveString(q.String(), "", nil)
						// messages name Go types / strategies; data and error paths are compared
						var paths []string
						if el, ok := res["errors"].([]interface{}); ok {
							for _, e := range el {
								if m, ok := e.(map[string]interface{}); ok {
									paths = append(paths, fmt.Sprint(m["path"]))
								}
							}
						}
						sort.Strings(paths)
						answers[name] = string(toJSON(world.Canon(res["data"]))) + " errors at " + strings.Join(paths, " ")
					}); p != nil {
						pi = p
					}
					names = append(names, name)
				}
				sort.Strings(names)
				detail := map[string]interface{}{"request": q.String(), "max_resolve_depth": ceiling, "nesting": d, "answers": answers}
				attrs := map[string]string{"part": "F-depth", "shape": sh.name, "ceiling": fmt.Sprint(ceiling)}
				if pi != nil {
					c.Violation("panic", map[string]string{"site": pi.Site, "class": pi.Class, "part": "F-depth"}, detail)
					continue
				}
				same := true
				for _, n := range names[1:] {
					if answers[n] != answers[names[0]] {
						same = false
						attrs["differs"] = names[0] + "~" + n
					}
				}
				if !same {
					c.Outcome("F-differ")
					c.Violation("data-diff", attrs, detail)
					continue
				}
				if strings.Contains(answers[names[0]], "errors at [") {
					c.Outcome("F-agree-cut")
				} else {
					c.Outcome("F-agree-complete")
				}
			}
		}
	}
}
