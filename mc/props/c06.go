package props

import (
	"fmt"
	"math"
	"sort"
	"strconv"
	"strings"
	"time"

	"github.com/uhn/ggql/pkg/ggql"

	"verif/mc/core"
	"verif/mc/world"
)

// C06 — each field failure is reported once, at the right path, keeping partial data (DESIGN 5.6).

func init() {
	Register(&Check{
		ID:  "C06",
		Run: runC06,
		Rule: "C01 worlds (documents within k mutations of the bases x 2 data graphs x strategy configurations) x a fault plan over the reference call log: every single resolver call failing in turn " +
			"with each failure kind {plain error, group of two errors, error with extensions}; thorough adds all pairs; oracle = reference executor (error-path multiset, null at the failing position, every other position unchanged). " +
			"distinct = distinct (document, graph, op, fault plan); non-trivial = the failing call lies below the root level or inside a list or a fragment",
		Technique:      "exhaustive fault enumeration over every resolver invocation of every bounded request, on the real resolver, against a reference executor",
		Assumptions:    []string{"faults are keyed by (node, field): every invocation of that field on that node fails", "under reflection only method-backed fields can fail"},
		QuickBudget:    160 * time.Second,
		ThoroughBudget: 25 * time.Minute,
	})
}

func stripFragSegments(paths []string) []string {
	out := make([]string, len(paths))
	for i, p := range paths {
		var keep []string
		for _, seg := range strings.Split(p, "/") {
			if !strings.HasPrefix(seg, "fragment at ") {
				keep = append(keep, seg)
			}
		}
		out[i] = strings.Join(keep, "/")
	}
	sort.Strings(out)
	return out
}

func runC06(c *core.Ctx) {
	s := world.Universe(world.UniverseOpts{})
	k := 1
	graphs := []*world.Graph{world.BaseGraph(0), world.BaseGraph(1)}
	fsViews := []*world.Graph{graphs[0].FSView(s), graphs[1].FSView(s)}
	kinds := []world.FaultKind{world.FaultErr, world.FaultGroup, world.FaultExt, world.FaultShared, world.FaultWrapped, world.FaultTwin, world.FaultTwoCauses}
	completed := true
	docsWithin(c, s, world.BaseDocs(), k, 0, func(d *world.Doc, dist int) bool {
		if c.Expired() {
			completed = false
			return false
		}
		text := d.Render(world.LOneLine)
		if !c.Owns(text) {
			return true
		}
		ft := d.Features(s)
		cfgs := configsFor(s, ft, false)
		for gi := range graphs {
			for _, op := range world.OpNames(d) {
				if op == "Nope" {
					continue
				}
				for _, vars := range world.VarMaps(d)[:1] {
					for _, nc := range cfgs {
						if (strings.HasSuffix(nc.Name, "native") || strings.HasSuffix(nc.Name, "listresolver")) && !c.Thorough() && dist > 0 {
							continue // quick: native carriers only on the bases
						}
						g := graphs[gi]
						if nc.Cfg.Strat == world.FS {
							g = fsViews[gi]
						}
						ex0 := world.RefExec(s, g, d, op, vars, nil, world.RefOpts{})
						if ex0.Invalid || ex0.Rejected {
							continue
						}
						if ex0.Features["merged-key"] > 0 {
							// how many times a merged field's resolver is invoked is not stated by any property, so the reference
							// comparison is skipped; what IS stated holds for any multiplicity: where an error is reported the
							// data is null. Every call is made to fail at its second invocation only (a stateful resolver).
							c.Count("merged_key_document")
							for _, ck := range expectedCalls(s, g, ex0, nc.Cfg.Strat) {
								var id int
								dot := strings.IndexByte(ck, '.')
								fmt.Sscanf(ck[:dot], "%d", &id)
								faults := map[world.CallKey]world.FaultKind{{Node: id, Field: ck[dot+1:]}: world.FaultSecond}
								c.Eval()
								root, run, err := world.BuildRoot(nc.Cfg, g)
								if err != nil {
									panic(core.EngineError{Msg: err.Error()})
								}
								run.Faults = faults
								o := world.Observe(root, run, text, op, vars)
								if o.Panic != nil {
									c.Violation("panic", map[string]string{"site": o.Panic.Site, "class": o.Panic.Class}, worldCase{Config: nc.Name, Graph: gi, Query: text, Op: op, Faults: []string{ck + ":second-call"}, Observed: o})
									continue
								}
								if msg := errorWithoutNull(o); msg != "" {
									c.Outcome("error-without-null")
									c.Violation("error-without-null", map[string]string{"strategy": nc.Cfg.Strat.String(), "fault": "second-call"}, worldCase{Config: nc.Name, Graph: gi, Query: text, Op: op, Vars: vars, Faults: []string{ck + ":second-call"}, Observed: o, Diff: msg})
								} else {
									c.Outcome("merged-key-invariant-ok")
								}
							}
							continue
						}
						calls := expectedCalls(s, g, ex0, nc.Cfg.Strat)
						type plan map[world.CallKey]world.FaultKind
						keyOf := func(ck string) world.CallKey {
							var id int
							dot := strings.IndexByte(ck, '.')
							fmt.Sscanf(ck[:dot], "%d", &id)
							return world.CallKey{Node: id, Field: ck[dot+1:]}
						}
						var plans []plan
						for _, ck := range calls {
							for _, fk := range kinds {
								if (fk == world.FaultWrapped || fk == world.FaultTwoCauses) && dist > 0 && !c.Thorough() {
									continue // quick: the wrapped group on the bases only (the plain and the twin group go everywhere)
								}
								plans = append(plans, plan{keyOf(ck): fk})
							}
						}
						// output coercion failures: the resolver returns something its Int / [Int] field cannot represent
						for _, ck := range calls {
							if k := keyOf(ck); world.BadLeafFields[k.Field] {
								plans = append(plans, plan{k: world.FaultBadLeaf})
								for _, ck2 := range calls {
									if ck2 != ck && dist == 0 {
										plans = append(plans, plan{k: world.FaultBadLeaf, keyOf(ck2): world.FaultErr})
									}
								}
							}
						}
						if !c.Thorough() && dist == 0 && len(calls) <= 10 {
							// the same error instance returned by two different calls (an application's sentinel error)
							for i := range calls {
								for j := i + 1; j < len(calls); j++ {
									plans = append(plans, plan{keyOf(calls[i]): world.FaultShared, keyOf(calls[j]): world.FaultShared})
								}
							}
						}
						if c.Thorough() && len(calls) <= 10 {
							for i := range calls {
								for j := i + 1; j < len(calls); j++ {
									for _, fk := range kinds {
										plans = append(plans, plan{keyOf(calls[i]): fk, keyOf(calls[j]): fk})
									}
								}
							}
						}
						// list accessor failures (only the root resolver has a list accessor that can fail), alone and together with
						// every other single failing call: an element failing right before the accessor of the next one fails
						if nc.Name == "AS/native" && (dist == 0 || c.Thorough()) {
							for _, lk := range calls {
								k := keyOf(lk)
								if l, ok := g.ByID(k.Node).F[k.Field].([]interface{}); !ok || len(l) == 0 {
									continue
								}
								plans = append(plans, plan{k: world.FaultNth})
								for _, ck := range calls {
									if ck != lk {
										plans = append(plans, plan{k: world.FaultNth, keyOf(ck): world.FaultErr})
									}
								}
							}
						}
						for _, faults0 := range plans {
							{
								faults := map[world.CallKey]world.FaultKind(faults0)
								var planNames []string
								fk := world.NoFault
								for k, v := range faults {
									planNames = append(planNames, fmt.Sprintf("%s:%d", k, int(v)))
									if v > fk {
										fk = v
									}
								}
								sort.Strings(planNames)
								plan := planNames
								ex := world.RefExec(s, g, d, op, vars, faults, world.RefOpts{})
								c.Eval()
								deep := false
								for _, p := range ex.ErrPaths {
									if strings.Contains(p, "/") {
										deep = true
									}
								}
								if deep {
									c.Nontrivial()
									c.Count("fault_below_root")
								}
								root, run, err := world.BuildRoot(nc.Cfg, g)
								if err != nil {
									panic(core.EngineError{Msg: err.Error()})
								}
								run.Faults = faults
								o := world.Observe(root, run, text, op, vars)
								kd, msg := compareExpect(s, g, ex, o, nc.Cfg.Strat, false)
								if kd == "" {
									if m2 := errorWithoutNull(o); m2 != "" {
										kd, msg = "error-without-null", m2
									}
								}
								if kd == "" {
									c.Outcome("agree")
									continue
								}
								c.Outcome(kd)
								model := "none"
								if kd == "err-diff" && world.SameStrings(stripFragSegments(o.ErrPaths), ex.ErrPaths) {
									model = "fragment-path-segment"
								}
								attrs := map[string]string{"strategy": nc.Cfg.Strat.String(), "model": model, "fault": fmt.Sprint(int(fk)), "nfaults": fmt.Sprint(len(plan))}
								if kd == "panic" {
									attrs = map[string]string{"site": o.Panic.Site, "class": o.Panic.Class}
								}
								c.Violation(kd, attrs, worldCase{Config: nc.Name, Graph: gi, Query: text, Op: op, Vars: vars, Faults: plan,
									Expected: map[string]interface{}{"data": ex.Data, "err_paths": ex.ErrPaths}, Observed: o, Diff: msg})
							}
						}
					}
				}
			}
		}
		sample(c, func() interface{} {
			return map[string]interface{}{"query": text, "fault_plans": "every single call of the reference call log x 5 kinds"}
		})
		return true
	})
	c06Typed(c)
	c06Unplaceable(c)
	c06Matrices(c)
	c06BadArguments(c, s, graphs[0])
	c.R.Bound = fmt.Sprintf("documents within %d mutations of the bases; single faults (thorough: + all pairs for logs <= 10); leaf lists of four behind typed Go slices and []interface{} x all 16 sets of failing positions x 3 ways of resolving", k)
	if !completed {
		c.Cap("deadline reached before the neighbourhood was completed")
	}
}

// errorWithoutNull checks what holds whatever the reference says: the position an error entry addresses is null in the data
// (or lies below a null). "fragment at L:C" segments (finding C06-F1) are skipped; a path whose last segment is not a key of the
// object it addresses is an argument error and speaks about the field one level up.
func errorWithoutNull(o *world.Obs) string {
	if !o.HasData {
		return ""
	}
	for _, e := range o.Errors {
		raw, _ := e["path"].([]interface{})
		var path []interface{}
		for _, seg := range raw {
			if s, ok := seg.(string); ok && strings.HasPrefix(s, "fragment at ") {
				continue
			}
			path = append(path, seg)
		}
		if len(path) == 0 {
			continue
		}
		var cur interface{} = o.Data
		for i, seg := range path {
			if cur == nil {
				break // below a null: fine
			}
			switch tv := cur.(type) {
			case map[string]interface{}:
				k, _ := seg.(string)
				nxt, has := tv[k]
				if !has {
					if i == len(path)-1 {
						return fmt.Sprintf("error path %v names %q which is no key of the object at that position: if it is an argument, the field holds a value although its argument was refused", raw, k)
					}
					cur = nil
					continue
				}
				cur = nxt
			case []interface{}:
				idx := -1
				switch n := seg.(type) {
				case int:
					idx = n
				case int64:
					idx = int(n)
				case float64:
					idx = int(n)
				}
				if idx < 0 || idx >= len(tv) {
					return fmt.Sprintf("error path %v: index %v outside the list of %d", raw, seg, len(tv))
				}
				cur = tv[idx]
			default:
				if i == len(path)-1 {
					// an argument name below a leaf position: the field one level up must be null, and it is not
					return fmt.Sprintf("error path %v ends in an argument of a field whose value is %v, not null", raw, cur)
				}
				return fmt.Sprintf("error path %v runs through the leaf value %v", raw, cur)
			}
		}
		if cur != nil {
			return fmt.Sprintf("an error is reported at %v but the data there is %v, not null", raw, cur)
		}
	}
	return ""
}

// ---- typed Go slices behind leaf lists: every subset of failing positions in a list of four, for every carrier the library
// walks by reflection ([]int64, []string, []float64, and []interface{} for comparison) and every way of resolving. A failing
// element is null with one entry at its index; every other element keeps its value.

type C06TRoot struct{ Query *C06TQuery }
type C06TQuery struct {
	Wide    interface{}
	Words   interface{}
	Ratios  interface{}
	Times   interface{}
	Started interface{}
}

type c06TRes struct{ q *C06TQuery }

func (r c06TRes) Resolve(f *ggql.Field, args map[string]interface{}) (interface{}, error) {
	switch f.Name {
	case "query":
		return r, nil
	case "wide":
		return r.q.Wide, nil
	case "words":
		return r.q.Words, nil
	case "ratios":
		return r.q.Ratios, nil
	case "times":
		return r.q.Times, nil
	}
	return r.q.Started, nil
}

type c06TAny struct{ q *C06TQuery }

func (a c06TAny) Resolve(obj interface{}, f *ggql.Field, args map[string]interface{}) (interface{}, error) {
	return c06TRes(a).Resolve(f, args)
}
func (a c06TAny) Len(list interface{}) int {
	if l, ok := list.([]interface{}); ok {
		return len(l)
	}
	return 0
}
func (a c06TAny) Nth(list interface{}, i int) (interface{}, error) {
	if l, ok := list.([]interface{}); ok && i < len(l) {
		return l[i], nil
	}
	return nil, fmt.Errorf("no element %d", i)
}

func c06Typed(c *core.Ctx) {
	// members declared non-null as well: this library does not propagate nulls, a failed member is null in place
	const sdl = "type Query { wide: [Int!] words: [Int] ratios: [Float!]! times: [Time] started: Time }\n"
	const okTime = "2020-04-05T06:07:08Z"
	var idx int64
	defer func(d int) { ggql.MaxResolveDepth = d }(ggql.MaxResolveDepth)
	for mask := 0; mask < 16; mask++ {
		for _, generic := range []bool{false, true} {
			for mode := 0; mode < 3; mode++ {
				// the depth limit is the application's to set: the default, a large one, "none"
				ggql.MaxResolveDepth = []int{100, 5000, math.MaxInt32, 7}[mask%4]
				idx++
				if !c.OwnsIdx(1<<41 + idx) {
					continue
				}
				wide, words, ratios, times := make([]int64, 4), make([]string, 4), make([]float64, 4), make([]string, 4)
				want := map[string]interface{}{}
				wl, wo, wr, wt := make([]interface{}, 4), make([]interface{}, 4), make([]interface{}, 4), make([]interface{}, 4)
				var wantPaths []string
				for i := 0; i < 4; i++ {
					wide[i], words[i], ratios[i], times[i] = int64(i+1), fmt.Sprint(10*(i+1)), float64(i)+0.5, okTime
					wl[i], wo[i], wr[i], wt[i] = i+1, 10*(i+1), float64(i)+0.5, okTime
					if mask&(1<<uint(i)) != 0 {
						wide[i], words[i], ratios[i], times[i] = 1<<40, "x", math.NaN(), "last tuesday"
						wl[i], wo[i], wr[i], wt[i] = nil, nil, nil, nil
						for _, f := range []string{"wide", "words", "ratios", "times"} {
							wantPaths = append(wantPaths, fmt.Sprintf("%s/%d", f, i))
						}
					}
				}
				want["wide"], want["words"], want["ratios"], want["times"] = wl, wo, wr, wt
				q := &C06TQuery{Wide: wide, Words: words, Ratios: ratios, Times: times, Started: okTime}
				if generic {
					g := func(n int, at func(i int) interface{}) []interface{} {
						out := make([]interface{}, n)
						for i := range out {
							out[i] = at(i)
						}
						return out
					}
					q.Wide, q.Words = g(4, func(i int) interface{} { return wide[i] }), g(4, func(i int) interface{} { return words[i] })
					q.Ratios, q.Times = g(4, func(i int) interface{} { return ratios[i] }), g(4, func(i int) interface{} { return times[i] })
				}
				want["started"] = okTime
				if mask&1 != 0 {
					q.Started = "last tuesday"
					want["started"] = nil
					wantPaths = append(wantPaths, "started")
				}
				var root *ggql.Root
				switch mode {
				case 0:
					root = ggql.NewRoot(&C06TRoot{Query: q})
				case 1:
					root = ggql.NewRoot(c06TRes{q})
				default:
					if !generic {
						continue // the list accessor of this AnyResolver knows []interface{} only
					}
					root = ggql.NewRoot(nil)
					root.AnyResolver = c06TAny{q}
				}
				if err := root.ParseString(sdl); err != nil {
					panic(core.EngineError{Msg: "C06 typed-slice schema refused: " + err.Error()})
				}
				c.Eval()
				c.R.Distinct++
				c.Nontrivial()
				var res map[string]interface{}
				pi := core.Safe(func() { res = root.ResolveString("{ wide words ratios times started }", "", nil) })
				detail := map[string]interface{}{"failing_positions_mask": mask, "max_resolve_depth": ggql.MaxResolveDepth, "carrier": map[bool]string{false: "typed slices ([]int64, []string, []float64, []string)", true: "[]interface{}"}[generic], "mode": []string{"reflection", "Resolver", "AnyResolver"}[mode], "response": res}
				if pi != nil {
					c.Violation("panic", map[string]string{"site": pi.Site, "class": pi.Class}, detail)
					continue
				}
				var gotPaths []string
				if es, ok := res["errors"].([]interface{}); ok {
					for _, e := range es {
						if em, ok := e.(map[string]interface{}); ok {
							gotPaths = append(gotPaths, world.PathString(asPath(em["path"])))
						}
					}
				}
				sort.Strings(gotPaths)
				sort.Strings(wantPaths)
				attrs := map[string]string{"part": "typed-slices", "strategy": []string{"FS", "RS", "AS"}[mode], "carrier": map[bool]string{false: "typed", true: "generic"}[generic]}
				if dd := world.Diff(world.Canon(want), world.Canon(res["data"]), ""); dd != "" {
					detail["diff"] = dd
					c.Outcome("typed-slice-data-diff")
					c.Violation("data-diff", attrs, detail)
				} else if !world.SameStrings(gotPaths, wantPaths) {
					detail["diff"] = fmt.Sprintf("error paths: want %v got %v", wantPaths, gotPaths)
					c.Outcome("typed-slice-err-diff")
					c.Violation("err-diff", attrs, detail)
				} else {
					c.Outcome("typed-slice-agree")
				}
			}
		}
	}
}

// ---- a field that fails because its (literal) argument cannot be coerced, reached once per element of a list and again when the
// same parsed request is resolved a second time: one entry per element, each path addressing its own element, the same both times
func c06BadArguments(c *core.Ctx, s *world.Schema, g *world.Graph) {
	docs := []string{
		`{ kids { id pick(i: "notanumber") } }`, `{ as { kids { echo(b: true) } id } }`, `{ kids { p: pick(e: PURPLE) q: pick(i: 1.5) } }`,
		`{ peers { id tri(a: [1]) } kids { pick(in: {min: "x"}) } }`, `{ ll { pick(ids: [null]) } }`,
	}
	for di, text := range docs {
		for _, nc := range []namedCfg{{"RS", world.Config{Strat: world.RS, Schema: s}}, {"AS", world.Config{Strat: world.AS, Schema: s}}, {"FS", world.Config{Strat: world.FS, Bind: world.BindRegister, Schema: s}}} {
			if !c.OwnsIdx(1<<47 + int64(di*3)) {
				continue
			}
			gg := g
			if nc.Cfg.Strat == world.FS {
				gg = g.FSView(s)
			}
			c.Eval()
			c.R.Distinct++
			c.Nontrivial()
			root, _, err := world.BuildRoot(nc.Cfg, gg)
			if err != nil {
				panic(core.EngineError{Msg: err.Error()})
			}
			exe, perr := root.ParseExecutableString(text)
			if perr != nil {
				panic(core.EngineError{Msg: "C06 bad-argument document refused at parse: " + perr.Error()})
			}
			var rounds [2][]string
			var datas [2]string
			var pi *core.PanicInfo
			for round := 0; round < 2 && pi == nil; round++ {
				pi = core.Safe(func() {
					res, rerr := root.ResolveExecutable(exe, "", nil)
					datas[round] = string(toJSON(world.Canon(res["data"])))
					if rerr != nil {
						for _, e := range ggql.FormErrorsResult(rerr) {
							if em, ok := e.(map[string]interface{}); ok {
								rounds[round] = append(rounds[round], world.PathString(asPath(em["path"])))
							}
						}
					}
				})
				sort.Strings(rounds[round])
			}
			detail := map[string]interface{}{"config": nc.Name, "query": text, "error_paths_first": rounds[0], "error_paths_second": rounds[1], "data_first": datas[0], "data_second": datas[1]}
			attrs := map[string]string{"part": "bad-arguments", "strategy": nc.Cfg.Strat.String()}
			switch {
			case pi != nil:
				c.Violation("panic", map[string]string{"site": pi.Site, "class": pi.Class}, detail)
			case len(rounds[0]) == 0:
				detail["diff"] = "no error for an argument that cannot be coerced"
				c.Violation("err-diff", attrs, detail)
			case !world.SameStrings(rounds[0], rounds[1]) || datas[0] != datas[1]:
				detail["diff"] = "the second resolution of the same parsed request reports other paths / data than the first"
				c.Outcome("bad-argument-rounds-differ")
				c.Violation("err-diff", attrs, detail)
			default:
				bad := ""
				seen := map[string]bool{}
				for _, p := range rounds[0] {
					segs := strings.Split(p, "/")
					for i := 0; i+1 < len(segs); i++ {
						if _, num := strconv.Atoi(segs[i]); segs[i] == segs[i+1] && segs[i] != "" && num != nil { // (two equal indexes in a row are a list of lists)
							bad = "a path repeats a segment: " + p
						}
					}
					// (the same path twice is not demanded against: an input object that does not fit is reported once for the field
					// and once for the object - argument coercion is not one of the failures this property counts entries for)
					seen[p] = true
				}
				if bad != "" {
					detail["diff"] = bad
					c.Outcome("bad-argument-paths")
					c.Violation("err-diff", attrs, detail)
				} else {
					c.Outcome("bad-argument-agree")
				}
			}
		}
	}
}

// ---- values that cannot be completed: behind a UNION-typed position (single field, list element) the application hands back a
// Go value whose type is no member of the union. That position cannot be given an object of the union: one error addressing it,
// null there, the neighbours as they are - whichever members were bound before, by registration or by the values that passed
// earlier (every list of <= 3 values over the three members and the outsider, cold and registered roots).

type C06UA struct{ X int }
type C06UB struct{ X int }
type C06UC struct{ X int }
type C06UX struct{ X int }
type c06UQuery struct {
	Mine []interface{}
	Lost interface{}
}
type c06URoot struct{ Query *c06UQuery }

func c06Unplaceable(c *core.Ctx) {
	const sdl = "union U = C06UA | C06UB | C06UC\ntype C06UA { x: Int }\ntype C06UB { x: Int }\ntype C06UC { x: Int }\ntype Query { mine: [U] lost: U }\n"
	const query = "{ mine { __typename ... on C06UA { x } ... on C06UB { x } ... on C06UC { x } } lost { __typename } }"
	mk := []func() interface{}{
		func() interface{} { return &C06UA{1} }, func() interface{} { return &C06UB{2} }, func() interface{} { return &C06UC{3} }, func() interface{} { return &C06UX{9} },
	}
	wantOf := []interface{}{
		map[string]interface{}{"__typename": "C06UA", "x": 1}, map[string]interface{}{"__typename": "C06UB", "x": 2}, map[string]interface{}{"__typename": "C06UC", "x": 3}, nil,
	}
	var lists [][]int
	for n := 1; n <= 3; n++ {
		cur := make([]int, n)
		var rec func(i int)
		rec = func(i int) {
			if i == n {
				lists = append(lists, append([]int{}, cur...))
				return
			}
			for v := 0; v < 4; v++ {
				cur[i] = v
				rec(i + 1)
			}
		}
		rec(0)
	}
	for li, l := range lists {
		for ri, reg := range []string{"cold", "registered"} {
			for lost := 0; lost < 2; lost++ { // the single field holds the outsider / the first member
				if !c.OwnsIdx(1<<48 + int64(li*4+ri*2+lost)) {
					continue
				}
				c.Eval()
				c.R.Distinct++
				q := &c06UQuery{}
				var wantMine []interface{}
				var wantPaths []string
				for i, v := range l {
					q.Mine = append(q.Mine, mk[v]())
					wantMine = append(wantMine, wantOf[v])
					if v == 3 {
						wantPaths = append(wantPaths, fmt.Sprintf("[mine %d]", i))
						c.Nontrivial()
					}
				}
				want := map[string]interface{}{"mine": wantMine}
				if lost == 0 {
					q.Lost, want["lost"] = mk[3](), nil
					wantPaths = append(wantPaths, "[lost]")
				} else {
					q.Lost, want["lost"] = mk[0](), map[string]interface{}{"__typename": "C06UA"}
				}
				root := ggql.NewRoot(&c06URoot{Query: q})
				if err := root.ParseString(sdl); err != nil {
					panic(core.EngineError{Msg: "C06 union schema refused: " + err.Error()})
				}
				var res map[string]interface{}
				pi := core.Safe(func() {
					if reg == "registered" {
						for _, rt := range []struct {
							v interface{}
							n string
						}{{&C06UA{}, "C06UA"}, {&C06UB{}, "C06UB"}, {&C06UC{}, "C06UC"}} {
							if err := root.RegisterType(rt.v, rt.n); err != nil {
								panic(core.EngineError{Msg: "C06 union registration refused: " + err.Error()})
							}
						}
					}
					res = root.ResolveString(query, "", nil)
				})
				detail := map[string]interface{}{"sdl": sdl, "query": query, "list": l, "binding": reg, "response": res, "want_data": want, "want_error_paths": wantPaths}
				attrs := map[string]string{"part": "value-of-no-member", "binding": reg}
				if pi != nil {
					detail["panic"] = pi.Value
					c.Violation("panic", map[string]string{"site": pi.Site, "class": pi.Class, "part": "value-of-no-member"}, detail)
					continue
				}
				var paths []string
				if el, ok := res["errors"].([]interface{}); ok {
					for _, e := range el {
						if m, ok := e.(map[string]interface{}); ok {
							paths = append(paths, fmt.Sprint(m["path"]))
						}
					}
				}
				sort.Strings(paths)
				sort.Strings(wantPaths)
				switch {
				case world.Diff(world.Canon(want), world.Canon(res["data"]), "") != "":
					detail["diff"] = world.Diff(world.Canon(want), world.Canon(res["data"]), "")
					c.Outcome("no-member-data-diff")
					c.Violation("data-diff", attrs, detail)
				case strings.Join(paths, " ") != strings.Join(wantPaths, " "):
					detail["diff"] = fmt.Sprintf("error paths %v, want %v", paths, wantPaths)
					c.Outcome("no-member-error-diff")
					c.Violation("err-diff", attrs, detail)
				default:
					c.Outcome("no-member-agree")
				}
			}
		}
	}
}

// ---- lists of lists of leaves (a 2 x 3 matrix, not square) behind typed Go matrices ([][]int64, [][]float64) and behind
// []interface{} of []interface{}: every single cell and every pair of cells made unrepresentable in turn - null in that cell,
// one entry whose path ends in row and column of that cell, the other cells as they are.

type C06MQuery struct {
	Grid   interface{}
	Big    interface{}
	Ratios interface{}
}
type c06MRoot struct{ Query *C06MQuery }
type c06MRes struct{ q *C06MQuery }

func (r c06MRes) Resolve(f *ggql.Field, args map[string]interface{}) (interface{}, error) {
	switch f.Name {
	case "grid":
		return r.q.Grid, nil
	case "big":
		return r.q.Big, nil
	case "ratios":
		return r.q.Ratios, nil
	}
	return r, nil
}

func c06Matrices(c *core.Ctx) {
	const sdl = "type Query { grid: [[Int]] big: [[Int64!]!] ratios: [[Float]] }\n"
	const rows, cols = 2, 3
	var masks []int
	for a := 0; a < rows*cols; a++ {
		masks = append(masks, 1<<uint(a))
		for b := a + 1; b < rows*cols; b++ {
			masks = append(masks, 1<<uint(a)|1<<uint(b))
		}
	}
	var idx int64
	for _, mask := range masks {
		for _, generic := range []bool{false, true} {
			for mode := 0; mode < 2; mode++ {
				idx++
				if !c.OwnsIdx(1<<49 + idx) {
					continue
				}
				grid, big, ratios := make([][]int64, rows), make([][]float64, rows), make([][]float64, rows)
				wg, wb, wr := make([]interface{}, rows), make([]interface{}, rows), make([]interface{}, rows)
				var wantPaths []string
				for i := 0; i < rows; i++ {
					grid[i], big[i], ratios[i] = make([]int64, cols), make([]float64, cols), make([]float64, cols)
					rg, rb, rr := make([]interface{}, cols), make([]interface{}, cols), make([]interface{}, cols)
					for j := 0; j < cols; j++ {
						n := i*cols + j
						grid[i][j], big[i][j], ratios[i][j] = int64(n+1), float64(100*(n+1)), float64(n)+0.5
						rg[j], rb[j], rr[j] = n+1, 100*(n+1), float64(n)+0.5
						if mask&(1<<uint(n)) != 0 {
							grid[i][j], big[i][j], ratios[i][j] = 1<<31, math.Inf(1), math.NaN()
							rg[j], rb[j], rr[j] = nil, nil, nil
							for _, f := range []string{"grid", "big", "ratios"} {
								wantPaths = append(wantPaths, fmt.Sprintf("%s/%d/%d", f, i, j))
							}
						}
					}
					wg[i], wb[i], wr[i] = rg, rb, rr
				}
				want := map[string]interface{}{"grid": wg, "big": wb, "ratios": wr}
				q := &C06MQuery{Grid: grid, Big: big, Ratios: ratios}
				if generic {
					gen := func(at func(i, j int) interface{}) []interface{} {
						out := make([]interface{}, rows)
						for i := range out {
							row := make([]interface{}, cols)
							for j := range row {
								row[j] = at(i, j)
							}
							out[i] = row
						}
						return out
					}
					q.Grid, q.Big = gen(func(i, j int) interface{} { return grid[i][j] }), gen(func(i, j int) interface{} { return big[i][j] })
					q.Ratios = gen(func(i, j int) interface{} { return ratios[i][j] })
				}
				var root *ggql.Root
				if mode == 0 {
					root = ggql.NewRoot(&c06MRoot{Query: q})
				} else {
					root = ggql.NewRoot(c06MRes{q})
				}
				if err := root.ParseString(sdl); err != nil {
					panic(core.EngineError{Msg: "C06 matrix schema refused: " + err.Error()})
				}
				c.Eval()
				c.R.Distinct++
				c.Nontrivial()
				var res map[string]interface{}
				pi := core.Safe(func() { res = root.ResolveString("{ grid big ratios }", "", nil) })
				detail := map[string]interface{}{"failing_cells_mask": mask, "carrier": map[bool]string{false: "typed matrices ([][]int64, [][]float64)", true: "[]interface{} of []interface{}"}[generic], "mode": []string{"reflection", "Resolver"}[mode], "response": res}
				if pi != nil {
					c.Violation("panic", map[string]string{"site": pi.Site, "class": pi.Class}, detail)
					continue
				}
				var gotPaths []string
				if es, ok := res["errors"].([]interface{}); ok {
					for _, e := range es {
						if em, ok := e.(map[string]interface{}); ok {
							gotPaths = append(gotPaths, world.PathString(asPath(em["path"])))
						}
					}
				}
				sort.Strings(gotPaths)
				sort.Strings(wantPaths)
				attrs := map[string]string{"part": "matrices", "strategy": []string{"FS", "RS"}[mode], "carrier": map[bool]string{false: "typed", true: "generic"}[generic]}
				if dd := world.Diff(world.Canon(want), world.Canon(res["data"]), ""); dd != "" {
					detail["diff"] = dd
					c.Outcome("matrix-data-diff")
					c.Violation("data-diff", attrs, detail)
				} else if !world.SameStrings(gotPaths, wantPaths) {
					detail["diff"] = fmt.Sprintf("error paths: want %v got %v", wantPaths, gotPaths)
					c.Outcome("matrix-err-diff")
					c.Violation("err-diff", attrs, detail)
				} else {
					c.Outcome("matrix-agree")
				}
			}
		}
	}
}
