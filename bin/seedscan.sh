#!/bin/bash
# bin/seedscan.sh <dir with patch.diff> [check ids...]
# Runs checks against a seeded change WITHOUT touching /repo or /verif's build and evidence: a scratch worktree of
# /repo with the patch applied and a scratch copy of /verif (sources only) under /tmp, removed afterwards.
# Prints one "CHECK <id> exit=<rc> violations=<n> <first violation>" line per check. (Exploration aid; the confirming
# run that is recorded in seeded/<id>/meta.json is bin/seedtest.sh, which applies the patch to /repo itself.)
dir="$(cd "$1" && pwd)"; shift
src="${VERIF_SRC:-/verif}"
checks="$@"; [ -z "$checks" ] && checks=$(jq -r '.checks[].property_id' "$src/MANIFEST.json")
tier="${TIER:-quick}"
sb=/tmp/seedscan.$$
mkdir -p "$sb" || exit 2
cleanup() { git -C /repo worktree remove --force "$sb/repo" 2>/dev/null; rm -rf "$sb"; }
trap cleanup EXIT
git -C /repo worktree add -q --detach "$sb/repo" HEAD || exit 2
git -C "$sb/repo" apply "$dir/patch.diff" || { echo "RESULT patch does not apply"; exit 1; }
rsync -a --exclude .git --exclude .gocache --exclude build --exclude replays --exclude evidence --exclude seeded "$src/" "$sb/verif/"
mkdir -p "$sb/verif/evidence"
export VERIF_DIR="$sb/verif" VERIF_REPO="$sb/repo"
source "$sb/verif/bin/env.sh"
export GOCACHE="$src/.gocache"
"$VERIF_DIR/bin/build.sh" >"$sb/build.log" 2>&1 || { echo "RESULT harness build failed"; tail -5 "$sb/build.log"; exit 2; }
grep -h 'build.sh:' "$sb/build.log"
for id in $checks; do
  out=$("$(vbin "$id")" run "$id" "$tier" 2>&1); rc=$?
  n=$(echo "$out" | grep -c '^VIOLATION')
  first=$(echo "$out" | grep -m1 '^VIOLATION' | sed 's/replay=[^ ]* //' | cut -c1-220)
  [ $rc -ge 2 ] && first=$(echo "$out" | grep -m1 'ENGINE-ERROR' | cut -c1-300)
  echo "CHECK $id exit=$rc violations=$n $first"
done
