package props

import (
	"errors"
	"fmt"
	"io"
	"strings"
	"time"

	"github.com/uhn/ggql/pkg/ggql"

	"verif/mc/core"
	"verif/mc/sgen"
	"verif/mc/world"
)

// C14 — schema loading is all-or-nothing (DESIGN 5.14). Explicit-state exploration of load histories.

func init() {
	Register(&Check{
		ID:  "C14",
		Run: runC14,
		Rule: "3 initial roots (minimal, kitchen sink, custom root names) x every history of length <= L (quick 3, thorough 4) over a menu of valid documents (new types, extend of object/enum/union/input/interface, directive definition + use) " +
			"and failing documents = every failure class {syntax error, undefined reference, duplicate type, extension of a missing type, duplicate member through extend, empty type, reserved name, AddTypes with an undefined reference} placed after each kind of valid content " +
			"{nothing, new type, extend block, directive definition + use, schema block}; plus every valid document cut by a reader error at every Read offset. " +
			"Oracle: after every failing load the observables (full SDL, canonical read-back incl. root types, introspection data, fixed requests) equal those before it; after any history they equal those of the same history with the failing loads deleted. " +
			"Histories are enumerated without merging. distinct = (initial root, history); non-trivial = history contains a failing load after a successful one or followed by a successful one",
		Technique:      "explicit-state exploration of load histories on the real API (no merging) with before/after and failure-deleted differential oracles; exhaustive reader-fault offsets",
		Assumptions:    []string{"observables are read through the public API (SDL, Types(), GetType, introspection)"},
		QuickBudget:    240 * time.Second,
		ThoroughBudget: 25 * time.Minute,
	})
}

type c14Doc struct {
	Name     string
	SDL      string
	AddTypes func() []ggql.Type // AddTypes route when non-nil
}

func c14Menu(initial int) []c14Doc {
	q := "Query"
	if initial == 2 {
		q = "Qy"
	}
	valid := []c14Doc{
		{Name: "V-new-types", SDL: "type N1 { x: Int }\nenum NE { P Q }\n"},
		{Name: "V-extend-object", SDL: "extend type " + q + " { added: Int }\n"},
		{Name: "V-new-scalar", SDL: "scalar Day\n"},
		// an operation root that sorts after one the schema does not have yet (subscription, no mutation)
		{Name: "V-subscription-type-only", SDL: "type Subscription { vs: Int }\n"},
		{Name: "V-directive-def-and-use", SDL: "directive @nd(k: Int = 1) on OBJECT\ntype N2 @nd(k: 2) { y: Int }\n"},
		// a directive use whose argument is an input object: validation coerces such values (and fills defaults in)
		{Name: "V-directive-with-input-object-argument", SDL: "directive @cfg(opt: Opt, opts: [Opt]) on OBJECT\ninput Opt { a: Int }\ntype Cfgd @cfg(opt: {a: 1}, opts: [{a: 2}]) { x: Int }\n" +
			// and a directive whose argument DEFAULTS are input objects (coerced, defaults filled in, when the definition is validated)
			"directive @dfl(opt: Opt = {a: 7}, opts: [Opt] = [{}]) on OBJECT\n"},
	}
	if initial == 1 {
		valid = append(valid,
			c14Doc{Name: "V-extend-enum-union-input-interface", SDL: "extend enum Color { PINK }\nextend union AB = Ev\nextend input Filter { more: Int = 5 }\nextend interface Named { nick: String }\nextend type A { nick: String }\nextend type B { nick: String }\n"})
	}
	prefixes := []struct{ name, sdl string }{
		{"nothing", ""},
		{"new-type", "type P1 { x: Int }\n"},
		{"extend-block", "extend type " + q + " { px: Int }\n"},
		{"directive-def-and-use", "directive @pd on OBJECT | FIELD_DEFINITION\ntype P2 @pd { z: Int @pd }\n"},
		{"two-extend-blocks", "extend type " + q + " { px1: Int }\nextend type " + q + " { px2: Int }\n"},
	}
	if initial != 2 {
		// root operation types arriving with the failing document (the implicit schema is updated in place)
		prefixes = append(prefixes, struct{ name, sdl string }{"new-root-types", "type Mutation { pm: Int }\ntype Subscription { ps: Int }\n"})
	}
	if initial == 0 {
		prefixes = append(prefixes, struct{ name, sdl string }{"schema-block", "schema { query: Alt }\ntype Alt { alt: Int }\n"})
	}
	if initial == 1 {
		prefixes = append(prefixes, struct{ name, sdl string }{"extend-enum-and-union", "extend enum Color { PUCE }\nextend union AB = Ev\n"})
		// implementers of an interface of an earlier load arrive with the failing document (a new type, and an old one by extension)
		prefixes = append(prefixes, struct{ name, sdl string }{"new-implementers-of-an-old-interface", "type P9 implements Named { name: String }\nextend type Ev implements Named\n"})
	}
	// an input type used by a directive argument of an EARLIER load gains a defaulted field (only valid after
	// V-directive-with-input-object-argument; otherwise one more way to fail)
	prefixes = append(prefixes, struct{ name, sdl string }{"extend-input-used-by-directive-argument", "extend input Opt { extra: Int = 5 }\n"})
	if initial != 2 {
		// the implicit schema extended in the failing document, beside a root type arriving with it
		prefixes = append(prefixes, struct{ name, sdl string }{"new-root-type-and-extend-schema", "type Subscription { ps: Int }\nextend schema @pd2 { }\ndirective @pd2 on SCHEMA\n"})
	}
	// scalars that exist already (Date in the kitchen sink, Day after V-new-scalar; elsewhere they are simply new) declared
	// again, with a description this time: the existing scalar is kept, and nothing of the refused load may stick to it
	prefixes = append(prefixes, struct{ name, sdl string }{"scalars-declared-again-with-descriptions", "\"A day, says a load that may be refused.\" scalar Day\n\"A date, likewise.\" scalar Date\n"})
	if initial == 0 {
		// the undeclared schema is given the operation it lacks by the failing document (valid unless a mutation type exists)
		prefixes = append(prefixes, struct{ name, sdl string }{"extend-schema-names-the-missing-mutation", "type Mut7 { m7: Int }\nextend schema { mutation: Mut7 }\n"})
	}
	failures := []struct{ name, sdl string }{
		{"syntax-error", "type Broken { x: \n"},
		{"undefined-reference", "type Bad1 { y: Zq7 }\n"},
		{"duplicate-type", "type " + q + " { dup: Int }\n"},
		{"extend-missing-type", "extend type Nope { x: Int }\n"},
		{"extend-kind-mismatch", "extend interface " + q + " { x: Int }\n"},
		{"extend-duplicate-member", "extend type " + q + " { " + map[bool]string{true: "x", false: "i"}[initial == 2] + ": Int }\n"},
		{"empty-type", "type Bad2 {}\n"},
		{"reserved-name", "type __Bad3 { a: Int }\n"},
		{"undefined-directive", "type Bad4 @zq7 { a: Int }\n"},
		{"misplaced-directive-on-extend-schema", "extend schema @deprecated { }\n"},
	}
	out := append([]c14Doc{}, valid...)
	// every valid prefix of the failing documents is also a valid load of its own: after the failing document was rolled
	// back, the same definitions must load exactly as if the failure had never happened (nothing may linger in a lookup table)
	for _, p := range prefixes {
		if p.sdl != "" {
			out = append(out, c14Doc{Name: "V-again-" + p.name, SDL: p.sdl})
		}
	}
	for _, p := range prefixes {
		for _, f := range failures {
			out = append(out, c14Doc{Name: "F-" + f.name + "-after-" + p.name, SDL: p.sdl + f.sdl})
		}
	}
	// an extension that fails INSIDE: it brings a new member first and a clash second, so part of it has been applied to the
	// extended (shared, pre-existing) type when the clash is met - for every kind of extensible type the root holds
	existing := map[bool]string{true: "x", false: "i"}[initial == 2]
	inside := []struct{ name, sdl string }{
		{"extend-object-new-member-then-duplicate", "extend type " + q + " { fresh1: Int " + existing + ": Int }\n"},
	}
	if initial == 1 {
		inside = append(inside, []struct{ name, sdl string }{
			{"extend-enum-new-value-then-duplicate", "extend enum Color { FRESH RED }\n"},
			{"extend-union-new-member-then-duplicate", "extend union AB = Ev | A\n"},
			{"extend-input-new-field-then-duplicate", "extend input Filter { fresh: Int min: Int }\n"},
			{"extend-interface-new-field-then-duplicate", "extend interface Named { fresh: Int name: String }\n"},
			{"extend-object-new-interface-then-duplicate-field", "extend type Ev implements Named { fresh: Int n: Int }\n"},
		}...)
	}
	for _, f := range inside {
		for _, p := range prefixes[:2] {
			out = append(out, c14Doc{Name: "F-" + f.name + "-after-" + p.name, SDL: p.sdl + f.sdl})
		}
	}
	out = append(out, c14Doc{Name: "F-addtypes-undefined-reference", AddTypes: func() []ggql.Type {
		o := &ggql.Object{Base: ggql.Base{N: "AT1"}}
		_ = o.AddField(&ggql.FieldDef{Base: ggql.Base{N: "ok"}, Type: &ggql.Ref{Base: ggql.Base{N: "Int"}}})
		b := &ggql.Object{Base: ggql.Base{N: "AT2"}}
		_ = b.AddField(&ggql.FieldDef{Base: ggql.Base{N: "bad"}, Type: &ggql.Ref{Base: ggql.Base{N: "Zq7"}}})
		return []ggql.Type{o, b}
	}})
	// a root operation type handed over by AddTypes together with a type that only validation refuses (no fields)
	out = append(out, c14Doc{Name: "F-addtypes-root-type-and-empty-type", AddTypes: func() []ggql.Type {
		m := &ggql.Object{Base: ggql.Base{N: "Mutation"}}
		_ = m.AddField(&ggql.FieldDef{Base: ggql.Base{N: "am"}, Type: &ggql.Ref{Base: ggql.Base{N: "Int"}}})
		sub := &ggql.Object{Base: ggql.Base{N: "Subscription"}}
		_ = sub.AddField(&ggql.FieldDef{Base: ggql.Base{N: "as"}, Type: &ggql.Ref{Base: ggql.Base{N: "Int"}}})
		return []ggql.Type{m, sub, &ggql.Object{Base: ggql.Base{N: "AT4Empty"}}}
	}})
	out = append(out, c14Doc{Name: "V-addtypes", AddTypes: func() []ggql.Type {
		o := &ggql.Object{Base: ggql.Base{N: "AT3"}}
		_ = o.AddField(&ggql.FieldDef{Base: ggql.Base{N: "ok"}, Type: &ggql.Ref{Base: ggql.Base{N: "Int"}}})
		return []ggql.Type{o}
	}})
	return out
}

var c14DirNames = []string{"tag", "onschema", "nd", "pd", "any", "inner", "cfg", "pd2", "dfl"}

// c14Observe reads every observable of the root.
func c14Observe(root *ggql.Root) (string, *core.PanicInfo) {
	var b strings.Builder
	pi := core.Safe(func() {
		b.WriteString("SDL:\n" + root.SDL(true, true) + "\n")
		back, err := sgen.FromRoot(root, c14DirNames)
		if err != nil {
			b.WriteString("READBACK-ERROR: " + err.Error() + "\n")
		} else {
			b.WriteString("CANON:\n" + back.Canonical(sgen.CanonOpts{}) + "\n")
		}
		// besides introspection: requests that go through the name lookup tables a load fills (fields, enum values, input
		// fields, union members, directives, types) for every name the menu's documents introduce
		for _, rq := range []string{introQuery, "{__typename}", "mutation {__typename}", "{__type(name:\"N1\"){name fields{name}}}",
			"{px px1 px2 added alt}", "mutation {pm}", "{pick(e: PUCE)}", "{pick(e: PINK)}", "{pick(in: {min: 1, more: 2})}", "{u{... on Ev{__typename}}}", "{a @pd {id}}", "{a @nd {id}}",
			"{__type(name:\"P1\"){name} p2: __type(name:\"P2\"){name} alt: __type(name:\"Alt\"){name}}", "{a{nick} named{nick}}", "subscription {ps}",
			"{pets{__typename ... on Cat{name} ... on Dog{name}} animals{__typename name ... on Cat{c: name}}}", "{cat{__typename name} pets{... on Animal{name}}}"} {
			res := root.ResolveString(rq, "", nil)
			b.WriteString("REQ: " + string(toJSON(canonIntro(world.Canon(res)))) + "\n")
		}
	})
	return b.String(), pi
}

// Initial root 3: data served by REFLECTION through Go types that are not called like the object types (bound by RegisterType) and
// reached through interface- and union-typed fields: what a load does to a binding shows in the responses only.
type c14Feline struct{ Name string }
type c14Canine struct{ Name string }
type c14ReflQuery struct {
	Pets    []interface{}
	Animals []interface{}
	Cat     *c14Feline
}
type c14ReflRoot struct{ Query *c14ReflQuery }

const c14ReflSDL = "interface Animal { name: String }\ntype Cat implements Animal { name: String }\ntype Dog implements Animal { name: String }\nunion Pet = Cat | Dog\n" +
	"type Query { pets: [Pet] animals: [Animal] cat: Cat }\ndirective @tag(v: Int) on OBJECT\n"

func c14ReflMenu() []c14Doc {
	return []c14Doc{
		{Name: "V-new-type", SDL: "type Extra { a: Int }\n"},
		{Name: "V-extend-bound-type", SDL: "extend type Cat { age: Int }\n"},
		{Name: "V-extend-with-go-directive", SDL: "extend type Dog @go(type: \"c14Canine\")\n"},
		{Name: "F-go-directive-then-unknown-target", SDL: "extend type Cat @go(type: \"c14Feline\")\nextend type Nowhere { a: Int }\n"},
		{Name: "F-go-directive-naming-another-type-then-reserved-name", SDL: "extend type Cat @go(type: \"c14Canine\")\ntype __Bad { a: Int }\n"},
		{Name: "F-tag-then-duplicate-field", SDL: "extend type Dog @tag(v: 1)\nextend type Dog { name: String }\n"},
		{Name: "F-member-then-duplicate-member", SDL: "type Bird implements Animal { name: String }\nextend union Pet = Bird\nextend union Pet = Cat\n"},
		{Name: "F-interface-extended-then-unknown-type", SDL: "extend interface Animal { legs: Int }\nextend type Cat { legs: Int }\nextend type Dog { legs: Zq7 }\n"},
	}
}

func c14Initial(variant int) *ggql.Root {
	if variant == 3 {
		root := ggql.NewRoot(&c14ReflRoot{Query: &c14ReflQuery{Pets: []interface{}{&c14Feline{"tom"}, &c14Canine{"rex"}, &c14Feline{"kit"}}, Animals: []interface{}{&c14Canine{"rex"}, &c14Feline{"tom"}}, Cat: &c14Feline{"tom"}}})
		if err := root.ParseString(c14ReflSDL); err != nil {
			panic(core.EngineError{Msg: "C14 reflection schema refused: " + err.Error()})
		}
		for _, rt := range []struct {
			v interface{}
			n string
		}{{&c14ReflQuery{}, "Query"}, {&c14Feline{}, "Cat"}, {&c14Canine{}, "Dog"}} {
			if err := root.RegisterType(rt.v, rt.n); err != nil {
				panic(core.EngineError{Msg: "C14 reflection registration refused: " + err.Error()})
			}
		}
		return root
	}
	root := ggql.NewRoot(c16Dummy{})
	s := sgen.Bases()[variant]
	if err := root.ParseString(s.SDL()); err != nil {
		panic(core.EngineError{Msg: "C14 initial schema refused: " + err.Error()})
	}
	return root
}

func c14Apply(root *ggql.Root, d c14Doc) (err error, pi *core.PanicInfo) {
	core.Announce("load " + d.Name + ":\n" + d.SDL)
	pi = core.Safe(func() {
		if d.AddTypes != nil {
			err = root.AddTypes(d.AddTypes()...)
		} else {
			err = root.ParseString(d.SDL)
		}
	})
	return
}

// faultReader returns data up to cut, then an error.
type faultReader struct {
	data []byte
	cut  int
	pos  int
}

var errInjectedRead = errors.New("injected read failure")

func (r *faultReader) Read(p []byte) (int, error) {
	if r.pos >= r.cut {
		return 0, errInjectedRead
	}
	if len(p) == 0 {
		return 0, nil
	}
	p[0] = r.data[r.pos]
	r.pos++
	return 1, nil
}

var _ io.Reader = (*faultReader)(nil)

func runC14(c *core.Ctx) {
	ggql.Sort = true
	defer func() { ggql.Sort = false }()
	maxLen := 3
	if c.Thorough() {
		maxLen = 4
	}
	completed := true
	var idx int64
	for variant := 0; variant < 4 && completed; variant++ {
		menu := c14Menu(variant)
		if variant == 3 {
			menu = c14ReflMenu()
		}
		nValid := 0
		for _, d := range menu {
			if strings.HasPrefix(d.Name, "V-") && d.AddTypes == nil {
				nValid++
			}
		}
		var seq []int
		var rec func()
		rec = func() {
			if !completed {
				return
			}
			if len(seq) > 0 {
				idx++
				if c.OwnsIdx(idx) {
					if c.Expired() {
						completed = false
						return
					}
					c14Run(c, variant, menu, seq)
				}
			}
			if len(seq) == maxLen {
				return
			}
			for i := range menu {
				// quick: histories of length 3 only after two of the first 6 menu entries (the valid documents and the first failures)
				if !c.Thorough() && len(seq) == 2 && (seq[0] >= nValid+2 || seq[1] >= nValid+2) {
					continue
				}
				// thorough: every history of length 3; length 4 after two of the valid documents or the first two failures
				if c.Thorough() && len(seq) == 3 && (seq[0] >= nValid+2 || seq[1] >= nValid+2) {
					continue
				}
				seq = append(seq, i)
				rec()
				seq = seq[:len(seq)-1]
			}
		}
		rec()
		// reader faults: every valid document cut at every offset
		for _, d := range menu {
			if d.AddTypes != nil || !strings.HasPrefix(d.Name, "V-") {
				continue
			}
			for cut := 0; cut < len(d.SDL); cut++ {
				idx++
				if !c.OwnsIdx(idx) {
					continue
				}
				c.Nontrivial()
				c.Eval()
				root := c14Initial(variant)
				before, _ := c14Observe(root)
				var err error
				core.Announce(fmt.Sprintf("ParseReader of %s failing at offset %d", d.Name, cut))
				pi := core.Safe(func() { err = root.ParseReader(&faultReader{data: []byte(d.SDL), cut: cut}) })
				detail := map[string]interface{}{"initial": variant, "document": d.Name, "sdl": d.SDL, "fault_offset": cut}
				if pi != nil {
					c.Violation("panic", map[string]string{"site": pi.Site, "class": pi.Class, "where": "reader-fault"}, detail)
					continue
				}
				if err == nil {
					c.Outcome("reader-fault-ignored")
					detail["diff"] = "a failing reader produced no error"
					c.Violation("reader-fault-ignored", map[string]string{"document": d.Name}, detail)
					continue
				}
				after, _ := c14Observe(root)
				if after != before {
					c.Outcome("reader-fault-changed-root")
					detail["diff"] = firstLineDiff(before, after)
					c.Violation("history-diff", map[string]string{"what": "failed-load-changed-root", "failure": "reader-fault", "after": d.Name}, detail)
					continue
				}
				c.Outcome("reader-fault-no-effect")
			}
		}
	}
	c.R.Bound = fmt.Sprintf("all load histories of length <= %d (the longest histories only after two of the valid documents or the first two failures); all reader-fault offsets", maxLen)
	if !completed {
		c.Cap("deadline reached")
	}
}

func c14Run(c *core.Ctx, variant int, menu []c14Doc, seq []int) {
	root := c14Initial(variant)
	names := make([]string, len(seq))
	for i, s := range seq {
		names[i] = menu[s].Name
	}
	detail := func(msg string, step int) map[string]interface{} {
		docs := make([]string, len(seq))
		for i, s := range seq {
			docs[i] = menu[s].SDL
		}
		return map[string]interface{}{"initial": variant, "history": names, "documents": docs, "step": step, "diff": msg}
	}
	var ok []bool
	sawOK, interesting := false, false
	for step, mi := range seq {
		before, pi0 := c14Observe(root)
		if pi0 != nil {
			c.Violation("panic", map[string]string{"site": pi0.Site, "class": pi0.Class, "where": "observe"}, detail(pi0.Value, step))
			return
		}
		c.Eval()
		err, pi := c14Apply(root, menu[mi])
		if pi != nil {
			c.Outcome("panic")
			c.Violation("panic", map[string]string{"site": pi.Site, "class": pi.Class, "where": "load", "doc": failureClass(menu[mi].Name)}, detail(pi.Value, step))
			return
		}
		ok = append(ok, err == nil)
		if err == nil {
			if len(ok) > 1 && !ok[len(ok)-2] {
				interesting = true
			}
			sawOK = true
			continue
		}
		if sawOK {
			interesting = true
		}
		after, pi1 := c14Observe(root)
		if pi1 != nil {
			c.Outcome("panic-after-failed-load")
			c.Violation("panic", map[string]string{"site": pi1.Site, "class": pi1.Class, "where": "observe-after-failed-load", "doc": failureClass(menu[mi].Name)}, detail(pi1.Value, step))
			return
		}
		if after != before {
			c.Outcome("failed-load-changed-root")
			c.Violation("history-diff", map[string]string{"what": "failed-load-changed-root", "failure": failureClass(menu[mi].Name), "after": prefixClass(menu[mi].Name)}, detail(firstLineDiff(before, after), step))
			return
		}
	}
	if interesting {
		c.Nontrivial()
	}
	// the same history with the failing loads deleted
	anyFail := false
	for _, o := range ok {
		if !o {
			anyFail = true
		}
	}
	if anyFail {
		final, _ := c14Observe(root)
		root2 := c14Initial(variant)
		for i, mi := range seq {
			if !ok[i] && strings.HasPrefix(menu[mi].Name, "F-") {
				continue // the failing documents are deleted; a document that is valid on its own stays, whatever it did above
			}
			err, pi := c14Apply(root2, menu[mi])
			if pi != nil || (err == nil) != ok[i] {
				c.Outcome("reduced-history-differs")
				c.Violation("history-diff", map[string]string{"what": "later-load-behaves-differently", "doc": menu[mi].Name}, detail(fmt.Sprintf("with the failing loads deleted, %s gives error=%v panic=%v; after the failed loads it gave accepted=%v", menu[mi].Name, err, pi, ok[i]), i))
				return
			}
		}
		final2, _ := c14Observe(root2)
		if final != final2 {
			c.Outcome("reduced-history-differs")
			c.Violation("history-diff", map[string]string{"what": "differs-from-failure-deleted-history"}, detail(firstLineDiff(final2, final), len(seq)))
			return
		}
	}
	c.Outcome("all-or-nothing")
	c.Sample(func() interface{} { return map[string]interface{}{"initial": variant, "history": names} })
}

func failureClass(name string) string {
	if !strings.HasPrefix(name, "F-") {
		return "valid"
	}
	n := strings.TrimPrefix(name, "F-")
	if i := strings.Index(n, "-after-"); i >= 0 {
		return n[:i]
	}
	return n
}

func prefixClass(name string) string {
	if i := strings.Index(name, "-after-"); i >= 0 {
		return name[i+len("-after-"):]
	}
	return "nothing"
}
