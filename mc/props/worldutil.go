package props

import (
	"encoding/json"
	"fmt"
	"sort"
	"strings"

	"verif/mc/core"
	"verif/mc/world"
)

// namedCfg is one way of serving a world.
type namedCfg struct {
	Name string
	Cfg  world.Config
}

// configsFor lists the serving configurations in which the document is inside the claim
// (RS/AS: documented limitation - no type binding, so no union fields and no abstract dispatch).
func configsFor(s *world.Schema, ft world.DocFeatures, withAbstractFS bool) []namedCfg {
	var out []namedCfg
	abstractDispatch := ft.AbstractCond || ft.ConcreteUnderInterface || ft.ConcreteUnderUnion
	if !ft.UnionField && !abstractDispatch {
		out = append(out,
			namedCfg{"RS/slice", world.Config{Strat: world.RS, Car: world.CarSlice, Schema: s}},
			namedCfg{"RS/native", world.Config{Strat: world.RS, Car: world.CarNative, Schema: s}},
			namedCfg{"AS/slice", world.Config{Strat: world.AS, Car: world.CarSlice, Schema: s}},
			namedCfg{"AS/native", world.Config{Strat: world.AS, Car: world.CarNative, Schema: s}},
			namedCfg{"AS/listresolver", world.Config{Strat: world.AS, Car: world.CarListRes, Schema: s}},
		)
	}
	if withAbstractFS || (!ft.AbstractCond && !ft.ConcreteUnderInterface) {
		out = append(out, namedCfg{"FS/register", world.Config{Strat: world.FS, Bind: world.BindRegister, Schema: s}})
		out = append(out, namedCfg{"FS/register-fields", world.Config{Strat: world.FS, Bind: world.BindRegisterFields, Schema: s}})
	}
	if !ft.UnionField && !ft.InterfaceField && !abstractDispatch {
		out = append(out, namedCfg{"FS/byname", world.Config{Strat: world.FS, Bind: world.BindByName, Schema: s}})
	}
	return out
}

// expectedCalls filters the reference call set to what the strategy can observe
// (under FS only method-backed fields produce a call).
func expectedCalls(s *world.Schema, g *world.Graph, ex *world.Expect, strat world.Strategy) []string {
	var out []string
	for k := range ex.Calls {
		if strat == world.FS {
			// k = "<node>.<field>"
			dot := strings.IndexByte(k, '.')
			var id int
			fmt.Sscanf(k[:dot], "%d", &id)
			n := g.ByID(id)
			td := s.Type(n.Type)
			if td == nil || td.Field(k[dot+1:]) == nil || !td.Field(k[dot+1:]).Method {
				continue
			}
		}
		out = append(out, k)
	}
	sort.Strings(out)
	return out
}

// worldCase is the replayable description of one executed case.
type worldCase struct {
	Config   string                 `json:"config"`
	Graph    int                    `json:"graph_variant"`
	SDL      string                 `json:"sdl,omitempty"`
	Query    string                 `json:"query"`
	Op       string                 `json:"op"`
	Vars     map[string]interface{} `json:"vars,omitempty"`
	Faults   []string               `json:"faults,omitempty"`
	Expected interface{}            `json:"expected"`
	Observed interface{}            `json:"observed"`
	Diff     string                 `json:"diff"`
}

// diffClass turns a Diff message into a coarse class for violation keys.
func diffClass(d string) string {
	switch {
	case strings.Contains(d, "«"):
		return "non-json-value"
	case strings.Contains(d, "unexpected key"):
		return "unexpected-key"
	case strings.Contains(d, "missing key"):
		return "missing-key"
	case strings.Contains(d, "want object"):
		return "want-object"
	case strings.Contains(d, "want list"):
		return "want-list"
	case strings.Contains(d, "list length"):
		return "list-length"
	case strings.Contains(d, "want <nil>"):
		return "want-null"
	case strings.Contains(d, "got <nil>"):
		return "got-null"
	}
	return "value"
}

func toJSON(v interface{}) json.RawMessage {
	b, err := json.Marshal(v)
	if err != nil {
		return json.RawMessage(fmt.Sprintf("%q", fmt.Sprint(v)))
	}
	return b
}

// compareExpect checks an observation against the reference; returns "" if they agree, else (kind, message).
func compareExpect(s *world.Schema, g *world.Graph, ex *world.Expect, o *world.Obs, strat world.Strategy, checkCalls bool) (kind, msg string) {
	if o.Panic != nil {
		return "panic", o.Panic.Value
	}
	if ex.Rejected {
		if o.HasData {
			return "rejected-has-data", "request must be rejected but data is present"
		}
		if len(o.Errors) == 0 {
			return "rejected-no-error", "request must be rejected but no error is reported"
		}
		if len(o.Calls) > 0 {
			return "rejected-calls", "resolvers ran for a rejected request: " + strings.Join(o.Calls, ",")
		}
		return "", ""
	}
	var want interface{} = map[string]interface{}(ex.Data)
	if d := world.Diff(want, o.Data, ""); d != "" {
		return "data-diff", d
	}
	if !world.SameStrings(ex.ErrPaths, o.ErrPaths) {
		return "err-diff", fmt.Sprintf("error paths want %v got %v", ex.ErrPaths, o.ErrPaths)
	}
	if checkCalls {
		wc := expectedCalls(s, g, ex, strat)
		if !world.SameStrings(wc, o.Calls) {
			return "call-diff", fmt.Sprintf("calls want %v got %v", wc, o.Calls)
		}
	}
	return "", ""
}

func sample(c *core.Ctx, f func() interface{}) { c.Sample(f) }
