#!/usr/bin/env python3
"""bin/seedkeep.py <src dir> <seeded id> <property> "<what it needs to manifest>" "<seedtest output file>"
Copies patch.diff / demo_test.go / NOTES.md into /verif/seeded/<id>/ and writes meta.json from the seedtest output."""
import sys, os, shutil, json, re
src, sid, prop, needs, outf = sys.argv[1:6]
dst = os.path.join('/verif/seeded', sid); os.makedirs(dst, exist_ok=True)
for f in ['patch.diff', 'demo_test.go', 'NOTES.md']:
    p = os.path.join(src, f)
    if os.path.exists(p): shutil.copy(p, os.path.join(dst, f))
out = open(outf).read()
res = [l for l in out.splitlines() if l.startswith('RESULT')]
checks = {}
for l in out.splitlines():
    m = re.match(r'CHECK (\S+) exit=(\d+) violations=(\d+) ?(.*)', l)
    if m: checks[m.group(1)] = {"exit": int(m.group(2)), "violation_keys": int(m.group(3)), "first": m.group(4)}
meta = {"breaks_property": prop, "needs_to_manifest": needs, "origin": "independent sub-agent given only the property text and a scratch worktree",
        "confirmed": res, "ran": "bin/seedtest.sh (fresh worktree: apply, build, pinned suite, demo with / without the change; then git -C /repo apply, quick tier of the listed checks, git -C /repo checkout -- .)",
        "detected_by": sorted(k for k, v in checks.items() if v["exit"] == 1), "not_detected_by": sorted(k for k, v in checks.items() if v["exit"] == 0), "checks": checks}
json.dump(meta, open(os.path.join(dst, 'meta.json'), 'w'), indent=1)
print(sid, "detected_by", meta["detected_by"])
