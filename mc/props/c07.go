package props

import (
	"bytes"
	"encoding/json"
	"fmt"
	"io"
	"math"
	"strings"
	"time"
	"unicode/utf8"

	"github.com/uhn/ggql/pkg/ggql"

	"verif/mc/core"
	"verif/mc/world"
)

// C07 — every response is a well-formed GraphQL envelope and valid JSON (DESIGN 5.7).

func init() {
	Register(&Check{
		ID:  "C07",
		Run: runC07,
		Rule: "requests = {valid base documents x every single failing call; single-defect documents (C10 defects at every site); truncations of every document at every token boundary; token deletions; " +
			"unknown operation name; variable maps of wrong kinds} x 6 layouts (one line, LF lines, CRLF, comments, commas, tight) x resolver strings with quotes/control/invalid UTF-8 x indent {-1,0,2} x Sort {on,off}; " +
			"oracle: envelope grammar, error shape, location bounds and line-of-token, rejected => no data, encoding/json round trip. distinct = (request text, op, vars, fault); non-trivial = response carries errors",
		Technique:      "bounded-exhaustive enumeration of request texts/layouts/faults on the real resolver, invariant checking of every response",
		Assumptions:    []string{"encoding/json is the standard JSON parser", "a location is demanded to be on the line of the selection's first token only for errors whose path addresses a rendered selection"},
		QuickBudget:    90 * time.Second,
		ThoroughBudget: 20 * time.Minute,
	})
}

// nastyGraph: base graph 0 with strings a JSON writer has to escape.
func nastyGraph() *world.Graph {
	g := world.BaseGraph(0)
	nasty := []string{"q\"uo\\te", "ctl\x01\n\ttab", "bad\xffutf8", "é😀 ", "</script>\x7f", ""}
	for i, n := range g.Nodes {
		if n.Type == "Mutation" {
			continue
		}
		n.F["s"] = nasty[i%len(nasty)]
		n.F["name"] = nasty[(i+1)%len(nasty)]
		n.F["strs"] = []interface{}{nasty[(i+2)%len(nasty)], nasty[(i+3)%len(nasty)]}
		// numbers a JSON writer must not print as is if they leak: beyond float32, and the largest finite float64
		// and whole floats beyond the int64 range that a Float can hold (1e19, 6.02e23, 3.4e38): a writer must not narrow them
		n.F["f"] = []float64{1e19, -1e39, 1.7976931348623157e308, -6.02e23, 2.5e-45, 3.4e38, 0.5, 1e39}[i%8]
	}
	return g
}

// goJSONEquivalent reports whether the json.Decoder(UseNumber) value dec represents the Go response value v.
func goJSONEquivalent(v, dec interface{}) string {
	switch tv := v.(type) {
	case nil:
		if dec != nil {
			return fmt.Sprintf("want null got %v", dec)
		}
		return ""
	case map[string]interface{}:
		m, ok := dec.(map[string]interface{})
		if !ok {
			return fmt.Sprintf("want object got %T", dec)
		}
		if len(m) != len(tv) {
			return fmt.Sprintf("object size %d vs %d", len(tv), len(m))
		}
		for k, e := range tv {
			kk := k
			if !utf8.ValidString(kk) {
				kk = toValidEach(kk)
			}
			d, has := m[kk]
			if !has {
				return "missing key " + k
			}
			if s := goJSONEquivalent(e, d); s != "" {
				return k + ": " + s
			}
		}
		return ""
	case []interface{}:
		l, ok := dec.([]interface{})
		if !ok || len(l) != len(tv) {
			return fmt.Sprintf("want list of %d got %T", len(tv), dec)
		}
		for i := range tv {
			if s := goJSONEquivalent(tv[i], l[i]); s != "" {
				return fmt.Sprintf("[%d]: %s", i, s)
			}
		}
		return ""
	case string:
		s, ok := dec.(string)
		if !ok || s != toValidEach(tv) {
			return fmt.Sprintf("want string %q got %v", tv, dec)
		}
		return ""
	case bool:
		b, ok := dec.(bool)
		if !ok || b != tv {
			return fmt.Sprintf("want %v got %v", tv, dec)
		}
		return ""
	case ggql.Symbol:
		s, ok := dec.(string)
		if !ok || s != string(tv) {
			return fmt.Sprintf("want %q got %v", tv, dec)
		}
		return ""
	case time.Time:
		s, ok := dec.(string)
		if !ok || s != tv.Format(time.RFC3339Nano) {
			return fmt.Sprintf("want time got %v", dec)
		}
		return ""
	}
	n, ok := dec.(json.Number)
	if !ok {
		return fmt.Sprintf("want number for %T(%v) got %T(%v)", v, v, dec, dec)
	}
	f, err := n.Float64()
	if err != nil {
		return err.Error()
	}
	want, isNum := world.Canon(v).(float64)
	if !isNum {
		return fmt.Sprintf("unexpected Go value %T in response", v)
	}
	if f32, is32 := v.(float32); is32 {
		if float32(f) != f32 {
			return fmt.Sprintf("want %v got %v", f32, f)
		}
		return ""
	}
	if f != want && !(math.IsNaN(f) && math.IsNaN(want)) {
		return fmt.Sprintf("want %v got %v", want, f)
	}
	return ""
}

type c07Req struct {
	Kind        string
	Text        string
	Doc         *world.Doc // nil for malformed text
	Op          string
	Vars        map[string]interface{}
	Faults      map[world.CallKey]world.FaultKind
	MustReject  bool
	Layout      world.Layout
	DefectAlias bool
}

// findSels returns the selections addressed by an error path (keys only; list indexes and
// "fragment at" segments are skipped), looking through fragments.
func findSels(d *world.Doc, op *world.Op, path []interface{}) []*world.Sel {
	cur := op.Sels
	var found []*world.Sel
	for _, seg := range path {
		key, ok := seg.(string)
		if !ok || strings.HasPrefix(key, "fragment at ") {
			continue
		}
		found = nil
		var look func(sels []*world.Sel, depth int)
		look = func(sels []*world.Sel, depth int) {
			if depth > 8 {
				return
			}
			for _, s := range sels {
				switch s.Kind {
				case world.SField:
					if s.Key() == key {
						found = append(found, s)
					}
				case world.SInline:
					look(s.Sels, depth+1)
				case world.SSpread:
					if fr := d.Frag(s.Name); fr != nil {
						look(fr.Sels, depth+1)
					}
				}
			}
		}
		look(cur, 0)
		if len(found) == 0 {
			return nil
		}
		var next []*world.Sel
		for _, f := range found {
			next = append(next, f.Sels...)
		}
		cur = next
	}
	return found
}

func checkEnvelope(c *core.Ctx, rq *c07Req, res map[string]interface{}, cfgName string) {
	curMsg := ""
	attrs := func(what string) map[string]string {
		m := map[string]string{"what": what, "request": rq.Kind, "layout": fmt.Sprint(int(rq.Layout))}
		if strings.Contains(curMsg, "failed to determine union member") {
			m["msg"] = "union-member-binding"
		}
		return m
	}
	detail := func(msg string) map[string]interface{} {
		return map[string]interface{}{"config": cfgName, "kind": rq.Kind, "query": rq.Text, "op": rq.Op, "vars": rq.Vars, "faults": fmt.Sprint(rq.Faults), "response": fmt.Sprintf("%#v", res), "diff": msg}
	}
	bad := func(kind, what, msg string) {
		c.Outcome(kind + ":" + what)
		c.Violation(kind, attrs(what), detail(msg))
	}
	if res == nil {
		bad("envelope", "nil-response", "response is nil")
		return
	}
	for k := range res {
		if k != "data" && k != "errors" {
			bad("envelope", "extra-top-level-key", "top-level key "+k)
		}
	}
	_, hasData := res["data"]
	errsV, hasErrs := res["errors"]
	if !hasData && !hasErrs {
		bad("envelope", "neither-data-nor-errors", "neither data nor errors")
	}
	lines := strings.Split(rq.Text, "\n")
	if hasErrs {
		errs, ok := errsV.([]interface{})
		if !ok || len(errs) == 0 {
			bad("envelope", "errors-not-nonempty-list", fmt.Sprintf("errors is %T len 0", errsV))
		}
		c.Nontrivial()
		for _, e := range errs {
			em, ok := e.(map[string]interface{})
			if !ok {
				bad("error-shape", "not-a-map", fmt.Sprintf("%T", e))
				continue
			}
			for k := range em {
				switch k {
				case "message", "path", "locations", "extensions":
				default:
					bad("error-shape", "extra-key", k)
				}
			}
			curMsg, _ = em["message"].(string)
			if m, ok := em["message"].(string); !ok || m == "" {
				bad("error-shape", "message", fmt.Sprintf("message is %#v", em["message"]))
			}
			var path []interface{}
			if p, has := em["path"]; has {
				pl, ok := p.([]interface{})
				if !ok {
					bad("error-shape", "path-not-list", fmt.Sprintf("%T", p))
				}
				path = pl
				for _, seg := range pl {
					switch ts := seg.(type) {
					case string:
					case int:
						if ts < 0 {
							bad("error-shape", "negative-index", fmt.Sprint(ts))
						}
					default:
						bad("error-shape", "path-element-type", fmt.Sprintf("%T", seg))
					}
				}
			}
			if l, has := em["locations"]; has {
				ll, ok := l.([]interface{})
				if !ok || len(ll) == 0 {
					bad("location", "not-a-nonempty-list", fmt.Sprintf("%#v", l))
					continue
				}
				for _, le := range ll {
					lm, ok := le.(map[string]interface{})
					if !ok {
						bad("location", "entry-not-map", fmt.Sprintf("%T", le))
						continue
					}
					line, lok := lm["line"].(int)
					col, cok := lm["column"].(int)
					if !lok || !cok {
						bad("location", "not-int", fmt.Sprintf("%#v", lm))
						continue
					}
					switch {
					case line < 1:
						bad("location", "line<1", fmt.Sprintf("line %d column %d", line, col))
					case col < 1:
						bad("location", "column<1", fmt.Sprintf("line %d column %d", line, col))
					case line > len(lines):
						bad("location", "line-past-end", fmt.Sprintf("line %d of %d", line, len(lines)))
					case col > len(lines[line-1])+1:
						bad("location", "column-past-end", fmt.Sprintf("line %d column %d, line length %d", line, col, len(lines[line-1])))
					default:
						c.Count("locations_in_bounds")
					}
					// an error without a path in a request whose ONE defect is a directive use on the selection aliased dfx: the
					// offending token is one of that selection's tokens (it is the last of its set: it ends before the brace that
					// closes the set)
					if strings.HasPrefix(rq.Kind, "defect:") && strings.HasSuffix(rq.Kind, "-directive") && len(path) == 0 {
						if lo, hi := c07DefectLines(rq.Text); lo > 0 {
							if line < lo || line > hi {
								bad("location", "wrong-line", fmt.Sprintf("the defective selection spans lines %d-%d, the error is reported at line %d column %d", lo, hi, line, col))
							} else {
								c.Count("locations_on_token_line")
							}
						}
					}
					// line of the offending token for errors that address a rendered selection
					if rq.Doc != nil && len(path) > 0 {
						var op *world.Op
						for _, o := range rq.Doc.Ops {
							if o.Name == rq.Op || (rq.Op == "" && len(rq.Doc.Ops) == 1) {
								op = o
							}
						}
						if op != nil {
							p := path
							// an argument error's path ends with the argument name: address the field
							sels := findSels(rq.Doc, op, p)
							if sels == nil && len(p) > 1 {
								sels = findSels(rq.Doc, op, p[:len(p)-1])
							}
							if sels != nil {
								okLine := false
								for _, s := range sels {
									if s.Line == line {
										okLine = true
									}
								}
								// argument tokens may sit on the field's line only (arguments are rendered on one line)
								if !okLine {
									bad("location", "wrong-line", fmt.Sprintf("error path %v reported at line %d, selection starts at line %d", path, line, sels[0].Line))
								} else {
									c.Count("locations_on_token_line")
								}
							}
						}
					}
				}
			}
		}
	}
	if rq.MustReject {
		if d, has := res["data"]; has && d != nil {
			bad("rejected-has-data", rq.Kind, "a request rejected before execution carries data")
		} else {
			c.Count("rejected_without_data")
		}
	}
	// JSON writer: every indent mode, sorted and unsorted
	for _, indent := range []int{-1, 0, 2} {
		for _, srt := range []bool{true, false} {
			ggql.Sort = srt
			var buf bytes.Buffer
			var werr error
			if pi := core.Safe(func() { werr = ggql.WriteJSONValue(&buf, res, indent) }); pi != nil {
				c.Violation("panic", map[string]string{"site": pi.Site, "class": pi.Class}, detail(pi.Value))
				continue
			}
			if werr != nil {
				bad("invalid-json", "write-error", werr.Error())
				continue
			}
			dec := json.NewDecoder(bytes.NewReader(buf.Bytes()))
			dec.UseNumber()
			var dv interface{}
			if err := dec.Decode(&dv); err != nil {
				bad("invalid-json", "not-accepted", err.Error()+" in "+buf.String())
				continue
			}
			if s := goJSONEquivalent(res, dv); s != "" {
				bad("invalid-json", "decodes-differently", s)
				continue
			}
			c.Count("json_roundtrips")
		}
	}
	ggql.Sort = false
}

// tokenBoundaries returns the byte offsets at which text can be cut between tokens.
// tokenPerLine puts a line break after every token of a one-line request (strings stay whole; $name, @name and ...Name stay glued).
// c07EOFReader hands its data out in chunks (0 = everything at once) and returns io.EOF together with the last bytes.
type c07EOFReader struct {
	data  []byte
	chunk int
}

func (r *c07EOFReader) Read(p []byte) (int, error) {
	if len(r.data) == 0 {
		return 0, io.EOF
	}
	n := len(p)
	if r.chunk > 0 && r.chunk < n {
		n = r.chunk
	}
	if n > len(r.data) {
		n = len(r.data)
	}
	copy(p, r.data[:n])
	r.data = r.data[n:]
	if len(r.data) == 0 {
		return n, io.EOF
	}
	return n, nil
}

func tokenPerLine(text string) string {
	var b strings.Builder
	inStr := false
	for i := 0; i < len(text); i++ {
		ch := text[i]
		if ch == '"' {
			inStr = !inStr
		}
		if inStr {
			b.WriteByte(ch)
			continue
		}
		switch ch {
		case ' ':
			b.WriteByte('\n')
		case '{', '(', ',':
			b.WriteByte(ch)
			b.WriteByte('\n')
		case '}', ')', ':', '=':
			b.WriteByte('\n')
			b.WriteByte(ch)
			b.WriteByte('\n')
		default:
			b.WriteByte(ch)
		}
	}
	return b.String()
}

func tokenBoundaries(text string) []int {
	var out []int
	inStr := false
	for i := 0; i < len(text); i++ {
		ch := text[i]
		if ch == '"' {
			inStr = !inStr
		}
		if inStr {
			continue
		}
		if ch == ' ' || ch == '\n' || ch == '{' || ch == '}' || ch == '(' || ch == ')' || ch == ':' {
			out = append(out, i)
		}
	}
	return out
}

func runC07(c *core.Ctx) {
	defer func() { ggql.Sort = false }()
	s := world.Universe(world.UniverseOpts{})
	g0 := nastyGraph()
	gfs := g0.FSView(s)
	cfgs := []namedCfg{
		{"RS", world.Config{Strat: world.RS, Schema: s}},
		{"AS", world.Config{Strat: world.AS, Car: world.CarNative, Schema: s}},
		{"FS", world.Config{Strat: world.FS, Bind: world.BindRegister, Schema: s}},
	}
	run := func(rq *c07Req) {
		key := fmt.Sprintf("%s|%s|%s|%v|%v", rq.Kind, rq.Text, rq.Op, rq.Vars, rq.Faults)
		if !c.Owns(key) {
			return
		}
		for _, nc := range cfgs {
			if rq.Doc != nil {
				ft := rq.Doc.Features(s)
				if nc.Cfg.Strat != world.FS && (ft.UnionField || ft.AbstractCond || ft.ConcreteUnderInterface || ft.ConcreteUnderUnion) {
					continue
				}
			}
			g := g0
			if nc.Cfg.Strat == world.FS {
				g = gfs
			}
			c.Eval()
			root, r, err := world.BuildRoot(nc.Cfg, g)
			if err != nil {
				panic(core.EngineError{Msg: err.Error()})
			}
			r.Faults = rq.Faults
			var res map[string]interface{}
			if pi := core.Safe(func() { res = root.ResolveString(rq.Text, rq.Op, rq.Vars) }); pi != nil {
				c.Outcome("panic")
				c.Violation("panic", map[string]string{"site": pi.Site, "class": pi.Class, "request": rq.Kind}, map[string]interface{}{"query": rq.Text, "op": rq.Op, "vars": rq.Vars, "panic": pi.Value})
				continue
			}
			c.Outcome("checked")
			checkEnvelope(c, rq, res, nc.Name)
			// the same request on a root that has just answered the same document laid out differently (every token at another
			// line and column): whatever the root remembers between requests, this response speaks about this text
			warm := strings.ReplaceAll(rq.Text, "\n", " ")
			if warm == rq.Text {
				warm = tokenPerLine(rq.Text)
			}
			root2, r2, err := world.BuildRoot(nc.Cfg, g)
			if err != nil {
				panic(core.EngineError{Msg: err.Error()})
			}
			r2.Faults = rq.Faults
			c.Eval()
			var res2 map[string]interface{}
			if pi := core.Safe(func() {
				_ = root2.ResolveString(warm, rq.Op, rq.Vars)
				res2 = root2.ResolveString(rq.Text, rq.Op, rq.Vars)
			}); pi != nil {
				c.Outcome("panic")
				c.Violation("panic", map[string]string{"site": pi.Site, "class": pi.Class, "request": rq.Kind + "+warm-root"}, map[string]interface{}{"warm_up": warm, "query": rq.Text, "op": rq.Op, "vars": rq.Vars, "panic": pi.Value})
				continue
			}
			rqw := *rq
			rqw.Kind = rq.Kind + "+warm-root"
			checkEnvelope(c, &rqw, res2, nc.Name)
			// the same text through readers that behave differently at the end of the input: the last byte handed over together
			// with io.EOF (an HTTP body with a Content-Length), and one byte per Read - positions count bytes, not Read calls
			if strings.HasPrefix(rq.Kind, "truncated") || strings.HasPrefix(rq.Kind, "token-deleted") || rq.Kind == "valid" {
				for _, chunk := range []int{0, 1} {
					root3, r3, err := world.BuildRoot(nc.Cfg, g)
					if err != nil {
						panic(core.EngineError{Msg: err.Error()})
					}
					r3.Faults = rq.Faults
					c.Eval()
					var res3 map[string]interface{}
					if pi := core.Safe(func() { res3 = root3.ResolveReader(&c07EOFReader{data: []byte(rq.Text), chunk: chunk}, rq.Op, rq.Vars) }); pi != nil {
						c.Violation("panic", map[string]string{"site": pi.Site, "class": pi.Class, "request": rq.Kind + "+reader"}, map[string]interface{}{"query": rq.Text, "panic": pi.Value})
						continue
					}
					rqr := *rq
					rqr.Kind = rq.Kind + "+last-byte-with-EOF"
					checkEnvelope(c, &rqr, res3, nc.Name)
				}
			}
		}
		c.Sample(func() interface{} {
			return map[string]interface{}{"kind": rq.Kind, "layout": int(rq.Layout), "query": rq.Text, "op": rq.Op, "vars": rq.Vars}
		})
	}

	// every request rendered on one line is also submitted with a line break after every token (positions computed after a
	// one-byte lookahead land on the next line, with a column <= 0, when the token ends its line): only the generic location
	// demands apply to that text (positive, inside the document)
	run0 := run
	run = func(rq *c07Req) {
		run0(rq)
		if rq.Layout == world.LOneLine && !strings.HasPrefix(rq.Kind, "string-content") {
			r2 := *rq
			r2.Kind, r2.Text, r2.Doc = rq.Kind+"+token-per-line", tokenPerLine(rq.Text), nil
			r2.Layout = world.NLayouts
			run0(&r2)
		}
	}
	docs := world.BaseDocs()
	// numeric leaves at root, nested and list-element positions (the nasty graph holds floats beyond float32)
	docs = append(docs, world.Q(world.F("f"), world.F("a", world.F("f"), world.F("i")), world.F("kids", world.F("f")), world.F("ints"),
		world.F("b", world.F("f"), world.F("peer", world.F("f"))), world.F("c", world.F("f")), world.F("peers", world.F("f"))))
	// a field the reflection structs serve with nothing (an error of the reflection resolver's own, located at the selection)
	docs = append(docs, world.Q(world.F("ghost"), world.F("a", world.F("id"), world.F("ghost")), world.F("kids", world.F("ghost"))))
	nBases := len(docs)
	if c.Thorough() {
		docsWithin(c, s, world.BaseDocs(), 1, 0, func(d *world.Doc, dist int) bool {
			if dist > 0 {
				docs = append(docs, d)
			}
			return true
		})
	}
	defects := c10Defects()
	completed := true
	for di, d := range docs {
		if c.Expired() {
			completed = false
			break
		}
		isBase := di < nBases
		for layout := world.Layout(0); layout < world.NLayouts; layout++ {
			if !isBase && layout != world.LLines && layout != world.LTight {
				continue
			}
			dd := d.Clone()
			text := dd.Render(layout)
			for _, op := range world.OpNames(dd) {
				mustReject := op == "Nope" || (op == "" && len(dd.Ops) > 1)
				// valid request, fault free and with every single failing call
				run(&c07Req{Kind: "valid", Text: text, Doc: dd, Op: op, Layout: layout, MustReject: mustReject})
				if mustReject {
					continue
				}
				ex0 := world.RefExec(s, g0, dd, op, nil, nil, world.RefOpts{})
				for _, ck := range ex0.CallSet() {
					var id int
					dot := strings.IndexByte(ck, '.')
					fmt.Sscanf(ck[:dot], "%d", &id)
					for _, fk := range []world.FaultKind{world.FaultErr, world.FaultExt} {
						run(&c07Req{Kind: "fault", Text: text, Doc: dd, Op: op, Layout: layout, Faults: map[world.CallKey]world.FaultKind{{Node: id, Field: ck[dot+1:]}: fk}})
					}
				}
				// variable maps of the wrong kind
				for _, o := range dd.Ops {
					if o.Name == op && len(o.Vars) > 0 {
						for _, bad := range []map[string]interface{}{{"b": "notbool"}, {"s": 5.5}, {"t": []interface{}{true}}, {"b": map[string]interface{}{"x": 1}}, {"s": true, "b": 1.0}} {
							run(&c07Req{Kind: "bad-variables", Text: text, Doc: dd, Op: op, Vars: bad, Layout: layout, MustReject: true})
						}
						// every variable left out, given a value of its type, or given a value of the wrong kind - all assignments with
						// at least one wrong value (a good value declared after a bad one must not let the request through)
						if len(o.Vars) <= 4 && layout <= world.LLines {
							n := 1
							for range o.Vars {
								n *= 3
							}
							for m := 0; m < n; m++ {
								vm, anyBad := map[string]interface{}{}, false
								for vi, x := 0, m; vi < len(o.Vars); vi, x = vi+1, x/3 {
									vd := o.Vars[vi]
									isBool := strings.HasPrefix(vd.Type, "Boolean")
									switch x % 3 {
									case 1:
										vm[vd.Name] = map[bool]interface{}{true: true, false: "good"}[isBool]
									case 2:
										vm[vd.Name] = map[bool]interface{}{true: "notbool", false: []interface{}{5.5}}[isBool]
										anyBad = true
									}
								}
								if anyBad {
									run(&c07Req{Kind: "bad-variables", Text: text, Doc: dd, Op: op, Vars: vm, Layout: layout, MustReject: true})
								}
							}
						}
					}
				}
			}
			// a fragment definition without its type condition (two tokens gone)
			if layout == world.LOneLine {
				for _, fr := range dd.Frags {
					cond := " on " + fr.Cond
					if i := strings.Index(text, "fragment "+fr.Name+cond); i >= 0 {
						cut := text[:i+len("fragment "+fr.Name)] + text[i+len("fragment "+fr.Name)+len(cond):]
						run(&c07Req{Kind: "fragment-without-condition", Text: cut, Layout: layout, MustReject: true})
					}
				}
			}
			// single defects at every site
			nsites := 0
			dd.TypedWalk(s, func(set *[]*world.Sel, container string) { nsites++ })
			for site := 0; site < nsites; site++ {
				for _, df := range defects {
					nd := d.Clone()
					j := 0
					okSite := true
					nd.TypedWalk(s, func(set *[]*world.Sel, container string) {
						if j == site {
							td := s.Type(container)
							if td == nil || td.Kind == world.KUnion || (df.Needs == "echo" && td.Field("echo") == nil) || (df.Needs == "i" && td.Field("i") == nil) {
								okSite = false
							} else {
								*set = append(*set, df.Make(td))
							}
						}
						j++
					})
					if !okSite {
						continue
					}
					if df.Needs == "frag" {
						cond := df.Cond
						if cond == "" {
							cond = "Zq7"
						}
						nd.Frags = append(nd.Frags, &world.Frag{Name: "FZq", Cond: cond, Sels: []*world.Sel{world.F("__typename")}})
					}
					dtext := nd.Render(layout)
					reject := strings.HasPrefix(df.Name, "undefined-type-condition") || strings.HasSuffix(df.Name, "-directive")
					for _, op := range world.OpNames(nd) {
						if op == "Nope" || (op == "" && len(nd.Ops) > 1) {
							continue
						}
						run(&c07Req{Kind: "defect:" + df.Name, Text: dtext, Doc: nd, Op: op, Layout: layout, MustReject: reject})
					}
				}
			}
			// malformed: truncation at every token boundary (always a syntax error: the outermost brace is never closed)
			if isBase || layout == world.LLines {
				bnds := tokenBoundaries(text)
				firstBrace := strings.IndexByte(text, '{')
				lastBrace := strings.LastIndexByte(text, '}')
				for _, b := range bnds {
					if b > firstBrace && b < lastBrace && len(dd.Ops) == 1 && len(dd.Frags) == 0 {
						run(&c07Req{Kind: "truncated", Text: text[:b], Layout: layout, MustReject: true})
					}
				}
				// token deletion (may or may not stay valid: only the envelope invariants are checked)
				for i := 0; i+1 < len(bnds); i++ {
					run(&c07Req{Kind: "token-deleted", Text: text[:bnds[i]+1] + text[bnds[i+1]:], Layout: layout})
				}
			}
		}
	}
	// string content: every string of <= 2 runes over the rune classes a JSON writer may treat differently, carried into the
	// response as data (echoed back) and inside an error message (rejected as an enum value)
	for _, a := range c18Runes {
		strs := []string{string(a)}
		for _, b := range c18Runes {
			strs = append(strs, string([]rune{a, b}))
		}
		for _, str := range strs {
			if c.Expired() {
				completed = false
				break
			}
			run(&c07Req{Kind: "string-content:data", Text: "query Q($v: String!) { echo(s: $v, b: true) a { echo(s: $v) } }", Op: "Q", Vars: map[string]interface{}{"v": str}})
			run(&c07Req{Kind: "string-content:error", Text: "query Q($v: Color) { pick(e: $v) }", Op: "Q", Vars: map[string]interface{}{"v": str}})
		}
	}
	// subscription requests (they register and answer with an envelope too): working, failing, and partly failing ones - a root
	// field that resolves to a subscription beside one that does not exist, fails, or sits in a fragment
	for _, text := range []string{
		`subscription { ev(id: "x") { name } }`, `subscription { ev(id: "x") { name } nope }`, `subscription { a: ev { name } b: nope { x } }`,
		`subscription { nope ev { n } }`, `subscription { ev { name } ... on Subscription { zz } }`, `subscription { ev { zz } }`, `subscription { ...F ev(id: "y") { n } } fragment F on Subscription { nope }`,
		`subscription S($v: Int) { ev(id: $v) { name } other: ev { n } }`, `subscription { ev(id: 7) { name } fine: ev { n } }`,
	} {
		if !c.Owns("subscription|" + text) {
			continue
		}
		for _, reflectEvents := range []bool{false, true} {
			c.Eval()
			h := newC19H(reflectEvents)
			var res map[string]interface{}
			if pi := core.Safe(func() { res = h.root.ResolveString(text, "", map[string]interface{}{"v": 7}) }); pi != nil {
				c.Outcome("panic")
				c.Violation("panic", map[string]string{"site": pi.Site, "class": pi.Class, "request": "subscription"}, map[string]interface{}{"query": text, "panic": pi.Value})
				continue
			}
			c.Outcome("checked")
			checkEnvelope(c, &c07Req{Kind: "subscription", Text: text}, res, "RS")
		}
	}
	c.R.Bound = fmt.Sprintf("%d documents x 6 layouts (mutated documents: 2 layouts); strings <= 2 runes over %d runes as data and in error messages; single faults, single defects, all truncations and token deletions", len(docs), len(c18Runes))
	if !completed {
		c.Cap("deadline reached")
	}
}

// c07DefectLines: first and last line of the selection aliased dfx in text (0, 0 if it is not there exactly once).
func c07DefectLines(text string) (lo, hi int) {
	i := strings.Index(text, "dfx")
	if i < 0 || strings.Count(text, "dfx") != 1 {
		return 0, 0
	}
	depth, end := 0, -1
	for j := i; j < len(text) && end < 0; j++ {
		switch text[j] {
		case '{':
			depth++
		case '}':
			if depth == 0 {
				end = j
			}
			depth--
		}
	}
	if end < 0 {
		return 0, 0
	}
	last := strings.TrimRight(text[:end], " \t\r\n,")
	return 1 + strings.Count(text[:i], "\n"), 1 + strings.Count(last, "\n")
}
