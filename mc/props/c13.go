package props

import (
	"fmt"
	"strings"
	"time"

	"github.com/uhn/ggql/pkg/ggql"

	"verif/mc/core"
	"verif/mc/sgen"
)

// C13 — schema validation accepts well-formed schemas, rejects each rule violation (DESIGN 5.13, Appendix B).

func init() {
	Register(&Check{
		ID:  "C13",
		Run: runC13,
		Rule: "accepting side: 6 base schemas (all six kinds, nested wrappers, extends, directive definitions/uses at every location, defaults of every value form, custom root names) and every schema one (thorough: two) valid edits away, " +
			"loaded through SDL and through AddTypes; rejecting side: for each of them (quick: bases only) every mutation of the 14-rule catalogue at every applicable site and wrapper nesting; " +
			"oracle: independent rule checker (sgen.WellFormed) decides the expectation; accepted schemas are read back through the public API and re-checked and compared canonically; rejections must name the offender. " +
			"distinct = (schema text, route); non-trivial = mutants and variants (everything but the 6 bases)",
		Technique:      "bounded-exhaustive enumeration of schemas (valid edits and rule mutations at every site) on the real loader against an independent rule checker",
		Assumptions:    []string{"sgen.WellFormed implements the rules listed in the property", "mutants the reference does not itself judge ill-formed are discarded and counted"},
		QuickBudget:    90 * time.Second,
		ThoroughBudget: 20 * time.Minute,
	})
}

var namingRules = map[string]bool{"R1": true, "R2": true, "R3": true, "R4": true, "R5": true, "R6": true, "R7": true, "R8": true, "R9": true, "R10": true, "R11": true, "R12": true}

type schemaLoad struct {
	root *ggql.Root
	err  error
	pi   *core.PanicInfo
}

func loadSDL(sdl string) schemaLoad {
	var l schemaLoad
	l.root = ggql.NewRoot(c16Dummy{})
	core.Announce("Root.ParseString of:\n" + sdl)
	l.pi = core.Safe(func() { l.err = l.root.ParseString(sdl) })
	return l
}

func loadTypes(s *sgen.Schema) (schemaLoad, bool) {
	var l schemaLoad
	l.root = ggql.NewRoot(c16Dummy{})
	var types []ggql.Type
	var cerr error
	l.pi = core.Safe(func() { types, cerr = sgen.ToTypes(s) })
	if l.pi != nil {
		return l, true
	}
	if cerr != nil {
		l.err = cerr
		return l, true
	}
	l.pi = core.Safe(func() { l.err = l.root.AddTypes(types...) })
	return l, true
}

func runC13(c *core.Ctx) {
	bases := sgen.Bases()
	type subject struct {
		s    *sgen.Schema
		desc string
		base bool
	}
	var subjects []subject
	seen := map[uint64]bool{}
	push := func(s *sgen.Schema, desc string, base bool) bool {
		h := core.Hash(s.SDL())
		if seen[h] {
			return false
		}
		seen[h] = true
		subjects = append(subjects, subject{s, desc, base})
		return true
	}
	for i, b := range bases {
		push(b, fmt.Sprintf("base S%d", i), true)
	}
	for i, b := range bases {
		for _, v := range sgen.ValidVariants(b) {
			if push(v.Schema, fmt.Sprintf("S%d + %s", i, v.Desc), false) && c.Thorough() && i != 1 {
				for _, v2 := range sgen.ValidVariants(v.Schema) {
					push(v2.Schema, fmt.Sprintf("S%d + %s + %s", i, v.Desc, v2.Desc), false)
				}
			}
		}
	}
	// accepted-side probes that are not mutated
	probes := map[uint64]bool{}
	for _, p := range sgen.Probes() {
		if push(p.Schema, "probe: "+p.Desc, false) {
			probes[core.Hash(p.Schema.SDL())] = true
		}
	}
	completed := true
	detail := func(desc, route, sdl string, err error, msg string) map[string]interface{} {
		es := ""
		if err != nil {
			es = err.Error()
		}
		return map[string]interface{}{"schema": desc, "route": route, "sdl": sdl, "load_error": es, "diff": msg}
	}
	for si, sub := range subjects {
		if c.Expired() {
			completed = false
			break
		}
		sdl := sub.s.SDL()
		// ---------------- accepting side
		if c.Owns("accept|" + sdl) {
			if !sub.base {
				c.Nontrivial()
			}
			if wf := sub.s.WellFormed(); len(wf) > 0 {
				if sub.base {
					panic(core.EngineError{Msg: fmt.Sprintf("base schema %s judged ill-formed by the reference: %v", sub.desc, wf)})
				}
				c.Count("variants_discarded_by_reference")
			} else {
				c.Count("expect_accept")
				want := sub.s.Canonical(sgen.CanonOpts{})
				for _, route := range []string{"sdl", "addtypes"} {
					if route == "addtypes" && len(sub.s.Blocks) > 0 {
						continue
					}
					c.Eval()
					var l schemaLoad
					if route == "sdl" {
						l = loadSDL(sdl)
					} else {
						l, _ = loadTypes(sub.s)
					}
					attrs := map[string]string{"route": route}
					if l.pi != nil {
						c.Outcome("panic")
						c.Violation("panic", map[string]string{"site": l.pi.Site, "class": l.pi.Class, "route": route}, detail(sub.desc, route, sdl, nil, l.pi.Value))
						continue
					}
					if l.err != nil {
						c.Outcome("rejected-valid")
						attrs["why"] = errClass(l.err.Error())
						if strings.HasPrefix(sub.desc, "probe: ") {
							attrs["probe"] = strings.TrimPrefix(sub.desc, "probe: ")
						}
						c.Violation("rejected-valid", attrs, detail(sub.desc, route, sdl, l.err, "a well-formed schema was refused"))
						continue
					}
					back, err := sgen.FromRoot(l.root, sub.s.DirectiveNames())
					if err != nil {
						c.Violation("readback-error", attrs, detail(sub.desc, route, sdl, nil, err.Error()))
						continue
					}
					if wf := back.WellFormed(); len(wf) > 0 {
						c.Outcome("recheck-failed")
						attrs["rule"] = wf[0].Rule
						c.Violation("recheck-failed", attrs, detail(sub.desc, route, sdl, nil, fmt.Sprintf("accepted schema fails the independent re-check: %v", wf)))
						continue
					}
					if got := back.Canonical(sgen.CanonOpts{}); got != want {
						c.Outcome("canon-diff")
						c.Violation("canon-diff", attrs, detail(sub.desc, route, sdl, nil, firstLineDiff(want, got)))
						continue
					}
					c.Outcome("accepted+rechecked")
				}
			}
			c.Sample(func() interface{} { return map[string]interface{}{"accepting": sub.desc, "sdl": sdl} })
		}
		// ---------------- rejecting side
		if !sub.base && !c.Thorough() {
			continue
		}
		if probes[core.Hash(sdl)] {
			continue
		}
		if !sub.base && si%7 != 0 {
			continue // thorough: mutate the bases and every 7th variant
		}
		if len(sub.s.WellFormed()) > 0 {
			continue
		}
		for _, m := range sgen.Mutants(sub.s) {
			msdl := m.RawSDL
			if msdl == "" {
				msdl = m.Schema.SDL()
			}
			if !c.Owns("reject|" + m.Rule + "|" + m.Routes + "|" + msdl) {
				continue
			}
			c.Nontrivial()
			if m.Schema != nil {
				wf := m.Schema.WellFormed()
				hit := false
				for _, v := range wf {
					if v.Rule == m.Rule {
						hit = true
					}
				}
				if !hit {
					c.Count("mutants_discarded_by_reference")
					continue
				}
			}
			c.Count("expect_reject_" + m.Rule)
			for _, route := range []string{"sdl", "addtypes"} {
				if (route == "sdl" && m.Routes == "addtypes") || (route == "addtypes" && (m.Routes == "sdl" || m.Schema == nil || len(m.Schema.Blocks) > 0)) {
					continue
				}
				hasExt := false
				if m.Schema != nil {
					for _, d := range m.Schema.Defs {
						if d.Extend {
							hasExt = true
						}
					}
				}
				if route == "addtypes" && hasExt {
					continue
				}
				c.Eval()
				var l schemaLoad
				if route == "sdl" {
					l = loadSDL(msdl)
				} else {
					l, _ = loadTypes(m.Schema)
				}
				attrs := map[string]string{"rule": m.Rule, "site": m.Site, "route": route}
				if i := strings.LastIndexByte(m.Site, ':'); i >= 0 && m.Rule == "R10" {
					attrs["loc"] = m.Site[i+1:]
				}
				d := detail(sub.desc+" / "+m.Desc, route, msdl, l.err, "")
				d["rule"], d["offender"] = m.Rule, m.Offender
				if l.pi != nil {
					c.Outcome("panic")
					d["diff"] = l.pi.Value
					c.Violation("panic", map[string]string{"site": l.pi.Site, "class": l.pi.Class, "route": route, "rule": m.Rule}, d)
					continue
				}
				if l.err == nil {
					c.Outcome("accepted-invalid")
					d["diff"] = "a schema breaking " + m.Rule + " was accepted"
					c.Violation("accepted-invalid", attrs, d)
					continue
				}
				if namingRules[m.Rule] && m.Offender != "" && !mentionsAny(l.err.Error(), m.Offender) {
					c.Outcome("offender-not-named")
					d["diff"] = "the error does not mention " + m.Offender
					c.Violation("offender-not-named", attrs, d)
					continue
				}
				c.Outcome("rejected-naming-offender")
			}
			c.Sample(func() interface{} {
				return map[string]interface{}{"rejecting": sub.desc + " / " + m.Desc, "rule": m.Rule, "offender": m.Offender}
			})
		}
	}
	// ---------------- rules that only show across definitions, broken by a LATER load: the base is loaded (accepted), then one
	// extension unit that makes the whole ill-formed (an interface gains a field its implementers lack, an object claims an
	// interface it does not satisfy, a non-object joins a union, a duplicate enum value / field). The later load must be refused.
	for bi, b := range bases {
		if len(b.Blocks) > 0 {
			continue
		}
		for xi, bad := range c16Breakers(b) {
			wf := bad.WellFormed()
			if len(wf) == 0 {
				c.Count("breakers_discarded_by_reference")
				continue
			}
			if !c.Owns(fmt.Sprintf("later-load|%d|%d", bi, xi)) {
				continue
			}
			units := bad.Units()
			ext := units[len(units)-1].Text()
			c.Eval()
			c.R.Distinct++
			c.Nontrivial()
			root := ggql.NewRoot(c16Dummy{})
			var err1, err2 error
			pi := core.Safe(func() {
				if err1 = root.ParseString(b.SDL()); err1 == nil {
					err2 = root.ParseString(ext)
				}
			})
			d := map[string]interface{}{"schema": fmt.Sprintf("base S%d", bi), "route": "sdl, two loads", "sdl": b.SDL(), "later_load": ext, "rule": wf[0].Rule}
			switch {
			case pi != nil:
				d["diff"] = pi.Value
				c.Violation("panic", map[string]string{"site": pi.Site, "class": pi.Class, "route": "later-load", "rule": wf[0].Rule}, d)
			case err1 != nil:
				panic(core.EngineError{Msg: "base refused: " + err1.Error()})
			case err2 == nil:
				c.Outcome("accepted-invalid")
				d["diff"] = "the later load makes the schema break " + wf[0].Rule + " but was accepted"
				c.Violation("accepted-invalid", map[string]string{"rule": wf[0].Rule, "site": "later-load:" + string(bad.Defs[len(bad.Defs)-1].Kind), "route": "later-load"}, d)
			default:
				c.Outcome("rejected-later-load")
			}
		}
	}
	// ---------------- directive definition graphs (rule "no definition cycles"): every digraph of directive uses on
	// directive arguments over 3 directives with one argument (thorough: 4), and over 2 directives with two arguments.
	// Accepted iff acyclic; refused naming a directive that lies on a cycle.
	type dg struct {
		n   int
		two bool
	}
	dgs := []dg{{3, false}, {2, true}}
	if c.Thorough() {
		dgs = append(dgs, dg{4, false})
	}
	for _, g := range dgs {
		bits := uint(g.n * g.n)
		if g.two {
			bits *= 2
		}
		for m := uint64(0); m < 1<<bits; m++ {
			if !c.OwnsIdx(int64(m)) {
				continue
			}
			if m&1023 == 0 && c.Expired() {
				completed = false
				break
			}
			sdl := dirGraphSDL(g.n, m, g.two)
			onCycle, cyclic := dirGraphCycle(g.n, m, g.two)
			c.Eval()
			c.R.Distinct++
			c.Nontrivial()
			l := loadSDL(sdl)
			desc := fmt.Sprintf("directive graph n=%d two-arguments=%v mask=%#x", g.n, g.two, m)
			if l.pi != nil {
				c.Outcome("panic")
				c.Violation("panic", map[string]string{"site": l.pi.Site, "class": l.pi.Class, "route": "sdl", "rule": "R14"}, detail(desc, "sdl", sdl, nil, l.pi.Value))
				continue
			}
			switch {
			case !cyclic && l.err != nil:
				c.Outcome("rejected-valid")
				c.Violation("rejected-valid", map[string]string{"route": "sdl", "why": "directive-graph-acyclic"}, detail(desc, "sdl", sdl, l.err, "a schema whose directive definitions form no cycle was refused"))
			case cyclic && l.err == nil:
				c.Outcome("accepted-invalid")
				c.Violation("accepted-invalid", map[string]string{"rule": "R14", "site": "directive-graph", "route": "sdl"}, detail(desc, "sdl", sdl, nil, "directive definitions form a cycle but the schema was accepted"))
			case cyclic:
				named := false
				for i, on := range onCycle {
					if on && strings.Contains(l.err.Error(), fmt.Sprintf("dq%d", i)) {
						named = true
					}
				}
				if !named {
					c.Outcome("offender-not-named")
					c.Violation("offender-not-named", map[string]string{"rule": "R14", "site": "directive-graph", "route": "sdl"}, detail(desc, "sdl", sdl, l.err, "the error names no directive that lies on a cycle"))
				} else {
					c.Outcome("rejected-naming-offender")
				}
			default:
				c.Outcome("accepted+rechecked")
			}
		}
	}
	c13AfterRefused(c)
	c.R.Bound = fmt.Sprintf("%d accepted-side schemas (bases + valid edits); all directive-use digraphs over 3 directives (thorough 4) and 2 directives x 2 arguments; full rule catalogue at every site of the bases (thorough: + every 7th variant)", len(subjects))
	if !completed {
		c.Cap("deadline reached")
	}
}

func errClass(s string) string {
	switch {
	case strings.Contains(s, "not a sub-type"):
		return "interface-covariance"
	case strings.Contains(s, "can not be applied"):
		return "directive-location"
	case strings.Contains(s, "parse error"):
		return "parse-error"
	case strings.Contains(s, "not defined"):
		return "not-defined"
	case strings.Contains(s, "duplicate"):
		return "duplicate"
	}
	return "other"
}

func firstLineDiff(a, b string) string {
	la, lb := strings.Split(a, "\n"), strings.Split(b, "\n")
	for i := 0; i < len(la) || i < len(lb); i++ {
		var x, y string
		if i < len(la) {
			x = la[i]
		}
		if i < len(lb) {
			y = lb[i]
		}
		if x != y {
			return "want: " + x + "\n got: " + y
		}
	}
	return ""
}

// mentionsAny: the error text mentions one of the |-separated acceptable offender names.
func mentionsAny(text, offenders string) bool {
	for _, o := range strings.Split(offenders, "|") {
		if o != "" && strings.Contains(text, o) {
			return true
		}
	}
	return false
}

// ---- the verdict on a document does not depend on a load that was REFUSED before it: a refused load that extended an object,
// an enum and an input type (two new members each) and failed for another reason, then documents whose well-formedness hangs on
// exactly those member names - accepted / refused as on a root that never saw the refused load, and with the same result.
func c13AfterRefused(c *core.Ctx) {
	const base = "interface Legged { legs: Int }\ntype Dog { name: String }\nenum Level { LOW HIGH }\ninput Opt { a: Int }\n" +
		"directive @tag(level: Level = LOW, opt: Opt) on OBJECT\ntype Query { dog: Dog }\n"
	const ext = "extend type Dog { legs: Int tail: Int }\nextend enum Level { EXTREME MID }\nextend input Opt { b: Int c: Int }\n"
	refused := []string{ext + "extend type Nowhere { x: Int }\n", ext + "type __Bad { x: Int }\n", ext + "extend type Dog { name: String }\n", "type Extra { e: Int }\n" + ext + "extend enum Level { LOW }\n"}
	thirds := []string{
		"extend type Dog implements Legged\n", "type Cat @tag(level: EXTREME) { n: Int }\n", "extend enum Level { EXTREME }\n", "extend type Dog { legs: Int }\n",
		"type Cat @tag(opt: {b: 1}) { n: Int }\n", "extend input Opt { b: Int }\n", "extend type Dog { tail: Int }\n", "type Cat @tag(level: MID) { n: Int }\n",
		"type Cat @tag(opt: {c: 1}) { n: Int }\n", "extend type Dog { legs: Int }\nextend type Dog implements Legged\n", "type Extra { e: Int }\n",
	}
	for ri, rf := range refused {
		for ti, third := range thirds {
			if !c.OwnsIdx(1<<44 + int64(ri*100+ti)) {
				continue
			}
			c.Eval()
			c.R.Distinct++
			c.Nontrivial()
			var errRefused, errAfter, errFresh error
			var sdlAfter, sdlFresh string
			pi := core.Safe(func() {
				r1 := ggql.NewRoot(c16Dummy{})
				if err := r1.ParseString(base); err != nil {
					panic(core.EngineError{Msg: "C13 after-refused base refused: " + err.Error()})
				}
				errRefused = r1.ParseString(rf)
				errAfter = r1.ParseString(third)
				sdlAfter = r1.SDL(false, true)
				r2 := ggql.NewRoot(c16Dummy{})
				_ = r2.ParseString(base)
				errFresh = r2.ParseString(third)
				sdlFresh = r2.SDL(false, true)
			})
			d := map[string]interface{}{"first_load": base, "refused_load": rf, "third_load": third, "verdict_after_the_refused_load": fmt.Sprint(errAfter), "verdict_without_it": fmt.Sprint(errFresh)}
			attrs := map[string]string{"part": "after-a-refused-load", "route": "sdl"}
			switch {
			case pi != nil:
				d["panic"] = pi.Value
				c.Violation("panic", map[string]string{"site": pi.Site, "class": pi.Class, "route": "sdl"}, d)
			case errRefused == nil:
				panic(core.EngineError{Msg: "C13 after-refused: the refused load was accepted:\n" + rf})
			case (errAfter == nil) != (errFresh == nil):
				kind := "rejected-valid"
				if errAfter == nil {
					kind = "accepted-invalid"
				}
				d["diff"] = "the verdict on the third load depends on the refused load before it"
				c.Outcome("after-refused-verdict-differs")
				c.Violation(kind, attrs, d)
			case sdlAfter != sdlFresh:
				d["diff"] = firstLineDiff(sdlFresh, sdlAfter)
				c.Outcome("after-refused-schema-differs")
				c.Violation("canon-diff", attrs, d)
			default:
				c.Outcome("after-refused-agree")
			}
		}
	}
}
