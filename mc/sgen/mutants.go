package sgen

import (
	"fmt"
	"strings"

	"verif/mc/world"
)

// Mutant is a schema obtained from a well-formed one by breaking exactly one rule at one site.
type Mutant struct {
	Schema   *Schema
	RawSDL   string // used instead of Schema.SDL() when the mutation is only expressible as text
	Rule     string
	Offender string // the name the error must mention
	Site     string // kind of site (for findings and coverage counters)
	Desc     string
	Routes   string // "sdl", "addtypes", "both"
}

type typeSite struct {
	get   func(s *Schema) **T
	kind  string // field | argument | input-field | directive-argument
	owner string
	input bool
}

func typeSites(s *Schema) []typeSite {
	var out []typeSite
	for di, d := range s.Defs {
		di := di
		switch d.Kind {
		case KObject, KInterface:
			for fi, f := range d.Fields {
				fi := fi
				out = append(out, typeSite{func(x *Schema) **T { return &x.Defs[di].Fields[fi].Type }, "field", d.Name + "." + f.Name, false})
				for ai, a := range f.Args {
					ai := ai
					out = append(out, typeSite{func(x *Schema) **T { return &x.Defs[di].Fields[fi].Args[ai].Type }, "argument", d.Name + "." + f.Name + "." + a.Name, true})
				}
			}
		case KInput:
			for fi, f := range d.Fields {
				fi := fi
				out = append(out, typeSite{func(x *Schema) **T { return &x.Defs[di].Fields[fi].Type }, "input-field", d.Name + "." + f.Name, true})
			}
		case KDirective:
			for ai, a := range d.Args {
				ai := ai
				out = append(out, typeSite{func(x *Schema) **T { return &x.Defs[di].Args[ai].Type }, "directive-argument", "@" + d.Name + "." + a.Name, true})
			}
		}
	}
	return out
}

func wrapVariants(name string) []*T {
	return []*T{N(name), NN(N(name)), L(N(name)), L(L(NN(N(name))))}
}

func wrapLabel(t *T) string {
	s := t.String()
	return strings.NewReplacer(t.Base(), "T").Replace(s)
}

// dirSite: a place a directive use can be attached.
type dirSite struct {
	get func(s *Schema) *[]DirUse
	loc string
	at  string
}

func dirSites(s *Schema) []dirSite {
	var out []dirSite
	for bi := range s.Blocks {
		bi := bi
		out = append(out, dirSite{func(x *Schema) *[]DirUse { return &x.Blocks[bi].Dirs }, "SCHEMA", "schema"})
	}
	for di, d := range s.Defs {
		di := di
		loc := map[Kind]string{KObject: "OBJECT", KInterface: "INTERFACE", KUnion: "UNION", KEnum: "ENUM", KInput: "INPUT_OBJECT", KScalar: "SCALAR"}[d.Kind]
		if loc != "" {
			out = append(out, dirSite{func(x *Schema) *[]DirUse { return &x.Defs[di].Dirs }, loc, d.Name})
		}
		for fi, f := range d.Fields {
			fi := fi
			floc := "FIELD_DEFINITION"
			if d.Kind == KInput {
				floc = "INPUT_FIELD_DEFINITION"
			}
			out = append(out, dirSite{func(x *Schema) *[]DirUse { return &x.Defs[di].Fields[fi].Dirs }, floc, d.Name + "." + f.Name})
			for ai, a := range f.Args {
				ai := ai
				out = append(out, dirSite{func(x *Schema) *[]DirUse { return &x.Defs[di].Fields[fi].Args[ai].Dirs }, "ARGUMENT_DEFINITION", d.Name + "." + f.Name + "." + a.Name})
			}
		}
		for vi, v := range d.Values {
			vi := vi
			out = append(out, dirSite{func(x *Schema) *[]DirUse { return &x.Defs[di].Values[vi].Dirs }, "ENUM_VALUE", d.Name + "." + v.Name})
		}
	}
	return out
}

// Mutants enumerates the rule catalogue (DESIGN Appendix B) over every applicable site of base.
func Mutants(base *Schema) []Mutant {
	var out []Mutant
	add := func(m *Schema, rule, off, site, desc, routes string) {
		out = append(out, Mutant{Schema: m, Rule: rule, Offender: off, Site: site, Desc: desc, Routes: routes})
	}
	hasBlocks := len(base.Blocks) > 0
	both := "both"
	if hasBlocks {
		both = "sdl"
	}

	// ---- R1 undefined type references + R6 wrong kind of type + R13 double non-null, at every type site
	var anyInput, anyObject string
	for _, d := range base.Defs {
		if d.Kind == KInput && anyInput == "" {
			anyInput = d.Name
		}
		if d.Kind == KObject && anyObject == "" {
			anyObject = d.Name
		}
	}
	for _, ts := range typeSites(base) {
		for _, w := range wrapVariants("Zq7") {
			m := base.Clone()
			*ts.get(m) = w
			add(m, "R1", "Zq7", ts.kind+":"+wrapLabel(w), "undefined type at "+ts.owner, both)
		}
		if !ts.input && anyInput != "" {
			for _, w := range wrapVariants(anyInput) {
				m := base.Clone()
				*ts.get(m) = w
				add(m, "R6", lastSeg(ts.owner), "field-returns-input:"+wrapLabel(w), "input type in field position "+ts.owner, both)
			}
		}
		if ts.input && anyObject != "" {
			for _, w := range wrapVariants(anyObject) {
				m := base.Clone()
				*ts.get(m) = w
				add(m, "R6", lastSeg(ts.owner), ts.kind+"-of-output-type:"+wrapLabel(w), "output type in input position "+ts.owner, both)
			}
		}
		m := base.Clone()
		*ts.get(m) = NN(NN(N("Int")))
		if !ts.input {
			*ts.get(m) = NN(NN(N("Int")))
		}
		add(m, "R13", lastSeg(ts.owner), ts.kind, "non-null of non-null at "+ts.owner, both)
	}
	// union members and implements entries
	for di, d := range base.Defs {
		if d.Kind == KUnion {
			m := base.Clone()
			m.Defs[di].Members = append(m.Defs[di].Members, "Zq7")
			add(m, "R1", "Zq7", "union-member", "undefined union member in "+d.Name, both)
			for _, od := range base.Defs {
				if od.Kind != KObject && od.Kind != KDirective && od.Name != d.Name {
					m := base.Clone()
					m.Defs[di].Members = append(m.Defs[di].Members, od.Name)
					add(m, "R8", od.Name+"|"+d.Name, "union-member-kind:"+string(od.Kind), "non-object union member", both)
				}
			}
			m = base.Clone()
			m.Defs[di].Members = append(m.Defs[di].Members, "Int")
			add(m, "R8", d.Name+"|Int", "union-member-kind:builtin-scalar", "scalar union member", both)
			m = base.Clone()
			m.Defs[di].Members = nil
			add(m, "R8", d.Name, "union-empty", "union without members", "addtypes")
			m = base.Clone()
			m.Defs[di].Members = append(m.Defs[di].Members, m.Defs[di].Members[0])
			add(m, "R3", m.Defs[di].Members[0], "union-member", "duplicate union member", both)
		}
		if d.Kind == KObject {
			m := base.Clone()
			m.Defs[di].Implements = append(m.Defs[di].Implements, "Zq7")
			add(m, "R1", "Zq7", "implements", "undefined interface on "+d.Name, both)
			if len(d.Implements) > 0 {
				m := base.Clone()
				m.Defs[di].Implements = append(m.Defs[di].Implements, d.Implements[0])
				add(m, "R3", d.Implements[0], "implements", "duplicate interface", both)
			}
			for _, od := range base.Defs {
				if od.Kind == KObject && od.Name != d.Name || od.Kind == KUnion {
					m := base.Clone()
					m.Defs[di].Implements = append(m.Defs[di].Implements, od.Name)
					add(m, "R7", od.Name, "implements-non-interface", "implements a non-interface", both)
					break
				}
			}
		}
	}

	// ---- R2 undefined directive at every directive site
	for _, ds := range dirSites(base) {
		m := base.Clone()
		*ds.get(m) = append(*ds.get(m), du("zq7"))
		add(m, "R2", "zq7", ds.loc, "undefined directive on "+ds.at, both)
	}

	// ---- R3 duplicates / R4 malformed / R5 reserved names for every named thing
	badNames := []struct{ name, rule, routes string }{
		{"__zq", "R5", "both"}, {"__Type", "R5", "both"}, {"__Schema", "R5", "both"}, {"__TypeKind", "R5", "both"}, {"1zq", "R4", "both"}, {"z q", "R4", "addtypes"}, {"z-q", "R4", "addtypes"}, {"zé", "R4", "addtypes"}, {"z名", "R4", "addtypes"}, {"名", "R4", "addtypes"}, {"z\U0001F600", "R4", "addtypes"}, {"", "R4", "addtypes"},
	}
	rt := func(r string) string {
		if hasBlocks {
			if r == "addtypes" {
				return ""
			}
			return "sdl"
		}
		return r
	}
	for di, d := range base.Defs {
		// duplicate the definition
		if d.Kind != KDirective {
			m := base.Clone()
			m.Defs = append(m.Defs, m.Defs[di].Clone())
			add(m, "R3", d.Name, "type:"+string(d.Kind), "duplicate type "+d.Name, both)
		} else {
			m := base.Clone()
			m.Defs = append(m.Defs, m.Defs[di].Clone())
			add(m, "R3", d.Name, "directive", "duplicate directive "+d.Name, both)
		}
		// a definition of another kind under the name of a scalar: a built-in one, or a custom scalar of this schema (written
		// before and after the scalar's own definition)
		if d.Kind != KDirective && d.Kind != KScalar {
			scalars := []string{"String", "Int", "Float", "Boolean", "ID", "Time", "Int64", "Float64"}
			for _, sd := range base.Defs {
				if sd.Kind == KScalar && !sd.Extend {
					scalars = append(scalars, sd.Name)
				}
			}
			for _, sn := range scalars {
				for _, front := range []bool{false, true} {
					if front && builtinScalars[sn] {
						continue
					}
					m := base.Clone()
					nd := m.Defs[di].Clone()
					nd.Name = sn
					nd.Extend = false
					if front {
						m.Defs = append([]*Def{nd}, m.Defs...)
					} else {
						m.Defs = append(m.Defs, nd)
					}
					add(m, "R3", sn, "type:"+string(d.Kind)+":named-like-a-scalar", fmt.Sprintf("%s named like the scalar %s (before it: %v)", d.Kind, sn, front), both)
				}
			}
		}
		for _, bn := range badNames {
			if rt(bn.routes) == "" {
				continue
			}
			// rename a leaf definition nobody references? Renaming breaks references (R1 as well); instead ADD a new badly named definition of the same kind
			m := base.Clone()
			nd := m.Defs[di].Clone()
			nd.Name = bn.name
			nd.Implements = nil
			m.Defs = append(m.Defs, nd)
			kind := "type"
			if d.Kind == KDirective {
				kind = "directive"
			}
			add(m, bn.rule, bn.name, kind+":"+string(d.Kind), "badly named "+kind, rt(bn.routes))
		}
		for fi, f := range d.Fields {
			m := base.Clone()
			m.Defs[di].Fields = append(m.Defs[di].Fields, cloneField(f))
			site := "field"
			if d.Kind == KInput {
				site = "input-field"
			}
			add(m, "R3", f.Name, site, "duplicate "+site+" "+d.Name+"."+f.Name, both)
			// duplicate through an extend block (SDL only)
			m = base.Clone()
			m.Defs = append(m.Defs, &Def{Kind: d.Kind, Name: d.Name, Extend: true, Fields: []*Field{cloneField(f)}})
			add(m, "R3", f.Name, site+"-via-extend", "duplicate through extend", "sdl")
			for _, bn := range badNames {
				if rt(bn.routes) == "" {
					continue
				}
				m := base.Clone()
				nf := cloneField(f)
				nf.Name = bn.name
				m.Defs[di].Fields = append(m.Defs[di].Fields, nf)
				add(m, bn.rule, bn.name, site, "badly named "+site, rt(bn.routes))
				if bn.routes == "both" {
					m := base.Clone()
					nf := cloneField(f)
					nf.Name = bn.name
					m.Defs = append(m.Defs, &Def{Kind: d.Kind, Name: d.Name, Extend: true, Fields: []*Field{nf}})
					add(m, bn.rule, bn.name, site+"-via-extend", "badly named through extend", "sdl")
				}
			}
			for ai, a := range f.Args {
				m := base.Clone()
				na := *m.Defs[di].Fields[fi].Args[ai]
				m.Defs[di].Fields[fi].Args = append(m.Defs[di].Fields[fi].Args, &na)
				add(m, "R3", a.Name, "argument", "duplicate argument", both)
				for _, bn := range badNames {
					if rt(bn.routes) == "" {
						continue
					}
					m := base.Clone()
					na := *m.Defs[di].Fields[fi].Args[ai]
					na.Name = bn.name
					m.Defs[di].Fields[fi].Args = append(m.Defs[di].Fields[fi].Args, &na)
					add(m, bn.rule, bn.name, "argument", "badly named argument", rt(bn.routes))
				}
			}
			if fi > 0 {
				continue // names: one field per definition is enough for the per-definition mutations below
			}
		}
		for vi, v := range d.Values {
			m := base.Clone()
			nv := *m.Defs[di].Values[vi]
			m.Defs[di].Values = append(m.Defs[di].Values, &nv)
			add(m, "R3", v.Name, "enum-value", "duplicate enum value", both)
			if vi == 0 {
				for _, bn := range badNames {
					if rt(bn.routes) == "" {
						continue
					}
					m := base.Clone()
					m.Defs[di].Values = append(m.Defs[di].Values, &EnumVal{Name: bn.name})
					add(m, bn.rule, bn.name, "enum-value", "badly named enum value", rt(bn.routes))
				}
				for _, kw := range []string{"true", "false", "null"} {
					m := base.Clone()
					m.Defs[di].Values = append(m.Defs[di].Values, &EnumVal{Name: kw})
					add(m, "R12", kw, "enum-value", "enum value "+kw, both)
				}
			}
		}
		if d.Kind == KDirective {
			for ai, a := range d.Args {
				m := base.Clone()
				na := *m.Defs[di].Args[ai]
				m.Defs[di].Args = append(m.Defs[di].Args, &na)
				add(m, "R3", a.Name, "directive-argument", "duplicate directive argument", both)
				if ai == 0 {
					for _, bn := range badNames {
						if rt(bn.routes) == "" {
							continue
						}
						m := base.Clone()
						na := *m.Defs[di].Args[ai]
						na.Name = bn.name
						m.Defs[di].Args = append(m.Defs[di].Args, &na)
						add(m, bn.rule, bn.name, "directive-argument", "badly named directive argument", rt(bn.routes))
					}
				}
			}
		}
		// ---- R9 empty definitions
		switch d.Kind {
		case KObject, KInterface, KInput:
			m := base.Clone()
			m.Defs = append(m.Defs, &Def{Kind: d.Kind, Name: "Zq7"})
			add(m, "R9", "Zq7", "empty:"+string(d.Kind), "empty "+string(d.Kind), both)
		case KEnum:
			m := base.Clone()
			m.Defs = append(m.Defs, &Def{Kind: KEnum, Name: "Zq7"})
			add(m, "R9", "Zq7", "empty:ENUM", "empty enum", both)
		}
	}

	// ---- R7 interface conformance
	for di, d := range base.Defs {
		if d.Kind != KObject {
			continue
		}
		for _, in := range d.Implements {
			id := base.Def(in)
			if id == nil {
				continue
			}
			for _, fi := range id.Fields {
				fo := d.Field(fi.Name)
				if fo == nil {
					continue
				}
				foIdx := -1
				for i, f := range d.Fields {
					if f.Name == fi.Name {
						foIdx = i
					}
				}
				// drop the field
				if len(d.Fields) > 1 {
					m := base.Clone()
					m.Defs[di].Fields = append(m.Defs[di].Fields[:foIdx:foIdx], m.Defs[di].Fields[foIdx+1:]...)
					add(m, "R7", fi.Name, "missing-interface-field", d.Name+" drops "+fi.Name, both)
				}
				// incompatible types
				var bad []*T
				if fi.Type.K == world.TNonNull {
					bad = append(bad, cloneT(fi.Type.Of)) // nullable for non-null
				}
				if fi.Type.K == world.TList {
					bad = append(bad, cloneT(fi.Type.Of)) // non-list for list
				} else {
					bad = append(bad, L(cloneT(fi.Type))) // list for non-list
				}
				bad = append(bad, N("Boolean")) // unrelated
				if bn := fi.Type.Base(); base.kindOf(bn) == KInterface || base.kindOf(bn) == KUnion {
					for _, od := range base.Defs {
						if od.Kind == KObject && !base.isSubType(N(bn), N(od.Name)) {
							bad = append(bad, retarget(fi.Type, od.Name)) // object that is not an implementer / member
							break
						}
					}
				}
				for _, bt := range bad {
					if base.isSubType(fi.Type, bt) {
						continue
					}
					m := base.Clone()
					m.Defs[di].Fields[foIdx].Type = bt
					add(m, "R7", fi.Name, "incompatible-field-type", fmt.Sprintf("%s.%s: %s vs interface %s", d.Name, fi.Name, bt, fi.Type), both)
				}
				for aidx, ai := range fi.Args {
					_ = aidx
					for oi, ao := range fo.Args {
						if ao.Name != ai.Name {
							continue
						}
						m := base.Clone()
						m.Defs[di].Fields[foIdx].Args = append(m.Defs[di].Fields[foIdx].Args[:oi:oi], m.Defs[di].Fields[foIdx].Args[oi+1:]...)
						add(m, "R7", ai.Name, "missing-interface-argument", "drops argument "+ai.Name, both)
						for _, vt := range argTypeVariants(ai.Type) {
							m = base.Clone()
							m.Defs[di].Fields[foIdx].Args[oi].Type = vt
							add(m, "R7", ai.Name, "interface-argument-type:"+wrapLabel(vt), fmt.Sprintf("argument %s: %s where the interface has %s", ai.Name, vt, ai.Type), both)
						}
					}
				}
				m := base.Clone()
				m.Defs[di].Fields[foIdx].Args = append(m.Defs[di].Fields[foIdx].Args, &Arg{Name: "zq7", Type: NN(N("Int"))})
				add(m, "R7", "zq7", "extra-required-argument", "extra required argument", both)
				// a SECOND interface that declares a field of the same name with a demand the object does not meet (another
				// type, one more argument), listed after and before the interface the object does satisfy; through the object's
				// own implements list and through "extend type T implements Zq7I"
				var other *T
				if fo.Type.K == world.TList {
					other = cloneT(fo.Type.Of)
				} else {
					other = L(cloneT(fo.Type))
				}
				for vi, f2 := range []*Field{
					{Name: fi.Name, Type: other, Args: fo.Args},
					{Name: fi.Name, Type: cloneT(fi.Type), Args: append(append([]*Arg{}, fo.Args...), &Arg{Name: "zq7", Type: N("Int")})},
				} {
					for _, how := range []string{"after", "before", "extend"} {
						m := base.Clone()
						m.Defs = append(m.Defs, &Def{Kind: KInterface, Name: "Zq7I", Fields: []*Field{f2}})
						routes := both
						switch how {
						case "after":
							m.Defs[di].Implements = append(m.Defs[di].Implements, "Zq7I")
						case "before":
							m.Defs[di].Implements = append([]string{"Zq7I"}, m.Defs[di].Implements...)
						default:
							m.Defs = append(m.Defs, &Def{Kind: KObject, Name: d.Name, Extend: true, Implements: []string{"Zq7I"}})
							routes = "sdl"
						}
						add(m, "R7", fi.Name, fmt.Sprintf("second-interface-same-field:%d:%s", vi, how), fmt.Sprintf("%s also implements Zq7I { %s } (%s)", d.Name, fi.Name, how), routes)
					}
				}
			}
		}
	}

	// ---- R10 directive uses: undeclared location / undeclared argument / uncoercible literal
	for _, dd := range base.Defs {
		if dd.Kind != KDirective {
			continue
		}
		for _, ds := range dirSites(base) {
			declared := false
			for _, l := range dd.Locations {
				if l == ds.loc || (ds.loc == "ARGUMENT_DEFINITION" && l == "INPUT_FIELD_DEFINITION") || (ds.loc == "INPUT_FIELD_DEFINITION" && l == "ARGUMENT_DEFINITION") {
					declared = true
				}
			}
			if !declared {
				m := base.Clone()
				*ds.get(m) = append(*ds.get(m), du(dd.Name))
				add(m, "R10", dd.Name, "undeclared-location:"+ds.loc, "@"+dd.Name+" on "+ds.at, both)
				continue
			}
			m := base.Clone()
			*ds.get(m) = append(*ds.get(m), du(dd.Name, "zq7", 1))
			add(m, "R10", dd.Name, "undeclared-argument:"+ds.loc, "@"+dd.Name+"(zq7:1) on "+ds.at, both)
			for _, a := range dd.Args {
				var badV Val = map[string]interface{}{"zz": 1}
				if base.kindOf(a.Type.Base()) == KScalar && !builtinScalars[a.Type.Base()] {
					continue
				}
				m := base.Clone()
				*ds.get(m) = append(*ds.get(m), du(dd.Name, a.Name, badV))
				add(m, "R10", dd.Name, "uncoercible-argument:"+ds.loc, "@"+dd.Name+"("+a.Name+": {zz:1}) on "+ds.at, both)
				if a.Type.K == world.TNonNull {
					// an explicit null for a non-null argument (a default, if any, does not apply to an explicit null)
					m := base.Clone()
					*ds.get(m) = append(*ds.get(m), du(dd.Name, a.Name, nil))
					add(m, "R10", dd.Name, "null-for-non-null-argument:"+ds.loc, "@"+dd.Name+"("+a.Name+": null) on "+ds.at, both)
					if a.Type.Of.K == world.TList && a.Type.Of.Of.K == world.TNonNull {
						m := base.Clone()
						*ds.get(m) = append(*ds.get(m), du(dd.Name, a.Name, []interface{}{"ok", nil}))
						add(m, "R10", dd.Name, "null-element-for-non-null-argument:"+ds.loc, "@"+dd.Name+"("+a.Name+": [\"ok\", null]) on "+ds.at, both)
					}
				}
			}
		}
	}
	// built-in @deprecated at wrong locations
	for _, ds := range dirSites(base) {
		if ds.loc != "FIELD_DEFINITION" && ds.loc != "ENUM_VALUE" {
			m := base.Clone()
			*ds.get(m) = append(*ds.get(m), du("deprecated"))
			add(m, "R10", "deprecated", "undeclared-location:"+ds.loc, "@deprecated on "+ds.at, both)
		}
	}

	// ---- R11 directive definition cycles of length 1, 2, 3
	argLocs := []string{"ARGUMENT_DEFINITION", "INPUT_FIELD_DEFINITION"}
	for n := 1; n <= 3; n++ {
		m := base.Clone()
		for i := 0; i < n; i++ {
			next := fmt.Sprintf("cyc%d", (i+1)%n)
			m.Defs = append(m.Defs, dir(fmt.Sprintf("cyc%d", i), argLocs, arg("x", N("Int")).With(du(next))))
		}
		add(m, "R11", "cyc", fmt.Sprintf("cycle-%d", n), fmt.Sprintf("directive cycle of length %d", n), both)
	}

	// ---- R14 schema block with an unknown field, R13 in SDL text (T!!)
	sdl := base.SDL()
	q, _, _ := base.RootTypes()
	if q != "" && !hasBlocks {
		out = append(out, Mutant{RawSDL: "schema { query: " + q + " zq7: " + q + " }\n" + sdl, Rule: "R14", Offender: "zq7", Site: "schema-block-field", Desc: "unknown schema field", Routes: "sdl"})
	}
	return out
}

func lastSeg(s string) string {
	if i := strings.LastIndexByte(s, '.'); i >= 0 {
		return s[i+1:]
	}
	return s
}

func cloneField(f *Field) *Field {
	nf := *f
	nf.Type = cloneT(f.Type)
	nf.Args = cloneArgs(f.Args)
	nf.Default = cloneVal(f.Default)
	nf.Dirs = cloneDirs(f.Dirs)
	return &nf
}

func retarget(t *T, name string) *T {
	c := cloneT(t)
	x := c
	for x.K != world.TNamed {
		x = x.Of
	}
	x.Name = name
	return c
}

// argTypeVariants returns types that differ from t in exactly one way: wrapped in a list, or non-null added /
// removed at one depth (an interface argument must be implemented with exactly the same type).
func argTypeVariants(t *T) []*T {
	out := []*T{L(cloneT(t))}
	var rec func(cur *T, rebuild func(*T) *T)
	rec = func(cur *T, rebuild func(*T) *T) {
		switch cur.K {
		case world.TNonNull:
			out = append(out, rebuild(cloneT(cur.Of))) // non-null removed here
			rec(cur.Of, func(x *T) *T { return rebuild(NN(x)) })
		case world.TList:
			out = append(out, rebuild(NN(cloneT(cur)))) // non-null added here
			rec(cur.Of, func(x *T) *T { return rebuild(L(x)) })
		default:
			out = append(out, rebuild(NN(cloneT(cur))))
		}
	}
	rec(t, func(x *T) *T { return x })
	return out
}
