package world

import (
	"sort"

	"github.com/uhn/ggql/pkg/ggql"

	"verif/mc/core"
)

// Obs is the canonical observation of one request against the real implementation.
type Obs struct {
	Panic    *core.PanicInfo          `json:"panic,omitempty"`
	HasData  bool                     `json:"has_data"`
	Data     interface{}              `json:"data"`
	ErrPaths []string                 `json:"err_paths"`
	Errors   []map[string]interface{} `json:"errors,omitempty"`
	Calls    []string                 `json:"calls"`
	Raw      map[string]interface{}   `json:"-"`
}

// Observe resolves text on root and canonicalises the response.
func Observe(root *ggql.Root, run *Run, text, op string, vars map[string]interface{}) *Obs {
	o := &Obs{}
	var res map[string]interface{}
	core.Announce("ResolveString op=" + op + " of:\n" + text)
	o.Panic = core.Safe(func() { res = root.ResolveString(text, op, vars) })
	if o.Panic != nil {
		return o
	}
	o.fill(res, run)
	return o
}

// FillFrom canonicalises an already obtained response.
func (o *Obs) FillFrom(res map[string]interface{}, run *Run) { o.fill(res, run) }

func (o *Obs) fill(res map[string]interface{}, run *Run) {
	o.Raw = res
	if d, ok := res["data"]; ok {
		o.HasData = d != nil
		o.Data = Canon(d)
	}
	if es, ok := res["errors"].([]interface{}); ok {
		for _, e := range es {
			em, _ := e.(map[string]interface{})
			o.Errors = append(o.Errors, em)
			p, _ := em["path"].([]interface{})
			o.ErrPaths = append(o.ErrPaths, PathString(p))
		}
	}
	sort.Strings(o.ErrPaths)
	if run != nil {
		o.Calls = run.CallSet()
	}
}

// SameStrings compares two sorted string slices.
func SameStrings(a, b []string) bool {
	if len(a) != len(b) {
		return false
	}
	for i := range a {
		if a[i] != b[i] {
			return false
		}
	}
	return true
}

// CallSetOf returns the sorted distinct call keys of an expectation.
func (e *Expect) CallSet() []string {
	out := make([]string, 0, len(e.Calls))
	for k := range e.Calls {
		out = append(out, k)
	}
	sort.Strings(out)
	return out
}
