package props

import (
	"errors"
	"fmt"
	"io"
	"strings"
	"time"

	"github.com/uhn/ggql/pkg/ggql"

	"verif/mc/core"
	"verif/mc/sgen"
	"verif/mc/world"
)

// C03 — no schema text, request, value or variable map can crash or hang the library (DESIGN 5.3).
// Every case is numbered and announced (shared mapping) before it runs: a Go fatal error (stack overflow)
// or a hang kills the worker, the driver records the announced case as the observation and restarts the
// worker just past it, so one defect cannot hide the rest of the space.

func init() {
	Register(&Check{
		ID:  "C03",
		Run: runC03,
		Rule: "(i) ALL token strings of length <= L over a 30-token executable alphabet, resolved under reflection, Resolver and root-resolver roots, and over a 34-token SDL alphabet loaded into fresh roots; " +
			"(ii) every single-token deletion / replacement by every alphabet token / insertion at every position of a corpus of valid requests and schemas (thorough: all pairs of edits on short ones); " +
			"(iii) every byte string of length <= 2 (thorough 3) over 23 special bytes as prefix / infix / suffix of corpus documents; (iv) every reader fault {(0,nil) then data, error, byte with EOF, EOF} at every Read offset of every corpus document; " +
			"(v) every assignment of {absent, null, bool, number, string, list, object} to the declared variables of the corpus requests; (vi) ParseValueString on all value-token strings <= L, then both writers on what parsed; " +
			"(vii) Root.SDL, every Type.SDL/String and Executable.String on whatever loaded. Oracle: the call returns (no panic, no fatal error, no hang). distinct = cases; non-trivial = cases the entry point did not reject outright (some output or data)",
		Technique:      "bounded-exhaustive enumeration of inputs, edits, bytes and reader faults on the real entry points, each case numbered and announced so that fatal errors and hangs are observations; watchdog on case-counter progress",
		Assumptions:    []string{"a hang is a case whose counter does not advance for 60 s (cases take microseconds)", "roots are non-nil objects"},
		QuickBudget:    110 * time.Second,
		ThoroughBudget: 40 * time.Minute,
		Resumable:      true,
	})
}

var c03ExeTokens = []string{"{", "}", "(", ")", "[", "]", ":", "!", "=", "@", "$", "...", ",", "#c\n", "\"", "\n",
	"a", "kid", "on", "query", "mutation", "subscription", "fragment", "__typename", "__type", "__schema",
	"1", "-1.5", "\"s\"", "\"\"\"b\"\"\"", "true", "null", "RED", "$v", "@skip(if:true)", "@include(if:$v)", "echo", "F", "A", "ghost"}

var c03SDLTokens = []string{"type", "interface", "union", "enum", "input", "scalar", "directive", "extend", "schema", "implements", "&", "|", "=", "@", "on",
	"{", "}", "(", ")", "[", "]", ":", "!", ",", "\"d\"", "\"\"\"d\"\"\"", "Query", "A", "x", "Int", "OBJECT", "query", "1", "\"s\"", "#c\n", "@deprecated"}

var c03ValTokens = []string{"{", "}", "[", "]", ":", ",", "\"", "\"s\"", "\"\"\"", "1", "-", "1.5e3", "1e", "true", "null", "E", "$v", "$", "a", "\\", "\n", "#"}

type c03Roots struct {
	roots []*ggql.Root
	runs  []*world.Run
	names []string
}

func c03BuildRoots() *c03Roots {
	s := world.Universe(world.UniverseOpts{})
	g := world.BaseGraph(0)
	r := &c03Roots{}
	for _, cf := range []namedCfg{
		{"FS", world.Config{Strat: world.FS, Bind: world.BindByName, Schema: s}},
		{"RS", world.Config{Strat: world.RS, Schema: s}},
		{"AS", world.Config{Strat: world.AS, Schema: s}},
	} {
		gg := g
		if cf.Cfg.Strat == world.FS {
			gg = g.FSView(s)
		}
		root, run, err := world.BuildRoot(cf.Cfg, gg)
		if err != nil {
			panic(core.EngineError{Msg: err.Error()})
		}
		run.NoLog = true
		r.roots, r.runs, r.names = append(r.roots, root), append(r.runs, run), append(r.names, cf.Name)
	}
	return r
}

type c03State struct {
	c     *core.Ctx
	roots *c03Roots
}

func (st *c03State) panicked(family, entry string, pi *core.PanicInfo, input string) {
	st.c.Outcome("panic")
	if len(input) > 2000 {
		input = input[:2000] + "..."
	}
	st.c.Violation("panic", map[string]string{"site": pi.Site, "class": pi.Class, "entry": entry}, map[string]interface{}{"family": family, "entry": entry, "input": input, "panic": pi.Value})
	// a panic may have left a mutex locked: never reuse the roots
	st.roots = c03BuildRoots()
}

// resolveAll resolves text under the three strategies.
func (st *c03State) resolveAll(family, text, op string, vars map[string]interface{}) {
	c := st.c
	for i := range st.roots.roots {
		if !c.NextCase(family + " ResolveString [" + st.roots.names[i] + "] op=" + op + ":\n" + text) {
			continue
		}
		c.Eval()
		c.R.Distinct++
		var res map[string]interface{}
		root := st.roots.roots[i]
		if pi := core.Safe(func() {
			if i == 2 {
				res = root.ResolveBytes([]byte(text), op, vars) // the byte-slice door for one of the roots
			} else {
				res = root.ResolveString(text, op, vars)
			}
			_ = ggql.WriteJSONValue(io.Discard, res, -1) // printing the response is part of answering a request
		}); pi != nil {
			st.panicked(family, "ResolveString/"+st.roots.names[i], pi, text)
			continue
		}
		if res["data"] != nil {
			c.Nontrivial()
			c.Outcome("resolved-with-data")
		} else {
			c.Outcome("rejected-or-null")
		}
	}
	// parse only + printing of what parsed
	if c.NextCase(family + " ParseExecutableString + String():\n" + text) {
		c.Eval()
		c.R.Distinct++
		root := st.roots.roots[1]
		if pi := core.Safe(func() {
			exe, err := root.ParseExecutableString(text)
			if err == nil && exe != nil {
				_ = exe.String()
			}
			// the byte-slice door, every node printed on its own, a context handed down (plain and nesting)
			if exe, err = root.ParseExecutable([]byte(text)); err == nil && exe != nil {
				var walk func(sels []ggql.Selection, depth int)
				walk = func(sels []ggql.Selection, depth int) {
					for _, sel := range sels {
						_ = sel.String()
						_ = sel.Line() + sel.Column()
						_ = len(sel.Directives())
						if _, isRef := sel.(*ggql.FragRef); !isRef && depth < 64 { // a spread hands out its fragment's selections: cyclic documents parse
							walk(sel.SelectionSet(), depth+1)
						}
					}
				}
				for _, op := range exe.Ops {
					_ = op.String()
					walk(op.SelectionSet(), 0)
				}
				for _, f := range exe.Fragments {
					_ = f.String()
					walk(f.SelectionSet(), 0)
				}
				exe.SetContextRecursive("ctx")
				exe.SetContextRecursive(c03Nester{})
			}
		}); pi != nil {
			st.panicked(family, "ParseExecutableString+String", pi, text)
		}
	}
}

// loadSDLCase loads text into a fresh root and prints whatever loaded.
func (st *c03State) loadSDLCase(family, text string) {
	c := st.c
	if !c.NextCase(family + " Root.ParseString + SDL():\n" + text) {
		return
	}
	c.Eval()
	c.R.Distinct++
	var err error
	if pi := core.Safe(func() {
		root := ggql.NewRoot(c16Dummy{})
		err = root.ParseString(text)
		_ = root.SDL(false, true)
		_ = root.SDL(true)
		for _, t := range root.Types() {
			_ = t.SDL(true)
			_ = t.String()
		}
		if err == nil {
			_ = root.ResolveString("{__typename}", "", nil)
			_ = root.ResolveString(introQuery, "", nil)
		}
	}); pi != nil {
		st.panicked(family, "Root.ParseString", pi, text)
		return
	}
	if err == nil {
		c.Nontrivial()
		c.Outcome("schema-accepted")
	} else {
		c.Outcome("schema-refused")
	}
}

func (st *c03State) valueCase(family, text string) {
	c := st.c
	if !c.NextCase(family + " ParseValueString + writers:\n" + text) {
		return
	}
	c.Eval()
	c.R.Distinct++
	if pi := core.Safe(func() {
		v, err := ggql.ParseValueString(text)
		if len(text) < 64 {
			_, _ = ggql.ParseValue(strings.NewReader(text)) // the reader door
		}
		if err == nil {
			// the indented print of a value nested d deep is d*d*indent bytes: beyond 10 000 levels (gigabytes) only the
			// linear forms are printed - a slow print of an enormous text is not a hang
			inds := []int{-1, 0, 2}
			if strings.Count(text, "[")+strings.Count(text, "{") > 10000 {
				inds = inds[:2]
			}
			for _, ind := range inds {
				_ = ggql.WriteSDLValue(io.Discard, v, ind)
				_ = ggql.WriteJSONValue(io.Discard, v, ind)
			}
			c.Nontrivial()
		}
	}); pi != nil {
		st.panicked(family, "ParseValueString", pi, text)
	}
}

// writeCase prints values built in Go (not parsed) around the string: alone, in a list, as a map value and as a map key.
func (st *c03State) writeCase(family, str string) {
	c := st.c
	if !c.NextCase(family + fmt.Sprintf(" WriteJSONValue/WriteSDLValue of values built around %q", str)) {
		return
	}
	c.Eval()
	c.R.Distinct++
	c.Nontrivial()
	if pi := core.Safe(func() {
		for _, v := range []interface{}{str, []interface{}{str, 1}, map[string]interface{}{"k": str}, map[string]interface{}{str: 1}, ggql.Symbol(str), ggql.Var(str)} {
			for _, ind := range []int{-1, 0, 2} {
				_ = ggql.WriteSDLValue(io.Discard, v, ind)
				_ = ggql.WriteJSONValue(io.Discard, v, ind)
			}
		}
	}); pi != nil {
		st.panicked(family, "WriteJSONValue/WriteSDLValue", pi, fmt.Sprintf("%q", str))
	}
}

// tokenStrings enumerates all sequences of 1..maxLen tokens (joined by a space), sharded by the first two tokens.
func tokenStrings(c *core.Ctx, tokens []string, maxLen int, f func(s string)) {
	var rec func(prefix []string)
	rec = func(prefix []string) {
		if len(prefix) > 0 {
			f(strings.Join(prefix, " "))
		}
		if len(prefix) == maxLen || c.Expired() {
			return
		}
		for _, t := range tokens {
			rec(append(prefix, t))
		}
	}
	for i, t1 := range tokens {
		for j, t2 := range tokens {
			if (i*len(tokens)+j)%c.NShards != c.Shard {
				continue
			}
			if j == 0 && i%c.NShards == c.Shard {
				f(t1)
			}
			if maxLen >= 2 {
				rec([]string{t1, t2})
			}
		}
	}
}

func splitTokens(text string) []string {
	var out []string
	cur := ""
	flush := func() {
		if cur != "" {
			out = append(out, cur)
			cur = ""
		}
	}
	inStr := false
	for _, ch := range text {
		if inStr {
			cur += string(ch)
			if ch == '"' {
				inStr = false
				flush()
			}
			continue
		}
		switch {
		case ch == '"':
			flush()
			cur = "\""
			inStr = true
		case ch == ' ' || ch == '\n' || ch == '\t' || ch == ',':
			flush()
		case strings.ContainsRune("{}()[]:!=@$|&", ch):
			flush()
			out = append(out, string(ch))
		default:
			cur += string(ch)
		}
	}
	flush()
	return out
}

// c03Reader answers each Read call according to a plan: the default is one byte.
type c03Reader struct {
	data  []byte
	pos   int
	call  int
	at    int // the call index at which the deviation happens
	kind  int // 1 (0,nil) once then data; 2 (0,err); 3 (1,EOF); 4 (0,EOF)
	fired bool
}

var errC03 = errors.New("injected reader failure")

func (r *c03Reader) Read(p []byte) (int, error) {
	r.call++
	if len(p) == 0 {
		return 0, nil
	}
	if r.call-1 == r.at && !r.fired {
		r.fired = true
		switch r.kind {
		case 1:
			return 0, nil
		case 2:
			return 0, errC03
		case 3:
			if r.pos < len(r.data) {
				p[0] = r.data[r.pos]
				r.pos++
				return 1, io.EOF
			}
			return 0, io.EOF
		case 4:
			return 0, io.EOF
		}
	}
	if r.pos >= len(r.data) {
		return 0, io.EOF
	}
	p[0] = r.data[r.pos]
	r.pos++
	return 1, nil
}

func runC03(c *core.Ctx) {
	st := &c03State{c: c, roots: c03BuildRoots()}
	exeL, sdlL, valL := 4, 4, 5
	if c.Thorough() {
		exeL, sdlL, valL = 5, 5, 6
	}
	// ---- (i) token strings
	tokenStrings(c, c03ExeTokens, exeL, func(s string) { st.resolveAll("exe-tokens", s, "", map[string]interface{}{"v": true}) })
	doneExe := !c.Expired()
	tokenStrings(c, c03SDLTokens, sdlL, func(s string) { st.loadSDLCase("sdl-tokens", s) })
	tokenStrings(c, c03ValTokens, valL, func(s string) { st.valueCase("value-tokens", s) })
	if c.Expired() {
		c.Cap(fmt.Sprintf("deadline during token strings (executable alphabet complete: %v)", doneExe))
	}
	// ---- (i-b) fragment graphs: every assignment of bodies (<= 2, thorough 3, items out of {i, ...F0, ...F1, ...F2, ... on Query{...F1}})
	// to three fragments, spread from the operation: all small spread graphs, cyclic and acyclic, with the cycle-closing spread
	// before and after harmless ones
	{
		items := []string{"i", "...F0", "...F1", "...F2", "... on Query{...F1}"}
		maxBody := 2
		if c.Thorough() {
			maxBody = 3
		}
		var bodies []string
		var brec func(p []string)
		brec = func(p []string) {
			if len(p) > 0 {
				bodies = append(bodies, strings.Join(p, " "))
			}
			if len(p) == maxBody {
				return
			}
			for _, it := range items {
				brec(append(append([]string{}, p...), it))
			}
		}
		brec(nil)
		var gi int64
		for _, b0 := range bodies {
			for _, b1 := range bodies {
				if c.Expired() {
					break
				}
				for _, b2 := range bodies {
					gi++
					if int(gi%int64(c.NShards)) != c.Shard {
						continue
					}
					st.resolveAll("fragment-graph", "{ s ...F0 } fragment F0 on Query { "+b0+" } fragment F1 on Query { "+b1+" } fragment F2 on Query { "+b2+" }", "", nil)
				}
			}
		}
	}
	// ---- corpus
	var exeCorpus []string
	for _, d := range world.BaseDocs() {
		exeCorpus = append(exeCorpus, d.Render(world.LOneLine))
	}
	for _, cd := range c11Docs() {
		exeCorpus = append(exeCorpus, cd.Doc.Render(world.LLines))
	}
	exeCorpus = append(exeCorpus,
		"{ ...F } fragment F on Query { ...F }", "{ ...F } fragment F on Query { a { ...G } } fragment G on A { kid { ...F } }",
		"query($a: ){a}", "{a{kid{kid{kid{kid{kid{kid{kid{kid{kid{kid{kid{kid{kid{kid{kid{kid{id}}}}}}}}}}}}}}}}}}",
		"{ as { ghost id } ghost a { ghost } }", "{echo} {tri(a:null)}", "{ pick(i: $nope, in: {min: [1]}, ids: 1, ss: {a: 1}) }", "subscription { i }", "{__type{name}}", "{__type(name: 1){name}}", "{__schema{types{fields{args{type{ofType{ofType{ofType{ofType{name}}}}}}}}}}")
	var sdlCorpus []string
	for _, b := range sgen.Bases() {
		sdlCorpus = append(sdlCorpus, b.SDL())
	}
	sdlCorpus = append(sdlCorpus, "type Query { i: Int } type M { m: Int } extend schema { mutation: M }", "extend schema @x", "schema { query: Nope }", "type Query implements Query { q: Query }",
		"directive @a(x: Int @a) on OBJECT type Query { i: Int }", "union U = U type Query { u: U }", "input I { i: I! = {i: {i: null}} } type Query { f(i: I): Int }", "enum E { A } extend enum E { A }")
	var idx int64
	own := func() bool { idx++; return int(idx%int64(c.NShards)) == c.Shard }
	// ---- (ii) single token edits
	for _, doc := range exeCorpus {
		toks := splitTokens(doc)
		if len(toks) > 60 && !c.Thorough() {
			continue
		}
		if own() {
			st.resolveAll("corpus", doc, "", nil)
		}
		for p := 0; p <= len(toks); p++ {
			if c.Expired() {
				break
			}
			if p < len(toks) && own() {
				st.resolveAll("edit-delete", strings.Join(append(append([]string{}, toks[:p]...), toks[p+1:]...), " "), "", map[string]interface{}{"v": true})
			}
			for _, t := range c03ExeTokens {
				if p < len(toks) && own() {
					e := append([]string{}, toks...)
					e[p] = t
					st.resolveAll("edit-replace", strings.Join(e, " "), "", map[string]interface{}{"v": true})
				}
				if own() {
					e := append(append(append([]string{}, toks[:p]...), t), toks[p:]...)
					st.resolveAll("edit-insert", strings.Join(e, " "), "", map[string]interface{}{"v": true})
				}
			}
		}
	}
	for _, doc := range sdlCorpus {
		toks := splitTokens(doc)
		if own() {
			st.loadSDLCase("corpus", doc)
		}
		stride := 1
		if len(toks) > 120 && !c.Thorough() {
			stride = 4
		}
		for p := 0; p <= len(toks); p += stride {
			if c.Expired() {
				break
			}
			if p < len(toks) && own() {
				st.loadSDLCase("edit-delete", strings.Join(append(append([]string{}, toks[:p]...), toks[p+1:]...), " "))
			}
			for _, t := range c03SDLTokens {
				if p < len(toks) && own() {
					e := append([]string{}, toks...)
					e[p] = t
					st.loadSDLCase("edit-replace", strings.Join(e, " "))
				}
				if own() {
					e := append(append(append([]string{}, toks[:p]...), t), toks[p:]...)
					st.loadSDLCase("edit-insert", strings.Join(e, " "))
				}
			}
		}
	}
	// ---- (iii) bytes
	special := []byte{0x00, 0x01, '\t', '\n', '\r', ' ', '"', '\\', '#', '{', '}', 'a', '1', '-', '.', '$', '@', 0x7f, 0x80, 0xBB, 0xBF, 0xEF, 0xFF}
	maxB := 2
	if c.Thorough() {
		maxB = 3
	}
	var bstrs []string
	var brec func(p []byte)
	brec = func(p []byte) {
		if len(p) > 0 {
			bstrs = append(bstrs, string(p))
		}
		if len(p) == maxB {
			return
		}
		for _, b := range special {
			brec(append(append([]byte{}, p...), b))
		}
	}
	brec(nil)
	for _, bs := range bstrs {
		if c.Expired() {
			break
		}
		if !own() {
			continue
		}
		ed, sd := "{ a { id } i }", "type Query { i: Int }"
		for _, t := range []string{bs, bs + ed, ed + bs, "{ a " + bs + " { id } }", "{ echo(s: \"" + bs + "\") }"} {
			st.resolveAll("bytes", t, "", nil)
		}
		for _, t := range []string{bs, bs + sd, sd + bs, "type Query " + bs + "{ i: Int }", "\"" + bs + "\" type Query { i: Int }"} {
			st.loadSDLCase("bytes", t)
		}
		st.valueCase("bytes", bs)
		st.valueCase("bytes", "[\""+bs+"\"]")
	}
	// ---- (iii-b) rune strings: every string of <= 2 runes over one representative of each class a printer or scanner may
	// treat differently (controls, DEL, C1, zero width, line separator, replacement, non-characters, private use, assigned /
	// unassigned / tag / private-use astral planes, the last code point), in every text position and through the value writers
	runes := []rune{'a', '"', '\\', 0x00, 0x1f, 0x7f, 0x80, 0xA0, 0x200B, 0x2028, 0xD7FF, 0xE000, 0xFFFD, 0xFFFE, 0xFFFF, 0x10000, 0x1F600, 0x40000, 0xE0001, 0xF0000, 0x10FFFF}
	var rstrs []string
	for _, a := range runes {
		rstrs = append(rstrs, string(a))
		for _, b := range runes {
			rstrs = append(rstrs, string([]rune{a, b}))
		}
	}
	for _, rs := range rstrs {
		if c.Expired() {
			break
		}
		if !own() {
			continue
		}
		st.writeCase("runes", rs)
		lit := strings.NewReplacer("\\", "\\\\", "\"", "\\\"", "\x00", "\\u0000", "\x1f", "\\u001f").Replace(rs)
		st.resolveAll("runes", "{ echo(s: \""+lit+"\") }", "", nil)
		st.resolveAll("runes", "query($v: String){ echo(s: $v) }", "", map[string]interface{}{"v": rs})
		st.loadSDLCase("runes", "\""+lit+"\" type Query { i(a: String = \""+lit+"\"): Int }")
		st.valueCase("runes", "{k: \""+lit+"\", \""+lit+"\": 1}")
	}
	// ---- (iii-c) directive definition graphs: every digraph of directive uses on directive arguments over 3 directives (one
	// argument each) and over 2 directives with two arguments each - loops, lassos (a tail into a loop), diamonds
	for n, two := range map[int]bool{3: false, 2: true} {
		bits := uint(n * n)
		if two {
			bits *= 2
		}
		for m := uint64(0); m < 1<<bits; m++ {
			if !own() {
				continue
			}
			st.loadSDLCase("directive-graph", dirGraphSDL(n, m, two))
		}
	}
	// ---- (iii-d) length ladders: one token (or one nesting) grown across the sizes at which fixed scratch buffers, 8/16-bit
	// counters and chunked readers change behaviour, for every token class, in every position that reads it
	{
		lengths := []int{15, 16, 17, 31, 32, 33, 63, 64, 65, 127, 128, 129, 255, 256, 257, 1023, 1024, 1025, 4095, 4096, 4097, 65535, 65536, 65537}
		type ladder struct {
			name string
			make func(n int) string // a value literal of about n bytes
		}
		rep := strings.Repeat
		ladders := []ladder{
			{"integer-digits", func(n int) string { return "1" + rep("0", n-1) }},
			{"negative-integer", func(n int) string { return "-" + rep("9", n-1) }},
			{"fraction-digits", func(n int) string { return "0." + rep("0", n-3) + "1" }},
			{"exponent-digits", func(n int) string { return "1e" + rep("0", n-3) + "1" }},
			{"name-token", func(n int) string { return rep("a", n) }},
			{"string", func(n int) string { return "\"" + rep("s", n-2) + "\"" }},
			{"string-of-escapes", func(n int) string { return "\"" + rep("\\n", (n-2)/2) + "\"" }},
			{"block-string", func(n int) string { return "\"\"\"" + rep("b", n-6) + "\"\"\"" }},
			{"variable-name", func(n int) string { return "$" + rep("v", n-1) }},
			{"list-of-ones", func(n int) string { return "[" + rep("1,", n/2) + "1]" }},
			{"nested-lists", func(n int) string { return rep("[", n/2) + rep("]", n/2) }},
			{"nested-objects", func(n int) string { return rep("{a:", n/4) + "1" + rep("}", n/4) }},
			{"spaces", func(n int) string { return rep(" ", n) + "1" }},
			{"commas", func(n int) string { return "[" + rep(",", n) + "]" }},
			{"comment", func(n int) string { return "#" + rep("c", n) + "\n1" }},
		}
		for _, ld := range ladders {
			for _, n := range lengths {
				if c.Expired() {
					break
				}
				if !own() {
					continue
				}
				if n > 4097 && !c.Thorough() && (ld.name == "nested-lists" || ld.name == "nested-objects") {
					continue
				}
				v := ld.make(n)
				fam := "length-ladder:" + ld.name
				st.valueCase(fam, v)
				st.resolveAll(fam, "{ pick(m: "+v+", in: {min: "+v+"}) echo(s: "+v+") }", "", nil)
				st.resolveAll(fam, "query Q($v: Int = "+v+") { pick(i: $v) }", "Q", nil)
				st.loadSDLCase(fam, "input In { f: Int = "+v+" } type Query { i(a: String = "+v+" in: In): Int @deprecated(reason: "+v+") }")
				if ld.name == "name-token" {
					st.resolveAll(fam, "{ "+v+" "+v+": i a { "+v+" } ..."+v+" }", "", nil)
					st.loadSDLCase(fam, "type "+v+" { "+v+": "+v+" } type Query { q: "+v+" }")
				}
			}
		}
	}
	// ---- (iii-e) input types that reach themselves through defaulted fields (a default is a value of the type it sits in):
	// every schema x every request shape that makes the library coerce a value of such a type
	{
		schemas := []string{
			"input F { name: String not: F = {} }",
			"input F { name: String = \"n\" not: F = {name: \"inner\"} and: [F] = [{}] }",
			"input F { b: G = {} } input G { a: F = {} }",
			"input F { l: [F!] = [{}, {l: []}] }",
			"input F { n: F! = {n: {n: null}} }",
			"input F { self: F = {self: {self: {}}} k: Int! = 1 }",
		}
		requests := []struct {
			text string
			vars map[string]interface{}
		}{
			{"{ find(f: {}) }", nil}, {"{ find }", nil}, {"{ find(f: null) }", nil}, {"{ find(f: {not: {}, b: {}, l: [{}], self: {}}) }", nil},
			{"query Q($v: F) { find(f: $v) }", map[string]interface{}{"v": map[string]interface{}{}}},
			{"query Q($v: F = {}) { find(f: $v) }", nil},
			{"query Q($v: [F] = [{}]) { all(fs: $v) }", nil},
			{"{ all(fs: [{}, {}]) a: find(f: {}) @flt }", nil},
		}
		for _, in := range schemas {
			for _, dflt := range []string{"", " = {}"} {
				sdl := in + "\ndirective @flt(f: F = {}) on FIELD\ntype Query { find(f: F" + dflt + "): String all(fs: [F]): String }\n"
				if !own() {
					continue
				}
				st.loadSDLCase("recursive-input-default", sdl)
				for _, rq := range requests {
					if !c.NextCase("recursive-input-default ResolveString on a root loaded with:\n" + sdl + "\nrequest: " + rq.text) {
						continue
					}
					c.Eval()
					c.R.Distinct++
					c.Nontrivial()
					if pi := core.Safe(func() {
						root := ggql.NewRoot(c16Dummy{})
						if root.ParseString(sdl) == nil {
							res := root.ResolveString(rq.text, "", rq.vars)
							_ = ggql.WriteJSONValue(io.Discard, res, -1)
						}
					}); pi != nil {
						st.panicked("recursive-input-default", "ResolveString", pi, sdl+"\n"+rq.text)
					}
				}
			}
		}
	}
	// ---- (iii-f) an input type the application registered a Go struct for (typed slices, pointers, plain kinds): every field
	// given every value shape, as a literal and as a variable - the reflective copy into the struct must refuse, never panic
	{
		sdl := "enum E { A B }\ninput In { l: [Int] n: Int i: Int s: String f: Float b: Boolean e: E sub: In ls: [String] ll: [[Int]] any: [In] }\ntype Query { f(in: In, ins: [In]): String }\n"
		fields := []string{"l", "n", "i", "s", "f", "b", "e", "sub", "ls", "ll", "any"}
		values := []string{"null", "1", "-1", "1.5", "\"s\"", "true", "A", "[]", "[1]", "[null]", "[1, null]", "[\"a\", null]", "[[1]]", "[[null], null]", "{}", "{l: [null]}", "[{l: [null]}, null]", "4294967296"}
		jsonOf := map[string]interface{}{"null": nil, "1": 1.0, "-1": -1.0, "1.5": 1.5, "\"s\"": "s", "true": true, "A": "A", "[]": []interface{}{}, "[1]": []interface{}{1.0}, "[null]": []interface{}{nil},
			"[1, null]": []interface{}{1.0, nil}, "[\"a\", null]": []interface{}{"a", nil}, "[[1]]": []interface{}{[]interface{}{1.0}}, "[[null], null]": []interface{}{[]interface{}{nil}, nil},
			"{}": map[string]interface{}{}, "{l: [null]}": map[string]interface{}{"l": []interface{}{nil}}, "[{l: [null]}, null]": []interface{}{map[string]interface{}{"l": []interface{}{nil}}, nil}, "4294967296": 4294967296.0}
		for _, fld := range fields {
			for _, val := range values {
				if !own() {
					continue
				}
				for mode := 0; mode < 5; mode++ {
					var text string
					var vars map[string]interface{}
					switch mode {
					case 3: // (the input type gains fields through a later load, AFTER the struct was registered: one the struct has, one it has not)
						text = "{ f(in: {" + fld + ": " + val + ", more: 1}) }"
					case 4:
						text, vars = "query Q($v: In) { f(in: $v) }", map[string]interface{}{"v": map[string]interface{}{fld: jsonOf[val], "extra": "x"}}
					case 0:
						text = "{ f(in: {" + fld + ": " + val + "}) }"
					case 1:
						text = "{ f(ins: [{" + fld + ": " + val + "}, null, {sub: {" + fld + ": " + val + "}}]) }"
					case 2:
						text, vars = "query Q($v: In) { f(in: $v) }", map[string]interface{}{"v": map[string]interface{}{fld: jsonOf[val]}}
					}
					if !c.NextCase("registered-input-struct ResolveString: " + text + fmt.Sprintf(" vars=%v", vars)) {
						continue
					}
					c.Eval()
					c.R.Distinct++
					c.Nontrivial()
					if pi := core.Safe(func() {
						root := ggql.NewRoot(c16Dummy{})
						if err := root.ParseString(sdl); err != nil {
							panic(core.EngineError{Msg: "C03 registered-input schema refused: " + err.Error()})
						}
						if err := root.RegisterType(&C03In{}, "In"); err != nil {
							panic(core.EngineError{Msg: "C03 RegisterType refused: " + err.Error()})
						}
						if mode >= 3 {
							if err := root.ParseString("extend input In { more: Int = 5 extra: String late: [Int] = [1] }\n"); err != nil {
								panic(core.EngineError{Msg: "C03 registered-input extension refused: " + err.Error()})
							}
						}
						res := root.ResolveString(text, "", vars)
						_ = ggql.WriteJSONValue(io.Discard, res, -1)
					}); pi != nil {
						st.panicked("registered-input-struct", "ResolveString", pi, text)
					}
				}
			}
		}
	}
	// ---- (iii-g) application values the schema does not know: behind every object / interface / union / list position a Go value
	// whose type is bound to nothing (or is not even a struct), under the reflection, Resolver and AnyResolver ways of resolving,
	// for every request shape that descends into it - the answer may be null or an error, never a panic, never a spin
	if own() {
		sdl := "interface Node { id: ID }\ntype A implements Node { id: ID n: Node }\nunion U = A\ntype Query { node: Node nodes: [Node] u: U us: [U!] a: A as: [A] }\n"
		requests := []string{
			"{ node { id } }", "{ nodes { id } }", "{ node { ... on Node { id } } }", "{ node { ... on A { id } } }", "{ node { ...F } } fragment F on Node { id }",
			"{ u { ... on A { id } } }", "{ us { ... on A { id } } }", "{ a { id } }", "{ as { id } }", "{ node { __typename } }", "{ u { __typename } us { __typename } }",
			"{ a { __typename n { id } } }", "{ nodes { __typename ... on A { n { id } } } }",
		}
		for vi, mk := range c03StrangerValues {
			for mode := 0; mode < 3; mode++ {
				for _, rq := range requests {
					if !c.NextCase(fmt.Sprintf("stranger-value #%d mode=%d ResolveString: %s", vi, mode, rq)) {
						continue
					}
					c.Eval()
					c.R.Distinct++
					c.Nontrivial()
					if pi := core.Safe(func() {
						v := mk()
						var root *ggql.Root
						switch mode {
						case 0: // reflection all the way
							if p, ok := v.(c03Pair); ok {
								// two Go types behind one position: the second meets whatever was bound for the first
								root = ggql.NewRoot(&c03OddSchema{Query: &c03OddQuery{Node: p.a, Nodes: []interface{}{p.a, nil, p.b}, U: p.b, Us: []interface{}{p.a, p.b}, A: p.a, As: []interface{}{p.a, p.b}}})
								break
							}
							root = ggql.NewRoot(&c03OddSchema{Query: &c03OddQuery{Node: v, Nodes: []interface{}{v, nil, v}, U: v, Us: []interface{}{v}, A: v, As: []interface{}{v, v}}})
						case 1: // a Resolver at the top hands the value out
							root = ggql.NewRoot(c03OddResolver{v})
						default: // an AnyResolver that knows the top only
							root = ggql.NewRoot(nil)
							root.AnyResolver = &c03OddAny{v}
						}
						if err := root.ParseString(sdl); err != nil {
							panic(core.EngineError{Msg: "C03 stranger schema refused: " + err.Error()})
						}
						res := root.ResolveString(rq, "", nil)
						_ = ggql.WriteJSONValue(io.Discard, res, -1)
					}); pi != nil {
						st.panicked("stranger-value", "ResolveString", pi, fmt.Sprintf("value #%d mode %d: %s", vi, mode, rq))
					}
				}
			}
		}
	}
	// ---- (iii-h) variable defaults that name variables (the grammar reads "$x" wherever a value is read): a default that refers
	// to its own variable, two defaults that refer to each other, a default that holds its variable inside a list or an object -
	// with the variables left out, given, and half given
	if own() {
		decls := []string{
			"$a: Int = $a", "$a: Int = $b, $b: Int = $a", "$a: Int = $b, $b: Int = $c, $c: Int = $a", "$a: [[Int]] = [[1], $a]", "$a: [Int] = [1, $a]",
			"$a: Filter = {min: 1, sub: $a}", "$a: Filter = {min: $b}, $b: Int = $a", "$a: [Filter] = [{min: 1}, $a]", "$a: Int = $zz", "$a: String = $a, $b: Boolean = $b",
		}
		uses := []string{"pick(i: $a)", "pick(m: $a)", "pick(in: $a)", "pick(fs: $a)", "pick(ss: [$a])", "pick(in: {min: 1, sub: $a})", "echo(s: $a, b: $b)", "a @include(if: $a) { id }", "i"}
		for _, d := range decls {
			for _, u := range uses {
				for _, vars := range []map[string]interface{}{nil, {"b": 1}, {"a": 1}} {
					st.resolveAll("variable-default-names-variable", "query Q("+d+") { "+u+" }", "Q", vars)
				}
			}
		}
	}
	// ---- (iii-i) two selections with one response key whose values are lists of different lengths, or a list and something
	// else: every ordered pair of list-valued (and a few other) fields under one alias, at the root and one level down
	if own() {
		fields := []string{"kids{id}", "peers{id}", "as{id}", "strs", "ints", "nameds{name}", "us{__typename}", "ll{id}", "vkids{id}", "mkids{id}", "kid{id}", "i", "vals{id}", "kids{id kids{id}}"}
		for _, f1 := range fields {
			for _, f2 := range fields {
				if f1 == f2 {
					continue
				}
				st.resolveAll("same-key-different-shapes", "{ x: "+f1+" x: "+f2+" }", "", nil)
				st.resolveAll("same-key-different-shapes", "{ a { x: "+f1+" ... on A { x: "+f2+" } } }", "", nil)
			}
		}
	}
	// ---- (iii-j) roots whose types (all of them, or the operation root types) were handed over with AddTypes instead of SDL:
	// every kind of request on them
	if own() {
		ref := func(n string) ggql.Type { return &ggql.Ref{Base: ggql.Base{N: n}} }
		obj := func(name, field string) *ggql.Object {
			o := &ggql.Object{Base: ggql.Base{N: name}}
			_ = o.AddField(&ggql.FieldDef{Base: ggql.Base{N: field}, Type: ref("Int")})
			return o
		}
		setups := []struct {
			name  string
			sdl   string
			types func() []ggql.Type
		}{
			{"everything by AddTypes", "", func() []ggql.Type { return []ggql.Type{obj("Query", "i")} }},
			{"all three root types by AddTypes", "", func() []ggql.Type {
				return []ggql.Type{obj("Query", "i"), obj("Mutation", "m"), obj("Subscription", "s")}
			}},
			{"Query by SDL, Mutation and Subscription by AddTypes", "type Query { i: Int }\n", func() []ggql.Type { return []ggql.Type{obj("Mutation", "m"), obj("Subscription", "s")} }},
			{"Mutation by SDL only, Query by AddTypes", "type Mutation { m: Int }\n", func() []ggql.Type { return []ggql.Type{obj("Query", "i")} }},
			// an interface, its implementer, a union, an enum and an input built by hand
			{"interface, union, enum and input by AddTypes", "", func() []ggql.Type {
				it := &ggql.Interface{Base: ggql.Base{N: "Node"}}
				_ = it.AddField(&ggql.FieldDef{Base: ggql.Base{N: "i"}, Type: ref("Int")})
				q := obj("Query", "i")
				q.Interfaces = append(q.Interfaces, ref("Node"))
				_ = q.AddField(&ggql.FieldDef{Base: ggql.Base{N: "node"}, Type: ref("Node")})
				_ = q.AddField(&ggql.FieldDef{Base: ggql.Base{N: "u"}, Type: ref("U")})
				u := &ggql.Union{Base: ggql.Base{N: "U"}, Members: []ggql.Type{ref("Query")}}
				return []ggql.Type{it, q, u}
			}},
		}
		requests := []string{"{ i }", "{ __typename }", "{ __schema { queryType { name } mutationType { name } subscriptionType { name } types { name } } }", "query { i }", "mutation { m }",
			"subscription { s }", "{ __type(name: \"Query\") { fields { name } } }", "{ zz }", "fragment F on Query { i } { ...F }",
			"{ __type(name: \"Node\") { possibleTypes { name } } u: __type(name: \"U\") { possibleTypes { name } } }", "{ __schema { types { name possibleTypes { name } interfaces { name } } } }",
			"{ node { __typename i ... on Query { i } } u { __typename } }"}
		for _, su := range setups {
			for _, rq := range requests {
				if !c.NextCase("root built by AddTypes (" + su.name + ") ResolveString: " + rq) {
					continue
				}
				c.Eval()
				c.R.Distinct++
				c.Nontrivial()
				if pi := core.Safe(func() {
					root := ggql.NewRoot(c16Dummy{})
					if su.sdl != "" {
						if err := root.ParseString(su.sdl); err != nil {
							panic(core.EngineError{Msg: "C03 AddTypes family: SDL refused: " + err.Error()})
						}
					}
					if err := root.AddTypes(su.types()...); err != nil {
						panic(core.EngineError{Msg: "C03 AddTypes family: AddTypes refused: " + err.Error()})
					}
					res := root.ResolveString(rq, "", nil)
					_ = ggql.WriteJSONValue(io.Discard, res, -1)
					_ = root.SDL(false, true)
				}); pi != nil {
					st.panicked("root-built-by-AddTypes", "ResolveString", pi, su.name+": "+rq)
				}
			}
		}
	}
	// ---- (iii-k) variable maps an application can build in Go that no JSON decoder would: typed nil maps and slices, nil pointers,
	// for variables of input-object, list and scalar type (with and without defaulted fields)
	if own() {
		var nilMap map[string]interface{}
		var nilList []interface{}
		var nilStr *string
		vals := []struct {
			name string
			v    interface{}
		}{{"nil map", nilMap}, {"nil slice", nilList}, {"nil *string", nilStr}, {"map holding a nil map", map[string]interface{}{"sub": nilMap, "min": 1}}, {"list holding a nil map", []interface{}{nilMap}}}
		reqs := []string{"query Q($v: Filter) { pick(in: $v) }", "query Q($v: [Filter]) { pick(fs: $v) }", "query Q($v: Filter = {min: 1}) { pick(in: $v) }", "query Q($v: [String]) { pick(ss: $v) }",
			"query Q($v: String) { echo(s: $v) }", "query Q($v: [[Int]]) { pick(m: $v) }", "query Q($v: Filter) { pick(in: {min: 1, sub: $v}) }"}
		for _, v := range vals {
			for _, rq := range reqs {
				st.resolveAll("go-built-variable:"+v.name, rq, "Q", map[string]interface{}{"v": v.v})
			}
		}
	}
	// ---- (iii-l) roots that never got a schema (nothing loaded; only a refused load; a nil resolver object): every kind of request,
	// the printers and introspection. And what ParseExecutable hands back TOGETHER with an error, printed.
	if own() {
		mk := []struct {
			name string
			f    func() *ggql.Root
		}{
			{"nothing loaded", func() *ggql.Root { return ggql.NewRoot(c16Dummy{}) }},
			{"nothing loaded, nil resolver", func() *ggql.Root { return ggql.NewRoot(nil) }},
			{"only a refused load", func() *ggql.Root { r := ggql.NewRoot(c16Dummy{}); _ = r.ParseString("type Query { a: Zq7 }"); return r }},
			{"only a load refused at validation", func() *ggql.Root {
				r := ggql.NewRoot(c16Dummy{})
				_ = r.ParseString("type Query { a: Int }\ntype Bad7 {}")
				return r
			}},
		}
		for _, m := range mk {
			for _, rq := range []string{"{ a }", "{ __typename }", "{ __schema { types { name } } }", "mutation { a }", "subscription { a }", "query Q($v: Int) { a(x: $v) }", "{", ""} {
				if !c.NextCase("root without a schema (" + m.name + ") ResolveString / SDL / ParseExecutable: " + rq) {
					continue
				}
				c.Eval()
				c.R.Distinct++
				c.Nontrivial()
				if pi := core.Safe(func() {
					root := m.f()
					res := root.ResolveString(rq, "", map[string]interface{}{"v": 1})
					_ = ggql.WriteJSONValue(io.Discard, res, -1)
					_ = root.SDL(false, true)
					_ = root.SDL(true)
					if exe, _ := root.ParseExecutableString(rq); exe != nil {
						_ = exe.String()
					}
				}); pi != nil {
					st.panicked("root-without-schema", "ResolveString", pi, m.name+": "+rq)
				}
			}
		}
		// the executable a parse hands back beside its error (validation errors come with the document that was read)
		for _, rq := range []string{"query($a:){a}", "query($a: Zq7){a}", "{ a @zq7 }", "{ ...F }", "fragment F on Zq7 { a } { ...F }", "query Q { a } query Q { a }", "{ a(x: $nope) }", "query($a: Int = ){a}", "query($a: [Int){a}"} {
			if !c.NextCase("ParseExecutableString + String() of whatever came back: " + rq) {
				continue
			}
			c.Eval()
			c.R.Distinct++
			c.Nontrivial()
			if pi := core.Safe(func() {
				if exe, _ := st.roots.roots[1].ParseExecutableString(rq); exe != nil {
					_ = exe.String()
				}
			}); pi != nil {
				st.panicked("executable-returned-with-error", "ParseExecutableString+String", pi, rq)
			}
		}
	}
	// ---- (iii-m) block-string descriptions: every text of <= 3 lines over an alphabet of indented, blank and white-space-only
	// lines (shorter and longer than the indentation of their neighbours, with CR), closing quotes indented or not, as the
	// description of a type, of a field and of an argument
	if own() {
		lines := []string{"", " ", "  ", "\t", "      ", "    text", "  text", "text", "   \r", "    - item"}
		var texts []string
		for _, a := range lines {
			texts = append(texts, a)
			for _, b := range lines {
				texts = append(texts, a+"\n"+b)
				for _, d := range lines {
					texts = append(texts, a+"\n"+b+"\n"+d)
				}
			}
		}
		for _, t := range texts {
			for _, tail := range []string{"", "\n", "\n  ", "\n        "} {
				d := "\"\"\"" + t + tail + "\"\"\""
				st.loadSDLCase("block-description", "  "+d+"\n  type Query {\n    "+d+"\n    f(\n      "+d+"\n      a: Int): Int\n  }\n")
			}
		}
	}
	// ---- (iii-n) reflected methods whose parameters are typed Go slices, given lists with null members (literal, variable,
	// variable default, unset variable as a member), empty lists, null and nothing
	if own() {
		// (vstrs / vints / vtag are bound to VARIADIC methods: (l ...string), (l ...int), (prefix string, l ...string))
		const sdl = "type Query { strs(l: [String]): String ints(l: [Int]): String rows(l: [[String]]): String any(l: [String]): String " +
			"vstrs(l: [String]): String vints(l: [Int]): String vtag(prefix: String, l: [String]): String }\n"
		lists := []string{`["a", null]`, `[null]`, `[]`, `null`, `["a", "b"]`, `[null, "z", null]`}
		for _, f := range []string{"strs", "ints", "rows", "any", "vstrs", "vints", "vtag"} {
			for _, l := range lists {
				lit := l
				if f == "ints" || f == "vints" {
					lit = strings.NewReplacer(`"a"`, "1", `"b"`, "2", `"z"`, "3").Replace(l)
				}
				if f == "rows" {
					lit = "[" + l + ", null]"
				}
				for mode := 0; mode < 5; mode++ {
					var text string
					var vars map[string]interface{}
					switch mode {
					case 4:
						text = "{ " + f + " }" // the argument left out
					case 0:
						text = "{ " + f + "(l: " + lit + ") }"
					case 1:
						v, _ := ggql.ParseValueString(lit)
						text, vars = "query Q($v: "+map[string]string{"strs": "[String]", "ints": "[Int]", "rows": "[[String]]", "any": "[String]", "vstrs": "[String]", "vints": "[Int]", "vtag": "[String]"}[f]+") { "+f+"(l: $v) }", map[string]interface{}{"v": v}
					case 2:
						text = "query Q($v: " + map[string]string{"strs": "[String]", "ints": "[Int]", "rows": "[[String]]", "any": "[String]", "vstrs": "[String]", "vints": "[Int]", "vtag": "[String]"}[f] + " = " + lit + ") { " + f + "(l: $v) }"
					default:
						text = "query Q($u: " + map[string]string{"strs": "String", "ints": "Int", "rows": "[String]", "any": "String", "vstrs": "String", "vints": "Int", "vtag": "String"}[f] + ") { " + f + "(l: [$u]) }"
					}
					if !c.NextCase("typed-slice-parameter ResolveString: " + text + fmt.Sprintf(" vars=%v", vars)) {
						continue
					}
					c.Eval()
					c.R.Distinct++
					c.Nontrivial()
					if pi := core.Safe(func() {
						root := ggql.NewRoot(&C03SliceRoot{Query: &C03SliceQuery{}})
						if err := root.ParseString(sdl); err != nil {
							panic(core.EngineError{Msg: "C03 typed-slice schema refused: " + err.Error()})
						}
						res := root.ResolveString(text, "", vars)
						_ = ggql.WriteJSONValue(io.Discard, res, -1)
					}); pi != nil {
						st.panicked("typed-slice-parameter", "ResolveString", pi, text)
					}
				}
			}
		}
	}
	// ---- (iv) reader faults at every Read call of every corpus document
	for di, doc := range append(append([]string{}, exeCorpus[:6]...), sdlCorpus[:3]...) {
		isSDL := di >= 6
		for at := 0; at <= len(doc)+1; at++ {
			for kind := 1; kind <= 4; kind++ {
				if c.Expired() || !own() {
					continue
				}
				if !c.NextCase(fmt.Sprintf("reader-fault kind=%d at Read #%d of:\n%s", kind, at, doc)) {
					continue
				}
				c.Eval()
				c.R.Distinct++
				rd := &c03Reader{data: []byte(doc), at: at, kind: kind}
				if pi := core.Safe(func() {
					if isSDL {
						_ = ggql.NewRoot(c16Dummy{}).ParseReader(rd)
					} else {
						_ = st.roots.roots[1].ResolveReader(rd, "", nil)
					}
				}); pi != nil {
					st.panicked("reader-fault", "ParseReader/ResolveReader", pi, doc)
				} else {
					c.Outcome("reader-fault-returned")
				}
			}
		}
	}
	// ---- (v) variable maps
	shapes := []interface{}{nil, true, 1.5, "s", []interface{}{1.0, "a", nil}, map[string]interface{}{"min": 1.0, "zz": []interface{}{}}, int64(1) << 40, struct{}{}}
	varDocs := []struct {
		text string
		vars []string
	}{
		{`query Q($v: Int, $s: String = "d", $b: Boolean!) { echo(s: $s, b: $b) pick(i: $v) a @include(if: $b) { id } }`, []string{"v", "s", "b"}},
		{`query Q($f: Filter, $ids: [ID!], $e: Color = RED) { pick(in: $f, ids: $ids, e: $e, ss: [$e]) }`, []string{"f", "ids", "e"}},
		{`query Q($x: [[Int!]]!, $y: Float) { pick(i: $y) tri(a: $x) }`, []string{"x", "y"}},
	}
	for _, vd := range varDocs {
		n := len(vd.vars)
		total := 1
		for i := 0; i < n; i++ {
			total *= len(shapes) + 1
		}
		for code := 0; code < total; code++ {
			if c.Expired() || !own() {
				continue
			}
			vars := map[string]interface{}{}
			x := code
			for i := 0; i < n; i++ {
				k := x % (len(shapes) + 1)
				x /= len(shapes) + 1
				if k < len(shapes) {
					vars[vd.vars[i]] = shapes[k]
				}
			}
			st.resolveAll("variables", vd.text, "Q", vars)
		}
	}
	c.R.Bound = fmt.Sprintf("token strings: executable <= %d, SDL <= %d, values <= %d tokens; single-token edits of %d requests and %d schemas; byte strings <= %d; all reader faults; all variable shapes", exeL, sdlL, valL, len(exeCorpus), len(sdlCorpus), maxB)
	if c.Expired() {
		c.Cap("deadline reached")
	}
}

// family iii-g: values of Go types the schema is bound to in no way
type c03Stranger struct{ ID string }
type c03StrangerM struct{}

func (c03StrangerM) Id() string { return "m" }

var c03StrangerValues = []func() interface{}{
	func() interface{} { return &c03Stranger{ID: "p"} },
	func() interface{} { return c03Stranger{ID: "v"} },
	func() interface{} { return c03StrangerM{} },
	func() interface{} { return (*c03Stranger)(nil) },
	func() interface{} { return 7 },
	func() interface{} { return "text" },
	func() interface{} { return map[string]interface{}{"id": "m"} },
	func() interface{} { return []interface{}{&c03Stranger{ID: "l"}} },
	func() interface{} { return func() {} },
	func() interface{} { var p *int; return &p },
	// a struct whose unexported field is named like the schema field, with the exported getter Go code usually has beside it
	func() interface{} { return &c03Hidden{id: "h"} },
	func() interface{} { return c03Hidden{id: "hv"} },
	// a struct that gets the field from an embedded pointer which is nil (and one where it is set)
	func() interface{} { return &c03Embeds{} },
	func() interface{} { return &c03Embeds{c03Stranger: &c03Stranger{ID: "e"}} },
	func() interface{} { return c03Pair{&c03Embeds{c03Stranger: &c03Stranger{ID: "e"}}, &c03Embeds{}} },
	// two Go types that both fit the object type, in one list / one after the other: methods bound for the first meet the second
	func() interface{} { return c03Pair{c03StrangerM{}, c03StrangerN{}} },
	func() interface{} { return c03Pair{&c03StrangerP{}, &c03StrangerQ{}} },
	func() interface{} { return c03Pair{&c03Stranger{ID: "s"}, &c03StrangerP{}} },
	func() interface{} { return c03Pair{&c03StrangerP{}, &c03Stranger{ID: "s"}} },
	func() interface{} { return c03Pair{&c03Stranger{ID: "s"}, &c03Hidden{id: "h"}} },
}

type c03Pair struct{ a, b interface{} }
type c03Embeds struct {
	*c03Stranger
	Extra int
}
type c03Hidden struct{ id string }

func (h c03Hidden) ID() string { return "got:" + h.id }

type c03StrangerN struct{}

func (c03StrangerN) Id() string { return "n" }

type c03StrangerP struct{ N int }

func (p *c03StrangerP) Id() string { return "p" }

type c03StrangerQ struct{ S string }

func (q *c03StrangerQ) Id() string { return "q" }

type c03OddSchema struct{ Query *c03OddQuery }
type c03OddQuery struct {
	Node  interface{}
	Nodes []interface{}
	U     interface{}
	Us    []interface{}
	A     interface{}
	As    []interface{}
}

type c03OddResolver struct{ v interface{} }

func (r c03OddResolver) Resolve(field *ggql.Field, args map[string]interface{}) (interface{}, error) {
	switch field.Name {
	case "query":
		return r, nil
	case "nodes", "us", "as":
		if p, ok := r.v.(c03Pair); ok {
			return []interface{}{p.a, p.b}, nil
		}
		return []interface{}{r.v, r.v}, nil
	}
	if p, ok := r.v.(c03Pair); ok {
		return p.a, nil
	}
	return r.v, nil
}

type c03OddAny struct{ v interface{} }

func (r *c03OddAny) Resolve(obj interface{}, field *ggql.Field, args map[string]interface{}) (interface{}, error) {
	if obj == nil || obj == interface{}(r) {
		switch field.Name {
		case "query":
			return r, nil
		case "nodes", "us", "as":
			if p, ok := r.v.(c03Pair); ok {
				return []interface{}{p.a, p.b}, nil
			}
			return []interface{}{r.v, r.v}, nil
		}
		if p, ok := r.v.(c03Pair); ok {
			return p.a, nil
		}
		return r.v, nil
	}
	return nil, fmt.Errorf("unknown object %T", obj)
}
func (r *c03OddAny) Len(list interface{}) int {
	if l, ok := list.([]interface{}); ok {
		return len(l)
	}
	return 0
}
func (r *c03OddAny) Nth(list interface{}, i int) (interface{}, error) {
	if l, ok := list.([]interface{}); ok && i < len(l) {
		return l[i], nil
	}
	return nil, fmt.Errorf("no element %d", i)
}

// family iii-n: reflected methods with typed slice parameters
type C03SliceRoot struct{ Query *C03SliceQuery }
type C03SliceQuery struct{}

func (*C03SliceQuery) Strs(l []string) string     { return fmt.Sprint(len(l)) }
func (*C03SliceQuery) Ints(l []int) string        { return fmt.Sprint(len(l)) }
func (*C03SliceQuery) Rows(l [][]string) string   { return fmt.Sprint(len(l)) }
func (*C03SliceQuery) Any(l []interface{}) string { return fmt.Sprint(len(l)) }
func (*C03SliceQuery) Vstrs(l ...string) string  { return fmt.Sprint(len(l)) }
func (*C03SliceQuery) Vints(l ...int) string     { return fmt.Sprint(len(l)) }
func (*C03SliceQuery) Vtag(prefix string, l ...string) string {
	return prefix + fmt.Sprint(len(l))
}

// C03In is the Go struct an application registers for the input type In (family iii-f).
type C03In struct {
	L   []int32
	N   *int
	I   int16
	S   string
	F   float32
	B   bool
	E   string
	Sub *C03In
	Ls  []string
	Ll  [][]int
	Any []*C03In
	// (fields of the later extension: more and late have a Go field, extra has none)
	More int
	Late []int
}

// c03Nester is a context that makes a new context for every field it is handed down to.
type c03Nester struct{ depth int }

func (n c03Nester) Nest(field *ggql.Field) interface{} { return c03Nester{n.depth + 1} }
