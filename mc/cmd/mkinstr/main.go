// mkinstr generates the memory-access overlay: every non-test file of $REPO/pkg/ggql is copied with
//
//   - the import of "sync" rewritten to the scheduler shim (as bin/mkoverlay.py does), and
//   - every addressable field selection x.f on a struct type declared in the package, and every use of a
//     package-level variable, wrapped as (*__vs.R(&x.f, site)) for reads or (*__vs.W(&x.f, site)) for writes,
//
// so that the controlled scheduler sees each shared-memory access of the library and can decide data-race
// freedom by happens-before (vector-clock) checking on EVERY explored schedule instead of by sampling.
// The rewrite is purely textual insertion on one line (no line is added or removed; a //line directive
// compensates the two-line header), evaluation order and short-circuiting are unchanged because the wrapper
// sits exactly where the original expression sat.
//
//	mkinstr <repo> <outdir> <overlay.json> <sites.json> <shim source>
//
// Exit 0 on success; any failure (type errors, unexpected syntax) exits 3 and the caller falls back to the
// plain overlay - the instrumentation must never be the reason a check fails.
package main

import (
	"encoding/json"
	"fmt"
	"go/ast"
	"go/importer"
	"go/parser"
	"go/token"
	"go/types"
	"os"
	"path/filepath"
	"regexp"
	"sort"
	"strings"
)

type site struct {
	ID    int    `json:"id"`
	File  string `json:"file"`
	Line  int    `json:"line"`
	Expr  string `json:"expr"`
	Field string `json:"field"` // Type.field or var name
	Write bool   `json:"write"`
}

type ins struct {
	off   int
	text  string
	open  bool
	depth int // span length, used to order insertions at the same offset
}

func die(format string, a ...interface{}) {
	fmt.Fprintf(os.Stderr, "mkinstr: "+format+"\n", a...)
	os.Exit(3)
}

func main() {
	if len(os.Args) != 6 {
		die("usage: mkinstr <repo> <outdir> <overlay.json> <sites.json> <shim source>")
	}
	repo, outdir, ovPath, sitesPath, shim := os.Args[1], os.Args[2], os.Args[3], os.Args[4], os.Args[5]
	pkgDir := filepath.Join(repo, "pkg", "ggql")
	_ = os.MkdirAll(outdir, 0o755)
	old, _ := filepath.Glob(filepath.Join(outdir, "*.go"))
	for _, f := range old {
		_ = os.Remove(f)
	}
	fset := token.NewFileSet()
	names, _ := filepath.Glob(filepath.Join(pkgDir, "*.go"))
	sort.Strings(names)
	var files []*ast.File
	var paths []string
	srcs := map[string][]byte{}
	for _, n := range names {
		if strings.HasSuffix(n, "_test.go") {
			continue
		}
		b, err := os.ReadFile(n)
		if err != nil {
			die("%v", err)
		}
		f, err := parser.ParseFile(fset, n, b, parser.ParseComments)
		if err != nil {
			die("parse: %v", err)
		}
		files = append(files, f)
		paths = append(paths, n)
		srcs[n] = b
	}
	info := &types.Info{
		Types:      map[ast.Expr]types.TypeAndValue{},
		Selections: map[*ast.SelectorExpr]*types.Selection{},
		Uses:       map[*ast.Ident]types.Object{},
		Defs:       map[*ast.Ident]types.Object{},
	}
	conf := types.Config{Importer: importer.ForCompiler(fset, "source", nil), Error: func(err error) {}}
	pkg, err := conf.Check("github.com/uhn/ggql/pkg/ggql", fset, files, info)
	if err != nil {
		die("type check: %v", err)
	}
	var sites []site
	rep := map[string]string{}
	syncRe := regexp.MustCompile(`(?m)^(\s*)"sync"(\s*)$`)
	nsync := 0
	for fi, f := range files {
		path := paths[fi]
		src := srcs[path]
		if len(f.Comments) > 0 {
			for _, cg := range f.Comments {
				for _, c := range cg.List {
					if strings.HasPrefix(c.Text, "//go:build") || strings.HasPrefix(c.Text, "// +build") {
						die("%s has a build constraint; not handled", path)
					}
				}
			}
		}
		w := &walker{fset: fset, info: info, pkg: pkg, file: path, src: src, sites: &sites}
		w.walkFile(f)
		// package clause: add the shim import on the same line
		pkgEnd := fset.Position(f.Name.End()).Offset
		if len(w.inss) > 0 {
			w.inss = append(w.inss, ins{off: pkgEnd, text: `; import __vs "github.com/uhn/ggql/pkg/vsync"`, open: false, depth: 1 << 30})
		}
		out := applyIns(src, w.inss)
		if syncRe.Match(out) {
			out = syncRe.ReplaceAll(out, []byte(`${1}sync "github.com/uhn/ggql/pkg/vsync"${2}`))
			nsync++
		}
		// No //line directive: with go1.23 a position behind one has no entry in the type checker's FileVersions, and the
		// compiler then gives every loop in the file per-iteration variables (the go1.22 semantics) - the instrumented
		// build would not be the program pkg/ggql's go.mod (go 1.16) describes. Sites are reported from sites.json.
		hdr := "//go:build go1.18\n\n"
		op := filepath.Join(outdir, filepath.Base(path))
		if err := os.WriteFile(op, append([]byte(hdr), out...), 0o644); err != nil {
			die("%v", err)
		}
		rep[path] = op
	}
	if nsync == 0 {
		die("no file of pkg/ggql imports sync")
	}
	rep[filepath.Join(repo, "pkg", "vsync", "vsync.go")] = shim
	marker := filepath.Join(outdir, "vsync_mem.go")
	if err := os.WriteFile(marker, []byte("//go:build go1.18\n\npackage vsync\n\nfunc init() { MemOverlay = true }\n"), 0o644); err != nil {
		die("%v", err)
	}
	rep[filepath.Join(repo, "pkg", "vsync", "vsync_mem.go")] = marker
	ob, _ := json.MarshalIndent(map[string]interface{}{"Replace": rep}, "", " ")
	if err := os.WriteFile(ovPath, ob, 0o644); err != nil {
		die("%v", err)
	}
	sb, _ := json.Marshal(sites)
	if err := os.WriteFile(sitesPath, sb, 0o644); err != nil {
		die("%v", err)
	}
	fmt.Fprintf(os.Stderr, "mkinstr: %d files, %d access sites, %d files use sync\n", len(files), len(sites), nsync)
}

func applyIns(src []byte, inss []ins) []byte {
	// At one offset: closers come before openers; among closers the inner (shorter) span first; among openers the outer (longer) first.
	sort.SliceStable(inss, func(i, j int) bool {
		a, b := inss[i], inss[j]
		if a.off != b.off {
			return a.off < b.off
		}
		if a.open != b.open {
			return !a.open
		}
		if a.open {
			return a.depth > b.depth
		}
		return a.depth < b.depth
	})
	var out []byte
	prev := 0
	for _, in := range inss {
		out = append(out, src[prev:in.off]...)
		out = append(out, in.text...)
		prev = in.off
	}
	out = append(out, src[prev:]...)
	return out
}

type walker struct {
	fset  *token.FileSet
	info  *types.Info
	pkg   *types.Package
	file  string
	src   []byte
	sites *[]site
	inss  []ins
	// context marks computed before descending
	writes map[ast.Expr]bool // expression is written at this position
	skip   map[ast.Expr]bool // expression must not be wrapped (address taken, struct base, ...)
	mapW   map[*ast.IndexExpr]bool // m[k] is an assignment target
}

func (w *walker) walkFile(f *ast.File) {
	w.writes = map[ast.Expr]bool{}
	w.skip = map[ast.Expr]bool{}
	w.mapW = map[*ast.IndexExpr]bool{}
	// pass 1: context marks
	ast.Inspect(f, func(n ast.Node) bool {
		switch v := n.(type) {
		case *ast.AssignStmt:
			if v.Tok != token.DEFINE {
				for _, l := range v.Lhs {
					w.markWrite(l)
					if ix, ok := unparen(l).(*ast.IndexExpr); ok {
						w.mapW[ix] = true
					}
				}
			}
		case *ast.IncDecStmt:
			w.markWrite(v.X)
			if ix, ok := unparen(v.X).(*ast.IndexExpr); ok {
				w.mapW[ix] = true
			}
		case *ast.RangeStmt:
			if v.Tok == token.ASSIGN {
				if v.Key != nil {
					w.markWrite(v.Key)
				}
				if v.Value != nil {
					w.markWrite(v.Value)
				}
			}
		case *ast.CallExpr:
			if id, ok := v.Fun.(*ast.Ident); ok && len(v.Args) > 0 {
				if _, isBuiltin := w.info.Uses[id].(*types.Builtin); isBuiltin && (id.Name == "delete" || id.Name == "copy" || id.Name == "clear") {
					w.markWriteThrough(v.Args[0])
				}
			}
			// x.f.M() where M has a pointer receiver and x.f (a field or a package variable, not a pointer) holds a value of a
			// type from ANOTHER package (bytes.Buffer, strings.Builder, ...): the method works on x.f's memory through &x.f, and
			// its body is not instrumented. Counted as a write of x.f (a mutex of the sync shim is the scheduler's business).
			if sel, ok := v.Fun.(*ast.SelectorExpr); ok {
				if s, ok := w.info.Selections[sel]; ok && s.Kind() == types.MethodVal {
					if fn, ok := s.Obj().(*types.Func); ok && fn.Pkg() != nil && fn.Pkg() != w.pkg && fn.Pkg().Path() != "sync" {
						if sig, ok := fn.Type().(*types.Signature); ok && sig.Recv() != nil {
							if _, ptrRecv := sig.Recv().Type().(*types.Pointer); ptrRecv {
								if tv, ok := w.info.Types[sel.X]; ok {
									if _, isPtr := tv.Type.Underlying().(*types.Pointer); !isPtr && tv.Addressable() {
										w.markWrite(sel.X)
									}
								}
							}
						}
					}
				}
			}
		case *ast.UnaryExpr:
			if v.Op == token.AND {
				// &x.f : the address escapes; accesses through it are not attributable. Do not wrap the operand itself
				// (its bases are still visited).
				w.skip[unparen(v.X)] = true
			}
		case *ast.SelectorExpr:
			// x.f.g where x.f is a struct VALUE: x.f is only an address computation
			base := unparen(v.X)
			if s, isSel := w.info.Selections[v]; isSel && s.Kind() != types.FieldVal {
				if fn, ok := s.Obj().(*types.Func); ok && fn.Pkg() != nil && fn.Pkg() != w.pkg && fn.Pkg().Path() != "sync" {
					// x.f.M() with M from another package: the call uses x.f itself (a copy for a value receiver, written through
					// &x.f for a pointer receiver: see CallExpr). Methods of this package are instrumented inside, for them
					// x.f stays an address computation.
					break
				}
			}
			if tv, ok := w.info.Types[base]; ok {
				if _, isStruct := tv.Type.Underlying().(*types.Struct); isStruct {
					w.skip[base] = true
				}
				if _, isArr := tv.Type.Underlying().(*types.Array); isArr {
					w.skip[base] = true
				}
			}
		case *ast.IndexExpr:
			// a[i] on an ARRAY value field is an address computation as well
			base := unparen(v.X)
			if tv, ok := w.info.Types[base]; ok {
				if _, isArr := tv.Type.Underlying().(*types.Array); isArr {
					w.skip[base] = true
				}
			}
		}
		return true
	})
	// pass 2: wrap
	ast.Inspect(f, func(n ast.Node) bool {
		switch v := n.(type) {
		case *ast.SelectorExpr:
			w.maybeWrapSelector(v)
		case *ast.Ident:
			w.maybeWrapGlobal(v)
		case *ast.IndexExpr:
			// m[k]: a read (or, as an assignment target, a write) of the map m as a whole - the granularity at which Go
			// defines map races (any write concurrent with any other access of the same map)
			if w.isMap(v.X) {
				w.wrapMap(v.X, w.mapW[v])
			} else if w.isSlice(v.X) && !w.skip[v] {
				// s[i]: the element, by its address (slice elements are always addressable)
				w.wrapElem(v, w.mapW[v])
			}
		case *ast.RangeStmt:
			if w.isMap(v.X) {
				w.wrapMap(v.X, false)
			} else if w.isSlice(v.X) && v.Value != nil {
				// for _, e := range s: every element is read
				w.wrapSliceRead(v.X)
			}
		case *ast.CallExpr:
			if id, ok := v.Fun.(*ast.Ident); ok && len(v.Args) > 0 {
				if _, isBuiltin := w.info.Uses[id].(*types.Builtin); isBuiltin && w.isMap(v.Args[0]) {
					switch id.Name {
					case "delete", "clear":
						w.wrapMap(v.Args[0], true)
					case "len":
						w.wrapMap(v.Args[0], false)
					}
				}
			}
		}
		return true
	})
}

func (w *walker) isSlice(e ast.Expr) bool {
	tv, ok := w.info.Types[e]
	if !ok || tv.Type == nil {
		return false
	}
	_, is := tv.Type.Underlying().(*types.Slice)
	return is
}

// wrapElem wraps s[i] as (*__vs.R(&s[i], site)) / (*__vs.W(&s[i], site)).
func (w *walker) wrapElem(ix *ast.IndexExpr, write bool) {
	start := w.fset.Position(ix.Pos())
	end := w.fset.Position(ix.End())
	if start.Filename != w.file {
		return
	}
	id := len(*w.sites)
	*w.sites = append(*w.sites, site{ID: id, File: filepath.Base(w.file), Line: start.Line, Expr: string(w.src[start.Offset:end.Offset]), Field: "element of " + string(w.src[start.Offset:w.fset.Position(ix.X.End()).Offset]), Write: write})
	fn := "R"
	if write {
		fn = "W"
	}
	span := end.Offset - start.Offset + 2
	w.inss = append(w.inss, ins{off: start.Offset, text: "(*__vs." + fn + "(&", open: true, depth: span})
	w.inss = append(w.inss, ins{off: end.Offset, text: fmt.Sprintf(", %d))", id), open: false, depth: span})
}

// wrapSliceRead wraps the slice of a range statement as __vs.SR(s, site): every element is marked read, s is returned.
func (w *walker) wrapSliceRead(e ast.Expr) {
	start := w.fset.Position(e.Pos())
	end := w.fset.Position(e.End())
	if start.Filename != w.file {
		return
	}
	id := len(*w.sites)
	*w.sites = append(*w.sites, site{ID: id, File: filepath.Base(w.file), Line: start.Line, Expr: string(w.src[start.Offset:end.Offset]), Field: "elements of " + string(w.src[start.Offset:end.Offset]), Write: false})
	span := end.Offset - start.Offset + 1
	w.inss = append(w.inss, ins{off: start.Offset, text: "__vs.SR(", open: true, depth: span})
	w.inss = append(w.inss, ins{off: end.Offset, text: fmt.Sprintf(", %d)", id), open: false, depth: span})
}

func (w *walker) isMap(e ast.Expr) bool {
	tv, ok := w.info.Types[e]
	if !ok || tv.Type == nil {
		return false
	}
	_, is := tv.Type.Underlying().(*types.Map)
	return is
}

// wrapMap wraps a map-valued expression m as __vs.MR(m, site) / __vs.MW(m, site): the wrapper reports an access of the map
// object (its header address) and returns m, so m[k], m[k] = v, range m, delete(m, k), len(m) keep their meaning.
func (w *walker) wrapMap(e ast.Expr, write bool) {
	start := w.fset.Position(e.Pos())
	end := w.fset.Position(e.End())
	if start.Filename != w.file {
		return
	}
	id := len(*w.sites)
	*w.sites = append(*w.sites, site{ID: id, File: filepath.Base(w.file), Line: start.Line, Expr: string(w.src[start.Offset:end.Offset]), Field: "map " + string(w.src[start.Offset:end.Offset]), Write: write})
	fn := "MR"
	if write {
		fn = "MW"
	}
	span := end.Offset - start.Offset + 1 // outside a field wrapper of the same expression
	w.inss = append(w.inss, ins{off: start.Offset, text: "__vs." + fn + "(", open: true, depth: span})
	w.inss = append(w.inss, ins{off: end.Offset, text: fmt.Sprintf(", %d)", id), open: false, depth: span})
}

func unparen(e ast.Expr) ast.Expr {
	for {
		p, ok := e.(*ast.ParenExpr)
		if !ok {
			return e
		}
		e = p.X
	}
}

// markWrite marks the assignment target: the target itself when it is a field selection or a variable, else
// (x.f[i] = v, x.m[k] = v, *x.p = v is NOT followed) the container field reached through index/slice expressions.
func (w *walker) markWrite(l ast.Expr) {
	l = unparen(l)
	switch v := l.(type) {
	case *ast.SelectorExpr, *ast.Ident:
		w.writes[l] = true
	case *ast.IndexExpr:
		w.markWriteThrough(v.X)
	case *ast.SliceExpr:
		w.markWriteThrough(v.X)
	}
}

func (w *walker) markWriteThrough(e ast.Expr) {
	e = unparen(e)
	switch v := e.(type) {
	case *ast.SelectorExpr, *ast.Ident:
		w.writes[e] = true
	case *ast.IndexExpr:
		w.markWriteThrough(v.X)
	case *ast.SliceExpr:
		w.markWriteThrough(v.X)
	}
}

func (w *walker) maybeWrapSelector(sel *ast.SelectorExpr) {
	s, ok := w.info.Selections[sel]
	if !ok || s.Kind() != types.FieldVal {
		return
	}
	fv, ok := s.Obj().(*types.Var)
	if !ok || fv.Pkg() != w.pkg {
		return
	}
	if w.skip[sel] {
		return
	}
	tv, ok := w.info.Types[sel]
	if !ok || !tv.Addressable() {
		return
	}
	owner := "?"
	if n := namedOf(s.Recv()); n != "" {
		owner = n
	}
	w.wrap(sel, owner+"."+fv.Name())
}

func namedOf(t types.Type) string {
	for {
		if p, ok := t.(*types.Pointer); ok {
			t = p.Elem()
			continue
		}
		break
	}
	if n, ok := t.(*types.Named); ok {
		return n.Obj().Name()
	}
	return ""
}

func (w *walker) maybeWrapGlobal(id *ast.Ident) {
	obj, ok := w.info.Uses[id].(*types.Var)
	if !ok || obj.IsField() || obj.Pkg() != w.pkg || obj.Parent() != w.pkg.Scope() {
		return
	}
	if w.skip[id] {
		return
	}
	w.wrap(id, "var "+obj.Name())
}

func (w *walker) wrap(e ast.Expr, field string) {
	start := w.fset.Position(e.Pos())
	end := w.fset.Position(e.End())
	if start.Filename != w.file {
		return
	}
	write := w.writes[e]
	id := len(*w.sites)
	*w.sites = append(*w.sites, site{ID: id, File: filepath.Base(w.file), Line: start.Line, Expr: string(w.src[start.Offset:end.Offset]), Field: field, Write: write})
	fn := "R"
	if write {
		fn = "W"
	}
	span := end.Offset - start.Offset
	w.inss = append(w.inss, ins{off: start.Offset, text: "(*__vs." + fn + "(&", open: true, depth: span})
	w.inss = append(w.inss, ins{off: end.Offset, text: fmt.Sprintf(", %d))", id), open: false, depth: span})
}
