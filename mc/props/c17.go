package props

import (
	"fmt"
	"strings"
	"time"

	"github.com/uhn/ggql/pkg/ggql"

	"verif/mc/core"
	"verif/mc/sgen"
	"verif/mc/world"
)

// C17 — introspection reports the loaded schema faithfully (DESIGN 5.17).

func init() {
	Register(&Check{
		ID:  "C17",
		Run: runC17,
		Rule: "every accepted schema of the C13 accepting side (6 bases incl. custom root names, every single valid edit; thorough: pairs) x {full __schema query with includeDeprecated true / false / absent; __type(name:) for every type name and an unknown name, name given as literal and as variable} " +
			"x application strategy {reflection root, Resolver root, installed root (any) resolver}; oracle = refintrospect computed from the abstract schema (kinds, names, descriptions, fields/args/types unrolled through ofType, defaults by value, deprecation, " +
			"interfaces / possibleTypes as sets, enum values, input fields, directives with locations and args, root types); identical across strategies. distinct = (schema, strategy, query); non-trivial = schema is not a base or the query filters deprecated members",
		Technique:      "bounded-exhaustive enumeration of schemas x introspection selections x strategies on the real resolver against an independent reference (refintrospect)",
		Assumptions:    []string{"for wrapper types only kind and ofType are demanded", "null and empty list are equivalent for interfaces/possibleTypes", "the default deprecation reason may be reported with or without its embedded quotes"},
		QuickBudget:    100 * time.Second,
		ThoroughBudget: 20 * time.Minute,
	})
}

// nine levels: the deepest reference of the subjects is [[[Int!]!]!]! (seven wrappers and the named type)
const c17TypeRef = `kind name ofType{kind name ofType{kind name ofType{kind name ofType{kind name ofType{kind name ofType{kind name ofType{kind name ofType{kind name}}}}}}}}`

func c17TypeSel(dep string) string {
	return `kind name description fields` + dep + `{name description isDeprecated deprecationReason args{name description defaultValue type{` + c17TypeRef + `}} type{` + c17TypeRef + `}} ` +
		`interfaces{name} possibleTypes{name} enumValues` + dep + `{name description isDeprecated deprecationReason} inputFields{name description defaultValue type{` + c17TypeRef + `}} ofType{name}`
}

type C17FSQuery struct{ X int }
type C17FSRoot struct {
	Query    *C17FSQuery
	Mutation *C17FSQuery
}

type c17AnyRoot struct{}
type c17Any struct{}

func (c17Any) Resolve(obj interface{}, field *ggql.Field, args map[string]interface{}) (interface{}, error) {
	return &c17AnyRoot{}, nil
}
func (c17Any) Len(list interface{}) int {
	if l, ok := list.([]interface{}); ok {
		return len(l)
	}
	return 0 // an application resolver knows nothing about ggql's own lists
}
func (c17Any) Nth(list interface{}, i int) (interface{}, error) {
	if l, ok := list.([]interface{}); ok {
		return l[i], nil
	}
	return nil, fmt.Errorf("not a list")
}

func c17Root(strat world.Strategy, sdl string) (*ggql.Root, error) {
	var root *ggql.Root
	switch strat {
	case world.FS:
		root = ggql.NewRoot(&C17FSRoot{Query: &C17FSQuery{}, Mutation: &C17FSQuery{}})
	case world.RS:
		root = ggql.NewRoot(c16Dummy{})
	case world.AS:
		root = ggql.NewRoot(&c17AnyRoot{})
		root.AnyResolver = c17Any{}
	}
	return root, root.ParseString(sdl)
}

var c17CoreTypes = []string{"Int", "Float", "String", "Boolean", "ID", "__Schema", "__Type", "__Field", "__InputValue", "__EnumValue", "__Directive", "__TypeKind", "__DirectiveLocation"}

func c17What(diff string) string {
	head := diff
	if i := strings.Index(diff, ":"); i >= 0 {
		head = diff[:i]
	}
	segs := strings.Split(head, ".")
	last := segs[len(segs)-1]
	for _, k := range []string{"defaultValue", "interfaces", "possibleTypes", "description", "deprecationReason", "isDeprecated", "fields", "enumValues", "inputFields", "kind", "ofType", "locations", "args", "type", "name"} {
		if strings.Contains(head, k) && (last == k || strings.HasSuffix(head, k)) {
			return k
		}
	}
	for _, k := range []string{"defaultValue", "interfaces", "possibleTypes", "fields", "enumValues", "inputFields", "args", "type"} {
		if strings.Contains(head, "."+k) {
			return k
		}
	}
	return "other"
}

func runC17(c *core.Ctx) {
	ggql.Sort = true
	defer func() { ggql.Sort = false }()
	var subjects []*sgen.Schema
	var descs []string
	bases := sgen.Bases()
	for i, b := range bases {
		subjects, descs = append(subjects, b), append(descs, fmt.Sprintf("base S%d", i))
		for _, v := range sgen.ValidVariants(b) {
			subjects, descs = append(subjects, v.Schema), append(descs, fmt.Sprintf("S%d + %s", i, v.Desc))
			if c.Thorough() && i != 1 {
				for _, v2 := range sgen.ValidVariants(v.Schema) {
					subjects, descs = append(subjects, v2.Schema), append(descs, fmt.Sprintf("S%d + %s + %s", i, v.Desc, v2.Desc))
				}
			}
		}
	}
	// round 10: every way of nesting a list in a list with non-null marks between, around and inside (8 shapes),
	// as fields and as argument types of the first object type of every base - ofType must unroll each mark.
	for i, b := range bases {
		m := b.Clone()
		for di, d := range m.Defs {
			if d.Kind != sgen.KObject || d.Extend {
				continue
			}
			n := 0
			for _, outer := range []bool{false, true} {
				for _, mid := range []bool{false, true} {
					for _, inner := range []bool{false, true} {
						t := sgen.N("Int")
						if inner {
							t = sgen.NN(t)
						}
						t = sgen.L(t)
						if mid {
							t = sgen.NN(t)
						}
						t = sgen.L(t)
						if outer {
							t = sgen.NN(t)
						}
						m.Defs[di].Fields = append(m.Defs[di].Fields, &sgen.Field{Name: fmt.Sprintf("deep%d", n), Type: t,
							Args: []*sgen.Arg{{Name: "a", Type: sgen.L(t)}}})
						n++
					}
				}
			}
			break
		}
		subjects, descs = append(subjects, m), append(descs, fmt.Sprintf("S%d + lists of lists under every non-null marking", i))
	}
	strats := []world.Strategy{world.RS, world.FS, world.AS}
	completed := true
	for si, s := range subjects {
		if c.Expired() {
			completed = false
			break
		}
		if len(s.WellFormed()) > 0 {
			continue
		}
		sdl := s.SDL()
		if !c.Owns(sdl) {
			continue
		}
		m := s.Merged()
		var typeNames []string
		for _, d := range m.Defs {
			if d.Kind != sgen.KDirective {
				typeNames = append(typeNames, d.Name)
			}
		}
		for _, st := range strats {
			root, err := c17Root(st, sdl)
			if err != nil {
				c.Count("schema_refused")
				break
			}
			c17Inspect(c, root, s, descs[si], sdl, st, si >= len(bases))
		}
		c.Sample(func() interface{} { return map[string]interface{}{"schema": descs[si], "types": typeNames} })
	}
	// ---- histories: the schema grows on a root that has already answered introspection, and refused loads come in between.
	// For every base and every valid edit that only ADDS units (new types, extend blocks): load the base, inspect, a refused
	// load (its first types are added to the tables before an undefined reference refuses it), inspect, load the added units,
	// inspect against the grown schema, a refused load again, inspect. Every inspection is the complete one above.
	const refusedLoad = "\"says a load that is refused\" scalar Time\n\"likewise\" scalar Int64\n\"likewise\" scalar Date\n" +
		"type Apple7 { x: Int }\ntype Aardvark7 { y: Zq7Undefined }\ndirective @aaa7 on OBJECT\nextend type Apple7 { z: Int }\n"
	// what the root says about the scalars every root has (their descriptions are the library's own, so compared with what the
	// same root said before the refused load, not with the reference)
	const scalarQuery = `{ t: __type(name: "Time") { kind name description } i: __type(name: "Int64") { kind name description } f: __type(name: "Float64") { description } d: __type(name: "Date") { kind name description } s: __type(name: "String") { description } }`
	nHist := 0
	for bi, b := range bases {
		if len(b.WellFormed()) > 0 {
			continue
		}
		baseUnits := map[string]bool{}
		for _, u := range b.Units() {
			baseUnits[u.Text()] = true
		}
		for _, v := range sgen.ValidVariants(b) {
			if len(v.Schema.WellFormed()) > 0 {
				continue
			}
			var extra []string
			kept := 0
			for _, u := range v.Schema.Units() {
				if baseUnits[u.Text()] {
					kept++
				} else {
					extra = append(extra, u.Text())
				}
			}
			if kept != len(baseUnits) || len(extra) == 0 {
				continue // the edit changes a unit of the base: not a later load
			}
			nHist++
			later := strings.Join(extra, "\n") + "\n"
			if c.Expired() {
				completed = false
				break
			}
			if !c.Owns("history|" + b.SDL() + "|" + later) {
				continue
			}
			desc := fmt.Sprintf("S%d, then in a later load: %s", bi, v.Desc)
			for _, st := range strats {
				root, err := c17Root(st, b.SDL())
				if err != nil {
					c.Count("schema_refused")
					break
				}
				// a refused load that fails INSIDE an extend block, after the block has added a field to a type of the base
				inside := ""
				for _, d := range b.Defs {
					if d.Kind == sgen.KObject && !d.Extend && len(d.Fields) > 0 {
						inside = fmt.Sprintf("extend type %s { zq7fresh: Int %s: Int }\n", d.Name, d.Fields[0].Name)
						break
					}
				}
				steps := []struct {
					load   string
					refuse bool
					now    *sgen.Schema
				}{{"", false, b}, {refusedLoad, true, b}, {inside, true, b}, {later, false, v.Schema}, {refusedLoad, true, v.Schema}, {inside, true, v.Schema}}
				for i, stp := range steps {
					scalarsBefore := ""
					if stp.refuse {
						scalarsBefore = string(toJSON(world.Canon(root.ResolveString(scalarQuery, "", nil))))
					}
					if stp.load != "" {
						var lerr error
						if pi := core.Safe(func() { lerr = root.ParseString(stp.load) }); pi != nil {
							c.Violation("panic", map[string]string{"site": pi.Site, "class": pi.Class, "strategy": st.String()}, map[string]interface{}{"schema": desc, "load": stp.load, "panic": pi.Value})
							break
						}
						if (lerr != nil) != stp.refuse {
							if stp.refuse {
								panic(core.EngineError{Msg: "C17 history: the load meant to be refused was accepted"})
							}
							c.Count("later_load_refused") // C16's business (a schema in several loads); nothing to inspect
							break
						}
					}
					if stp.refuse {
						if after := string(toJSON(world.Canon(root.ResolveString(scalarQuery, "", nil)))); after != scalarsBefore {
							c.Outcome("diff:scalars-after-refused-load")
							c.Violation("introspection-diff", map[string]string{"what": "scalar-description-after-refused-load", "strategy": st.String(), "custom_root": "false"},
								map[string]interface{}{"schema": desc, "refused_load": stp.load, "before": scalarsBefore, "after": after, "query": scalarQuery})
						}
					}
					c17Inspect(c, root, stp.now, fmt.Sprintf("%s [history step %d]", desc, i), b.SDL()+"\n# later load:\n"+later, st, true)
				}
			}
		}
	}
	// ---- operation root types handed over by AddTypes after the SDL load (the undeclared schema was made up without them)
	for bi, b := range bases {
		if len(b.Blocks) > 0 || b.Def("Mutation") != nil || b.Def("Subscription") != nil || b.Def("Query") == nil || len(b.WellFormed()) > 0 {
			continue
		}
		if !c.Owns("addtypes-roots|" + b.SDL()) {
			continue
		}
		v := b.Clone()
		v.Defs = append(v.Defs, &sgen.Def{Kind: sgen.KObject, Name: "Mutation", Fields: []*sgen.Field{{Name: "am", Type: sgen.N("Int")}}},
			&sgen.Def{Kind: sgen.KObject, Name: "Subscription", Fields: []*sgen.Field{{Name: "as", Type: sgen.N("Int")}}})
		for _, st := range strats {
			root, err := c17Root(st, b.SDL())
			if err != nil {
				break
			}
			desc := fmt.Sprintf("S%d, then Mutation and Subscription by AddTypes", bi)
			c17Inspect(c, root, b, desc+" [before]", b.SDL(), st, true)
			obj := func(name, field string) *ggql.Object {
				o := &ggql.Object{Base: ggql.Base{N: name}}
				_ = o.AddField(&ggql.FieldDef{Base: ggql.Base{N: field}, Type: &ggql.Ref{Base: ggql.Base{N: "Int"}}})
				return o
			}
			if err := root.AddTypes(obj("Mutation", "am"), obj("Subscription", "as")); err != nil {
				panic(core.EngineError{Msg: "C17: AddTypes of root types refused: " + err.Error()})
			}
			c17Inspect(c, root, v, desc+" [after]", v.SDL(), st, true)
		}
	}
	c.R.Bound = fmt.Sprintf("%d schemas x 3 strategies x (3 __schema modes + 2 x every type name); %d growth histories (base, refused load, later load, refused load) x 3 strategies, each step inspected in full", len(subjects), nHist)
	if !completed {
		c.Cap("deadline reached")
	}
}

// c17Inspect asks root for the whole __schema (three includeDeprecated modes) and for __type of every name, and compares each
// answer with what the reference derives from s. desc / sdl describe how the root got there.
func c17Inspect(c *core.Ctx, root *ggql.Root, s *sgen.Schema, desc, sdl string, st world.Strategy, nontrivial bool) {
	m := s.Merged()
	qn, mn, sn := s.RootTypes()
	var typeNames []string
	for _, d := range m.Defs {
		if d.Kind != sgen.KDirective {
			typeNames = append(typeNames, d.Name)
		}
	}
	opName := ""
	report := func(query, incl, diff string, res map[string]interface{}) {
		what := c17What(diff)
		c.Outcome("diff:" + what)
		c.Violation("introspection-diff", map[string]string{"what": what, "strategy": st.String(), "custom_root": fmt.Sprint(qn != "Query")},
			map[string]interface{}{"schema": desc, "sdl": sdl, "strategy": st.String(), "query": query, "includeDeprecated": incl, "diff": diff, "errors": res["errors"]})
	}
	// ---- full __schema query, three includeDeprecated modes
	for _, mode := range []struct {
		text string
		incl bool
		name string
	}{{"(includeDeprecated: true)", true, "true"}, {"(includeDeprecated: false)", false, "false"}, {"", false, "absent"}} {
		q := `{__schema{queryType{name} mutationType{name} subscriptionType{name} types{` + c17TypeSel(mode.text) + `} directives{name description locations args{name description defaultValue type{` + c17TypeRef + `}}}}}`
		c.Eval()
		c.R.Distinct++
		if nontrivial || !mode.incl {
			c.Nontrivial()
		}
		core.Announce("introspection on " + desc)
		var res map[string]interface{}
		if pi := core.Safe(func() { res = root.ResolveString(q, opName, nil) }); pi != nil {
			c.Outcome("panic")
			c.Violation("panic", map[string]string{"site": pi.Site, "class": pi.Class, "strategy": st.String()}, map[string]interface{}{"schema": desc, "sdl": sdl, "query": q, "panic": pi.Value})
			continue
		}
		data, _ := world.Canon(res["data"]).(map[string]interface{})
		sch, _ := data["__schema"].(map[string]interface{})
		if sch == nil {
			report(q, mode.name, "__schema: no answer", res)
			continue
		}
		bad := false
		rootName := func(k, want string) {
			got := ""
			if mm, ok := sch[k].(map[string]interface{}); ok {
				got, _ = mm["name"].(string)
			}
			if got != want && !bad {
				report(q, mode.name, fmt.Sprintf("%s.name: want %q got %q", k, want, got), res)
				bad = true
			}
		}
		rootName("queryType", qn)
		rootName("mutationType", mn)
		rootName("subscriptionType", sn)
		tl, _ := sch["types"].([]interface{})
		counts := map[string]int{}
		byN := map[string]interface{}{}
		for _, t := range tl {
			if tm, ok := t.(map[string]interface{}); ok {
				n, _ := tm["name"].(string)
				counts[n]++
				byN[n] = tm
			}
		}
		for _, n := range append(append([]string{}, typeNames...), c17CoreTypes...) {
			if bad {
				break
			}
			if counts[n] != 1 {
				report(q, mode.name, fmt.Sprintf("types: %s listed %d times", n, counts[n]), res)
				bad = true
			}
		}
		for _, n := range typeNames {
			if bad {
				break
			}
			if d := sgen.CompareType(sgen.ExpectedType(s, n, mode.incl), byN[n]); d != "" {
				report(q, mode.name, d, res)
				bad = true
			}
		}
		dl, _ := sch["directives"].([]interface{})
		dm := map[string]interface{}{}
		for _, d := range dl {
			if dmm, ok := d.(map[string]interface{}); ok {
				dm[fmt.Sprint(dmm["name"])] = dmm
			}
		}
		for _, dn := range append(s.DirectiveNames(), "skip", "include", "deprecated") {
			if bad {
				break
			}
			if want := sgen.ExpectedDirective(s, dn); want != nil {
				if d := sgen.CompareDirective(want, dm[dn]); d != "" {
					report(q, mode.name, d, res)
					bad = true
				}
			} else if dm[dn] == nil {
				report(q, mode.name, "directives: built-in @"+dn+" missing", res)
				bad = true
			}
		}
		if !bad {
			c.Outcome("faithful:__schema")
		}
	}
	// ---- __type(name:) for every name, literal and variable
	for _, n := range append(append(append([]string{}, typeNames...), "Zq7Unknown", "Int", "skip", "deprecated"), s.DirectiveNames()...) {
		for _, viaVar := range []bool{false, true} {
			q := `{__type(name: "` + n + `"){` + c17TypeSel("(includeDeprecated: true)") + `}}`
			var vars map[string]interface{}
			if viaVar {
				q = `query T($n: String!){__type(name: $n){` + c17TypeSel("(includeDeprecated: true)") + `}}`
				vars = map[string]interface{}{"n": n}
			}
			c.Eval()
			c.R.Distinct++
			c.Nontrivial()
			var res map[string]interface{}
			if pi := core.Safe(func() { res = root.ResolveString(q, opName, vars) }); pi != nil {
				c.Violation("panic", map[string]string{"site": pi.Site, "class": pi.Class, "strategy": st.String()}, map[string]interface{}{"schema": desc, "query": q, "panic": pi.Value})
				continue
			}
			data, _ := world.Canon(res["data"]).(map[string]interface{})
			got := data["__type"]
			want := sgen.ExpectedType(s, n, true)
			if want == nil {
				if got != nil {
					report(q, "true", "__type of an unknown name: want null got "+fmt.Sprint(got), res)
				} else if _, has := data["__type"]; !has && res["errors"] != nil {
					report(q, "true", "__type of an unknown name: want null, got an error and no answer", res)
				} else {
					c.Outcome("faithful:__type-unknown")
				}
				continue
			}
			if d := sgen.CompareType(want, got); d != "" {
				report(q, "true", "__type: "+d, res)
				continue
			}
			c.Outcome("faithful:__type")
		}
	}
}
