package sgen

import (
	"fmt"

	"github.com/uhn/ggql/pkg/ggql"

	"verif/mc/world"
)

func toType(t *T) ggql.Type {
	switch t.K {
	case world.TList:
		return &ggql.List{Base: toType(t.Of)}
	case world.TNonNull:
		return &ggql.NonNull{Base: toType(t.Of)}
	}
	return &ggql.Ref{Base: ggql.Base{N: t.Name}}
}

// toVal converts an abstract constant to what ggql's parser would have produced.
func toVal(v Val) interface{} {
	switch tv := v.(type) {
	case world.EnumLit:
		return ggql.Symbol(tv)
	case int:
		return int64(tv)
	case []interface{}:
		out := make([]interface{}, len(tv))
		for i, e := range tv {
			out[i] = toVal(e)
		}
		return out
	case map[string]interface{}:
		out := map[string]interface{}{}
		for k, e := range tv {
			out[k] = toVal(e)
		}
		return out
	}
	return v
}

func toDirs(ds []DirUse) []*ggql.DirectiveUse {
	var out []*ggql.DirectiveUse
	for _, d := range ds {
		u := &ggql.DirectiveUse{Directive: &ggql.Ref{Base: ggql.Base{N: d.Name}}}
		if len(d.Args) > 0 {
			u.Args = map[string]*ggql.ArgValue{}
			for _, a := range d.Args {
				u.Args[a.Name] = &ggql.ArgValue{Arg: a.Name, Value: toVal(a.Value)}
			}
		}
		out = append(out, u)
	}
	return out
}

func toArg(a *Arg) *ggql.Arg {
	ga := &ggql.Arg{Base: ggql.Base{N: a.Name, Desc: a.Desc, Dirs: toDirs(a.Dirs)}, Type: toType(a.Type)}
	if a.HasDef {
		ga.Default = toVal(a.Default)
	}
	return ga
}

// ToTypes builds ggql types for the AddTypes route (extend blocks folded in; schema blocks are not expressible here).
// An error from one of ggql's Add* constructors (duplicate member) is returned as such: it is a refusal too.
func ToTypes(s0 *Schema) ([]ggql.Type, error) {
	s := s0.Merged()
	var out []ggql.Type
	for _, d := range s.Defs {
		base := ggql.Base{N: d.Name, Desc: d.Desc, Dirs: toDirs(d.Dirs)}
		switch d.Kind {
		case KObject, KInterface:
			var addField func(*ggql.FieldDef) error
			var t ggql.Type
			if d.Kind == KObject {
				o := &ggql.Object{Base: base}
				for _, i := range d.Implements {
					o.Interfaces = append(o.Interfaces, &ggql.Ref{Base: ggql.Base{N: i}})
				}
				addField, t = o.AddField, o
			} else {
				i := &ggql.Interface{Base: base}
				addField, t = i.AddField, i
			}
			for _, f := range d.Fields {
				fd := &ggql.FieldDef{Base: ggql.Base{N: f.Name, Desc: f.Desc, Dirs: toDirs(f.Dirs)}, Type: toType(f.Type)}
				for _, a := range f.Args {
					if err := fd.AddArg(toArg(a)); err != nil {
						return nil, fmt.Errorf("AddArg %s.%s(%s): %w", d.Name, f.Name, a.Name, err)
					}
				}
				if err := addField(fd); err != nil {
					return nil, fmt.Errorf("AddField %s.%s: %w", d.Name, f.Name, err)
				}
			}
			out = append(out, t)
		case KInput:
			in := &ggql.Input{Base: base}
			for _, f := range d.Fields {
				gf := &ggql.InputField{Base: ggql.Base{N: f.Name, Desc: f.Desc, Dirs: toDirs(f.Dirs)}, Type: toType(f.Type)}
				if f.HasDef {
					gf.Default = toVal(f.Default)
				}
				if err := in.AddField(gf); err != nil {
					return nil, fmt.Errorf("AddField %s.%s: %w", d.Name, f.Name, err)
				}
			}
			out = append(out, in)
		case KUnion:
			u := &ggql.Union{Base: base}
			for _, m := range d.Members {
				u.Members = append(u.Members, &ggql.Ref{Base: ggql.Base{N: m}})
			}
			out = append(out, u)
		case KEnum:
			e := &ggql.Enum{Base: base}
			for _, v := range d.Values {
				if err := e.AddValue(&ggql.EnumValue{Value: ggql.Symbol(v.Name), Description: v.Desc, Directives: toDirs(v.Dirs)}); err != nil {
					return nil, fmt.Errorf("AddValue %s.%s: %w", d.Name, v.Name, err)
				}
			}
			out = append(out, e)
		case KScalar:
			out = append(out, &CustomScalar{ggql.Scalar{Base: base}})
		case KDirective:
			dt := &ggql.Directive{Base: base}
			for _, l := range d.Locations {
				dt.On = append(dt.On, ggql.Location(l))
			}
			for _, a := range d.Args {
				if err := dt.AddArg(toArg(a)); err != nil {
					return nil, fmt.Errorf("AddArg @%s(%s): %w", d.Name, a.Name, err)
				}
			}
			out = append(out, dt)
		}
	}
	return out, nil
}

// DirectiveNames lists the directive definitions of the schema.
func (s *Schema) DirectiveNames() []string {
	var out []string
	for _, d := range s.Defs {
		if d.Kind == KDirective {
			out = append(out, d.Name)
		}
	}
	return out
}

// CustomScalar is how an application adds its own scalar through AddTypes: a type embedding ggql.Scalar
// that can coerce in and out (a bare *ggql.Scalar is neither an input nor an output type).
type CustomScalar struct{ ggql.Scalar }

func (t *CustomScalar) CoerceIn(v interface{}) (interface{}, error)  { return v, nil }
func (t *CustomScalar) CoerceOut(v interface{}) (interface{}, error) { return v, nil }
