#!/bin/bash
# bin/check.sh <PROP> <quick|thorough>     rebuild from $VERIF_REPO's working tree, then run the check
# bin/check.sh replay <file>
# Exit: 0 property held on everything explored; 1 VIOLATION; 2 engine/build error.
source "$(dirname "$0")/env.sh"
cd "$VERIF_DIR/mc" || exit 2
"$VERIF_DIR/bin/build.sh" >&2 || { echo "ENGINE-ERROR: build failed"; exit 2; }
if [ "$1" = "replay" ]; then
  exec "$VERIF_DIR/build/vcheck" replay "$2"
fi
export VERIF_TIER="${2:-quick}"
exec "$(vbin "$1")" run "$1" "${2:-quick}"
